(** * C20 -- JSON: the deserialisers never panic, malformed documents are errors, round trip.
    Stated at the level of serde_json::Value (the text layer -- number printing and parsing, syntax -- is
    serde_json's: trusted, exercised by the harness, checked by the oracle lib/pC20.py), for EVERY number
    instance of the model.  The witnesses of the pinned defect (documents "[1,2]" and "null" made
    `Loop3D::deserialize` panic) are not expressible in the model of the repaired code; they stay in
    corpus/C20/ and are fed to the real deserialiser first on every run. *)
From Coq Require Import ZArith List Floats.
From G3 Require Import Model.Num Model.NumF Model.Base Model.Vec Model.Segment Model.Loop Model.Polygon Model.Json Model.PolyAux
  Proofs.C20_json.
Import ListNotations.

(** NEVER a panic, for ANY value tree: Loop3D and Polygon3D *)
Theorem C20_de_loop_never_panics : forall (K : Type) (NK : Num K) (v : Value K) (s : N), de_loop v <> Panic s.
Proof. exact (fun K NK => @de_loop_no_panic K NK). Qed.
Theorem C20_de_poly_never_panics : forall (K : Type) (NK : Num K) (v : Value K) (s : N), de_poly v <> Panic s.
Proof. exact (fun K NK => @de_poly_no_panic K NK). Qed.

(** null, booleans, numbers, strings, objects: an error ("Loops need at least 3 vertices") *)
Theorem C20_non_array_is_error : forall (K : Type) (NK : Num K) (v : Value K), is_array v = false -> de_loop v = Err 33%N.
Proof. exact (fun K NK => @non_array_is_error K NK). Qed.
(** arrays containing a non-number (nested arrays, objects, strings, booleans, null), or whose length is
    not a multiple of 3, or with fewer than 9 elements: an error, whatever else they contain *)
Theorem C20_bad_array_is_error : forall (K : Type) (NK : Num K) (a : list (Value K)),
  forallb is_number a = false \/ Nat.modulo (length a) 3 <> 0 \/ length a < 9 -> exists c, de_loop (JArray a) = Err c.
Proof. exact (fun K NK => @bad_array_is_error K NK). Qed.
(** conversely an accepted array is flat, numeric, of length 3k >= 9, and the result is a closed loop with >= 3 vertices *)
Theorem C20_accepted_array_shape : forall (K : Type) (NK : Num K) (a : list (Value K)) (L : Loop K), de_loop (JArray a) = Ok L ->
  forallb is_number a = true /\ Nat.modulo (length a) 3 = 0 /\ 9 <= length a /\ lclosed L = true /\ 3 <= llen L.
Proof. intros K NK a L H. destruct (de_loop_array_ok a L H) as (H1 & H2 & H3). destruct (de_loop_closed _ _ H) as [H4 H5]. repeat split; assumption. Qed.
(** a polygon is read as that loop without holes *)
Theorem C20_de_poly_is_loop : forall (K : Type) (NK : Num K) (v : Value K) (P : Poly K), de_poly v = Ok P ->
  de_loop v = Ok (pouter P) /\ pinner P = [] /\ parea P = larea (pouter P) /\ pnormal P = lnormal (pouter P).
Proof.
  intros K NK v P. unfold de_poly. destruct (de_loop v) as [L| |] eqn:E; cbn [rbind]; try discriminate.
  destruct (de_loop_closed _ _ E) as [Hc _]. unfold poly_from, loop_area. rewrite Hc. cbn. intros H; inversion H; subst; cbn. repeat split; reflexivity.
Qed.

(** round trip, full: a loop obtained by pushing points and closing, in which every point became a vertex,
    serialises to a value that reads back as EXACTLY the same loop state (vertices, normal, closed, area, perimeter) *)
Theorem C20_round_trip_clean : forall (K : Type) (NK : Num K) (vs : list (V3 K)) (L1 L : Loop K),
  push_try loop_new vs = Ok L1 -> loop_close L1 = (L, Ok tt) -> llen L = length vs -> de_loop (ser_loop L) = Ok L.
Proof. exact (fun K NK => @round_trip_clean K NK). Qed.
(** round trip, any closed loop that [rebuilds] (decidable; the runner reports its frequency: every loop of the
    generated space): same vertices in the same order, closed.
    PARTIAL: the property also demands the same area and normal.  Proved: the image [L'] is the loop the crate
    builds from the vertex list alone (it depends on [verts L] only -- second theorem), so area and normal are
    those of [C20_round_trip_clean] whenever L was itself built cleanly.  Missing link for an arbitrary closed
    loop: that its stored normal/area (computed from the first three points pushed, before collinear replacements
    and the vertex removals of close) equal the ones recomputed from its final first three vertices -- a
    real-arithmetic fact about planar loops, bit-level false in general; the exact oracle checks it to 1e-9. *)
Theorem C20_round_trip_partial : forall (K : Type) (NK : Num K) (L : Loop K), rebuilds L = true ->
  exists L1 L', push_try loop_new (verts L) = Ok L1 /\ loop_close L1 = (L', Ok tt) /\
                de_loop (ser_loop L) = Ok L' /\ verts L' = verts L /\ lclosed L' = true /\ 3 <= llen L'.
Proof. exact (fun K NK => @round_trip_rebuilds K NK). Qed.
Theorem C20_round_trip_depends_on_vertices : forall (K : Type) (NK : Num K) (L M : Loop K),
  verts L = verts M -> de_loop (ser_loop L) = de_loop (ser_loop M).
Proof. exact (fun K NK => @round_trip_depends_on_vertices K NK). Qed.
(** serialising a polygon = serialising its merged outline (C12) *)
Theorem C20_ser_poly_is_merged_outline : forall (K : Type) (NK : Num K) (P : Poly K) (v : Value K),
  ser_poly P = Ok v -> exists L, poly_get_closed_loop P = Ok L /\ v = ser_loop L.
Proof. intros K NK P v. unfold ser_poly. destruct (poly_get_closed_loop P) as [L| |]; cbn [rbind]; try discriminate. intros H; inversion H. exists L. split; reflexivity. Qed.

(** non-vacuity (binary64): the 9-number document of the crate's own test reads as a closed triangle and
    round-trips; "[1,2]" and "null" at the Value level are errors *)
Example C20_nonvacuous :
  let doc := JArray (map (@JNumber float) [0; 0; 0; 1; 1; 1; 2; 3; -1]%float) in
  match de_loop doc with
  | Ok L => llen L = 3 /\ lclosed L = true /\ rebuilds L = true /\ de_loop (ser_loop L) = Ok L
  | _ => False
  end /\ de_loop (JArray [JNumber 1%float; JNumber 2%float]) = Err 60%N /\ de_loop (@JNull float) = Err 33%N.
Proof. vm_compute. repeat split; reflexivity. Qed.
