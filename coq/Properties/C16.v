(** * C16 -- reported transform error bounds are true bounds.
    About the code as it is NOW (after fix: 5455df2 -- translation-free [mul3x3_abs] for the propagated input error --,
    fix: 34af114 -- gamma(4) for the four roundings of a point row -- and the fix of the vector functions -- the error of
    a transformed VECTOR is gamma(3) * [mul3x3_abs], without the translation column that a vector's image never
    meets).  The refutations of the former code are kept as theorems about the [_pinned] functions of Model/Pinned.v.
    Float tier ([NumB prec emax]: EVERY binary format with at least 8 bits of precision; binary64 and binary32 are
    instances) for (S) soundness and (M) meaningfulness; exact tier (reals) for (R), the ray origin.
    Vocabulary (Proofs/C16_errbound.v): [B2M], [B2V] read the stored floats as reals; [img_pt M x], [img_vec M x] are
    the EXACT images under the stored matrix; [within K ret img err] : |ret_i - img_i| <= K * err_i for i = x,y,z;
    [inbox c e x] : |x_i - c_i| <= e_i; [abs_img M x]_i = sum_j |m_ij x_j|; [abs_trans M]_i = |m_i3|;
    [first_order g M x e]_i = g * (sum_j |m_ij x_j| + |m_i3|) + sum_j |m_ij e_j|  (the property's first-order worst case
    for a POINT: rounding of the evaluation, which includes the addition of m_i3, plus the input error carried through
    the linear part);  [first_order_vec g M v e]_i = g * sum_j |m_ij v_j| + sum_j |m_ij e_j|  (the same for a VECTOR,
    whose image is three products and two additions: no translation term);
    [uro] = 2^-prec (unit roundoff), [gamma3] = 3u/(1-3u) as a real number (the property's yardstick; the point
    functions multiply by gamma(4) = 4u/(1-4u) <= 1.35 gamma3).
    Guards: [fin3 err] -- the REPORTED error components are finite floats (this alone forces every input and every
    intermediate result to be finite: no overflow, no NaN); [affine_last m] -- bottom row exactly (0,0,0,1), the
    C06 invariant of every constructed/composed transform; [safe_prods M x] -- no product m_ij * x_j is non-zero and
    below 2^(emin + 2 prec) (binary64: 2^-968 ~ 4e-292), i.e. no underflow: [C16_S_underflow_refuted] shows that this
    guard cannot be dropped (finding F9c, still open); [safe_trans M] -- the same for the entries m_i3 (only for (M) of
    the POINT functions; the vector statements have no hypothesis on the translation at all).
    This file contains only statements closed by [exact]. *)
From Coq Require Import ZArith Reals.
From Flocq Require Import Core BinarySingleNaN.
From G3 Require Import Model.Num Model.Base Model.Vec Model.Transform Model.Pinned.
From G3 Require Import Proofs.C06_transform Proofs.C16_errbound Proofs.C16_ray.
Local Open Scope R_scope.

Section C16_float_tier.
  Variable prec emax : Z.
  Context (Hprec : FLX.Prec_gt_0 prec) (Hmax : Prec_lt_emax prec emax).
  Hypothesis Hp8 : (8 <= prec)%Z.
  Notation bf := (binary_float prec emax).
  Local Instance NB : Num bf := NumB prec emax Hprec Hmax.
  Notation B2M := (B2M prec emax).
  Notation B2V := (B2V prec emax).
  Notation fin3 := (fin3 prec emax).
  Notation affine_last := (affine_last prec emax).
  Notation safe_prods := (safe_prods prec emax).
  Notation safe_trans := (safe_trans prec emax).
  Notation u := (uro prec).
  Notation gamma3 := (gamma3 prec).

  (** (S), vectors: TRUE as stated, no extra factor, for the translation-free bound gamma(3) * sum_j |m_ij v_j|
      (three products, two additions: three roundings per row; nothing else to lean on).  The bound is itself
      computed in floating point; its roundings are accounted for
      (needs (3+3u+u^2)(1+u)^2(1-3u) <= 3, lemma [poly3]). *)
  Theorem C16_S_vec : forall (m : M4 bf) (v : V3 bf),
    let re := vec_with_error m v in
    fin3 (snd re) -> safe_prods (B2M m) (B2V v) ->
    fin3 (fst re) /\ within 1 (B2V (fst re)) (img_vec (B2M m) (B2V v)) (B2V (snd re)).
  Proof. exact (S_vec prec emax Hprec Hmax Hp8). Qed.

  (** (S), points: TRUE as stated, no extra factor, since the bound uses gamma(4) for the four roundings of
      ((m0 x + m1 y) + m2 z) + m3  (needs (4+6u+4u^2+u^3)(1+u)^2(1-4u) <= 4, lemma [poly4_gamma4]) *)
  Theorem C16_S_point : forall (m : M4 bf) (p : V3 bf),
    let re := pt_with_error m p in
    affine_last m -> fin3 (snd re) -> safe_prods (B2M m) (B2V p) ->
    fin3 (fst re) /\ within 1 (B2V (fst re)) (img_pt (B2M m) (B2V p)) (B2V (snd re)).
  Proof. exact (S_pt prec emax Hprec Hmax Hp8). Qed.

  (** (S) with an input error box.  PARTIAL, vectors and points alike: proved with the factor (1+4u).
      Full statement (factor 1):
        forall x', inbox (B2V v) (B2V e) x' -> within 1 (B2V (fst re)) (img (B2M m) x') (B2V (snd re)).
      Missing: the propagated part is sum_j |m_ij e_j| evaluated with up to five downward roundings (product, two sums,
      multiplication by (1+gamma3), final sum with the rounding part) against a gain of (1+gamma3) ~ 1+3u (1+4u after
      rounding): a per-operation worst-case analysis leaves a deficit of at most 4u relative.  The adversarial search
      reaches ratios up to 1 - 3e-16 and finds no violation; a case inside the proved factor but above 1 would be
      reported by the oracle as a VIOLATION (class [within-proved-factor]). *)
  Theorem C16_S_vec_box_partial : forall (m : M4 bf) (v e : V3 bf),
    let re := vec_propagate_error m v e in
    fin3 (snd re) -> safe_prods (B2M m) (B2V v) -> safe_prods (B2M m) (B2V e) ->
    fin3 (fst re) /\
    forall x' : V3 R, inbox (B2V v) (B2V e) x' -> within (1 + 4 * u) (B2V (fst re)) (img_vec (B2M m) x') (B2V (snd re)).
  Proof. exact (S_vec_box prec emax Hprec Hmax Hp8). Qed.
  Theorem C16_S_point_box_partial : forall (m : M4 bf) (p e : V3 bf),
    let re := pt_propagate_error m p e in
    affine_last m -> fin3 (snd re) -> safe_prods (B2M m) (B2V p) -> safe_prods (B2M m) (B2V e) ->
    fin3 (fst re) /\
    forall x' : V3 R, inbox (B2V p) (B2V e) x' -> within (1 + 4 * u) (B2V (fst re)) (img_pt (B2M m) x') (B2V (snd re)).
  Proof. exact (S_pt_box prec emax Hprec Hmax Hp8). Qed.

  (** (M) for the two POINT [*_with_error] functions: within a factor 2 of the first-order worst case
      (gamma(4) = 4/3 gamma(3) is inside the factor; the translation entry is part of a point's evaluation) *)
  Theorem C16_M_with_error : forall (m : M4 bf) (p : V3 bf), safe_prods (B2M m) (B2V p) -> safe_trans (B2M m) ->
    fin3 (snd (pt_with_error m p)) -> vle (B2V (snd (pt_with_error m p))) (vscaleR 2 (first_order gamma3 (B2M m) (B2V p) V0)).
  Proof. exact (M_with_error prec emax Hprec Hmax Hp8). Qed.

  (** (M) for the two VECTOR [*_with_error] functions: within a factor 2 of gamma3 * sum_j |m_ij v_j| --
      no translation term in the yardstick and no hypothesis on the translation: WHATEVER its size *)
  Theorem C16_M_vec_with_error : forall (m : M4 bf) (v : V3 bf), safe_prods (B2M m) (B2V v) ->
    fin3 (snd (vec_with_error m v)) ->
    vle (B2V (snd (vec_with_error m v))) (vscaleR 2 (vscaleR gamma3 (abs_img (B2M m) (B2V v)))).
  Proof. exact (M_vec_with_error prec emax Hprec Hmax Hp8). Qed.

  (** (M) for the two POINT [*_propagate_error] functions, WHATEVER the translation *)
  Theorem C16_M_propagate : forall (m : M4 bf) (p e : V3 bf),
    safe_prods (B2M m) (B2V p) -> safe_prods (B2M m) (B2V e) -> safe_trans (B2M m) ->
    fin3 (snd (pt_propagate_error m p e)) ->
    vle (B2V (snd (pt_propagate_error m p e))) (vscaleR 2 (first_order gamma3 (B2M m) (B2V p) (B2V e))).
  Proof. exact (M_propagate prec emax Hprec Hmax Hp8). Qed.

  (** (M) for the two VECTOR [*_propagate_error] functions: within a factor 2 of
      gamma3 * sum_j |m_ij v_j| + sum_j |m_ij e_j|; again no translation term, no hypothesis on the translation *)
  Theorem C16_M_vec_propagate : forall (m : M4 bf) (v e : V3 bf),
    safe_prods (B2M m) (B2V v) -> safe_prods (B2M m) (B2V e) ->
    fin3 (snd (vec_propagate_error m v e)) ->
    vle (B2V (snd (vec_propagate_error m v e))) (vscaleR 2 (first_order_vec gamma3 (B2M m) (B2V v) (B2V e))).
  Proof. exact (M_vec_propagate prec emax Hprec Hmax Hp8). Qed.
End C16_float_tier.

(** ** binary64 witnesses (matrices as stored by the real crate for the quoted chains) *)

(** FORMER code (gamma(3) for points, before fix: 34af114): (S) failed.  [translate(0.1,0,0) . rotate_z(20) . rotate_x(35)],
    point (0.5320888862385273, -1.7846530571159382, 5.659924931209981e-16): the exact image is 4.16e-16 from the returned x
    while the returned error was 3.66e-16 (ratio 1.136), all guards holding *)
Theorem C16_S_point_pinned_refuted : exists (m : M4 b64) (p : V3 b64),
  let re := @pt_with_error_pinned _ NumB64 m p in
  affine_last 53 1024 m /\ fin3 53 1024 (snd re) /\ safe_prods 53 1024 (B2M 53 1024 m) (B2V 53 1024 p) /\
  ~ within 1 (B2V 53 1024 (fst re)) (img_pt (B2M 53 1024 m) (B2V 53 1024 p)) (B2V 53 1024 (snd re)).
Proof. exact S_point_pinned_refuted. Qed.

(** FORMER code (translation column added to the propagated error, before fix: 5455df2): (M) failed.
    [translate(1000,0,0)], point (1,2,3), input error 1e-9: the reported x error (1000.000000001) exceeded twice --
    indeed 10^11 times -- the first-order worst case (1.0000003e-9) *)
Theorem C16_M_pinned_refuted : exists (m : M4 b64) (p e : V3 b64),
  let err := snd (@pt_propagate_error_pinned _ NumB64 m p e) in
  affine_last 53 1024 m /\ fin3 53 1024 err /\ safe_prods 53 1024 (B2M 53 1024 m) (B2V 53 1024 p) /\
  safe_prods 53 1024 (B2M 53 1024 m) (B2V 53 1024 e) /\ safe_trans 53 1024 (B2M 53 1024 m) /\
  snd (@vec_propagate_error_pinned _ NumB64 m p e) = err /\
  ~ vle (B2V 53 1024 err) (vscaleR 2 (first_order (gamma3 53) (B2M 53 1024 m) (B2V 53 1024 p) (B2V 53 1024 e))) /\
  100000000000 * vx (first_order (gamma3 53) (B2M 53 1024 m) (B2V 53 1024 p) (B2V 53 1024 e)) < vx (B2V 53 1024 err).
Proof. exact M_pinned_refuted. Qed.

(** FORMER code (the translation column added to the error of a transformed VECTOR, [mul4x4_abs] in
    transform_vec_with_error / inv_transform_vec_with_error): (M) failed for vectors.  [translate(1000,0,0)], vector
    (1e-9,0,0) -- transformed without any rounding error at all: the reported x error was 3.33e-13 = gamma3 * 1000,
    10^11 times the first-order worst case gamma3 * 1e-9 = 3.33e-25, and it grows with the translation, whatever the
    length of the vector: the bound was not meaningful "whatever the size of the translation".  All guards hold,
    [safe_trans] included. *)
Theorem C16_M_vec_pinned_refuted : exists (m : M4 b64) (v : V3 b64),
  let err := snd (@vec_with_error_pinned _ NumB64 m v) in
  let fo := vscaleR (gamma3 53) (abs_img (B2M 53 1024 m) (B2V 53 1024 v)) in
  affine_last 53 1024 m /\ fin3 53 1024 err /\ safe_prods 53 1024 (B2M 53 1024 m) (B2V 53 1024 v) /\
  safe_trans 53 1024 (B2M 53 1024 m) /\
  ~ vle (B2V 53 1024 err) (vscaleR 2 fo) /\
  100000000000 * vx fo < vx (B2V 53 1024 err).
Proof. exact M_vec_pinned_refuted. Qed.

(** CURRENT code, finding F9c (open): without the no-underflow guard (S) fails even for vectors:
    [scale(0.5,1,1)] on (2^-1074,0,0) returns 0 +- 0 *)
Theorem C16_S_underflow_refuted : exists (m : M4 b64) (v : V3 b64),
  let re := @vec_with_error _ NumB64 m v in
  affine_last 53 1024 m /\ fin3 53 1024 (snd re) /\
  ~ within 1 (B2V 53 1024 (fst re)) (img_vec (B2M 53 1024 m) (B2V 53 1024 v)) (B2V 53 1024 (snd re)).
Proof. exact S_underflow_refuted. Qed.

(** non-vacuity of the float-tier hypotheses: they all hold on the witness of the former (S) finding with a 1e-9 input
    box; on it the repaired code is sound, and on the former (M) witness it is meaningful *)
Example C16_nonvacuous :
  affine_last 53 1024 wS_m /\ fin3 53 1024 (snd (@pt_with_error _ NumB64 wS_m wS_p)) /\
  fin3 53 1024 (snd (@vec_with_error _ NumB64 wS_m wS_p)) /\
  fin3 53 1024 (snd (@pt_propagate_error _ NumB64 wS_m wS_p wS_e)) /\
  fin3 53 1024 (snd (@vec_propagate_error _ NumB64 wS_m wS_p wS_e)) /\
  safe_prods 53 1024 (B2M 53 1024 wS_m) (B2V 53 1024 wS_p) /\ safe_prods 53 1024 (B2M 53 1024 wS_m) (B2V 53 1024 wS_e) /\
  safe_trans 53 1024 (B2M 53 1024 wS_m) /\ inbox (B2V 53 1024 wS_p) (B2V 53 1024 wS_e) (B2V 53 1024 wS_p).
Proof. exact C16_nonvacuous_proof. Qed.
Example C16_former_witnesses_now_pass :
  (let re := @pt_with_error _ NumB64 wS_m wS_p in
   within 1 (B2V 53 1024 (fst re)) (img_pt (B2M 53 1024 wS_m) (B2V 53 1024 wS_p)) (B2V 53 1024 (snd re))) /\
  vle (B2V 53 1024 (snd (@pt_propagate_error _ NumB64 wM_m wM_p wS_e)))
      (vscaleR 2 (first_order (gamma3 53) (B2M 53 1024 wM_m) (B2V 53 1024 wM_p) (B2V 53 1024 wS_e))) /\
  vle (B2V 53 1024 (snd (@vec_with_error _ NumB64 wM_m wV_v)))
      (vscaleR 2 (vscaleR (gamma3 53) (abs_img (B2M 53 1024 wM_m) (B2V 53 1024 wV_v)))).
Proof. exact (conj S_point_witness_now_sound (conj M_witness_now_meaningful M_vec_witness_now_meaningful)). Qed.

(** ** (R), exact tier: the nudge of the ray origin ([nudge o d e] is the common tail of the four [*_ray*] functions;
    [e] is the reported origin error, non-negative by construction) *)
Notation V := (V3 R).

(** the origin moves along the direction, forwards *)
Theorem C16_R_nudge_forward : forall o d e : V, nonneg3 e ->
  exists dt, 0 <= dt /\ nudge o d e = vadd o (vscale d dt).
Proof. exact (fun o d e H => nudge_spec o d e (proj1 H) (proj1 (proj2 H)) (proj2 (proj2 H))). Qed.

(** no point of the origin's error box lies ahead of the nudged origin -- and the worst corner is reached exactly *)
Theorem C16_R_no_box_point_ahead : forall o d e : V, nonneg3 e -> 0 < vlen2 d ->
  (forall x : V, in_box o e x -> vdot (vsub x (nudge o d e)) d <= 0) /\
  vdot (vsub (nudge o d e) o) d = vdot (vabs d) e.
Proof. exact (fun o d e He Hd => conj (fun x Hx => no_box_point_ahead o d e x He Hd Hx) (nudge_tight o d e He Hd)). Qed.

(** advanced by no more than the bound: Euclidean norms (squared).  Component-wise the claim is false
    (d = (1,1,0), e = (1,0,0) moves the origin by (1/2,1/2,0)). *)
Theorem C16_R_advance_bounded : forall o d e : V, nonneg3 e -> vlen2 (vsub (nudge o d e) o) <= vlen2 e.
Proof. exact advance_bounded. Qed.

(** the four ray functions ([ray_by m] = transform_ray / inv_transform_ray on the matrix / the stored inverse) *)
Theorem C16_R_ray : forall (m : M4 R) (r : Ray R),
  let '(r', oe, de) := ray_by m r in
  let o := fst (pt_with_error m (rorigin r)) in
  oe = snd (pt_with_error m (rorigin r)) /\ rdir r' = mul4x4vec m (rdir r) /\ nonneg3 oe /\
  (exists dt, 0 <= dt /\ rorigin r' = vadd o (vscale (rdir r') dt)) /\
  vlen2 (vsub (rorigin r') o) <= vlen2 oe /\
  (0 < vlen2 (rdir r') -> forall x, in_box o oe x -> vdot (vsub x (rorigin r')) (rdir r') <= 0).
Proof. exact ray_by_R. Qed.
Theorem C16_R_ray_propagate : forall (m : M4 R) (r : Ray R) (oe_in de_in : V),
  let '(r', oe, de) := ray_propagate_by m r oe_in de_in in
  let o := fst (pt_propagate_error m (rorigin r) oe_in) in
  oe = snd (pt_propagate_error m (rorigin r) oe_in) /\ rdir r' = mul4x4vec m (rdir r) /\ nonneg3 oe /\
  (exists dt, 0 <= dt /\ rorigin r' = vadd o (vscale (rdir r') dt)) /\
  vlen2 (vsub (rorigin r') o) <= vlen2 oe /\
  (0 < vlen2 (rdir r') -> forall x, in_box o oe x -> vdot (vsub x (rorigin r')) (rdir r') <= 0).
Proof. exact ray_propagate_by_R. Qed.

Example C16_R_nonvacuous : nonneg3 (mkV3 (1/1000) 0 (1/1000)) /\ 0 < vlen2 (mkV3 1 1 0) /\
  in_box (mkV3 0 0 0) (mkV3 (1/1000) 0 (1/1000)) (mkV3 (1/2000) 0 0).
Proof.
  unfold nonneg3, in_box, vlen2. cbn [vx vy vz]. Theory.RInst.rnum.
  repeat split; try (rewrite Rabs_pos_eq; Lra.lra); Lra.lra.
Qed.
