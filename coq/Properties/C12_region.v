(** * C12, the region theorems -- merging the holes into one outline preserves the region
    (Polygon3D::get_closed_loop; proofs in Proofs/C12_region.v).

    For ANY number of holes, any vertex counts, either stored winding and any start vertex, over the reals, under
    the two decidable side conditions
    - [closed_loop_clean false P = true]  (general position: every push of the merge appended; Model/PolyAux.v),
    - [closed_loop_wf P = true]  (every stage of the merge attached a NEW hole at a position of the current outline -- the
      position is [attach_index] since fix bcb072e: the visit of the nearest outline vertex whose interior angle contains the
      bridge, [C12_region_attach_index_spec] / [C12_region_in_cone_orient]; the region identities hold for ANY position;
      implied by [closed_loop_hits P = true]: every stage's nearest-pair scan found a pair at squared distance below the
      value it starts from -- Float::MAX since fix f0d596d, so over the reals it holds for every polygon with non-empty loops
      and coordinates below 2^500 ([C12_region_bounded_coords_wf]); with the former start value 9e14 it did not:
      [C12_region_far_holes_pinned_refuted]),
    the merged outline [m] satisfies, with every hole taken "oriented like the outer outline"
    ([oriented n h] = the stored list when the stored normals have the same direction, its reverse otherwise):

        wn m q        = wn outer q        - sum_holes wn (oriented hole) q       (any ray, any query point, any plane frame)
        area2 m       = area2 outer       - sum_holes area2 (oriented hole)      (any plane frame)
        newell m      = newell outer      - sum_holes newell (oriented hole)     (the model's Newell vector)
        n . newell m / 2 = area outer - sum_holes area hole = polygon area       (loops in one plane, unit normal n)
        close(m) reports that area and the polygon's normal                      (when close keeps the vertex list)

    and every vertex of the outer loop and of every hole occurs in [m]. *)
From Coq Require Import ZArith Reals List Floats.
From G3 Require Import Model.Num Model.NumF Model.Base Model.Vec Model.Segment Model.Loop Model.Polygon Model.Json Model.PolyAux
  Theory.RInst Theory.LoopGeom Proofs.C12_merge Proofs.C12_region.
From G3 Require Theory.Winding Theory.Shoelace Proofs.C05_pointtest.
Import ListNotations.
Set Warnings "-inexact-float".

(** ** the fold: the merged outline is the replay of one splice per hole, each at a position of the CURRENT outline *)
Theorem C12_region_merged_is_trace : forall (K : Type) (NK : Num K) (P : Poly K),
  closed_loop_clean false P = true ->
  exists L tr, poly_get_closed_loop P = Ok L /\ closed_loop_trace P = Some tr /\
    verts L = apply_steps (lnormal (pouter P)) (verts (pouter P)) tr /\ length tr = length (pinner P) /\
    Forall (fun s => nth_error (pinner P) (ms_ml s) = Some (ms_hole s)) tr.
Proof. exact (fun K NK => @merged_is_trace K NK). Qed.

(** any functional of vertex lists that is additive over one splice and odd under reversal is additive over the whole merge *)
Theorem C12_region_fold : forall (K : Type) (NK : Num K) (G : Type) (gadd : G -> G -> G) (gopp : G -> G) (g0 : G),
  (forall x y, gadd x y = gadd y x) -> (forall x y z, gadd (gadd x y) z = gadd x (gadd y z)) -> (forall x, gadd x g0 = x) ->
  (forall x, gopp (gopp x) = x) -> (forall x y, gopp (gadd x y) = gadd (gopp x) (gopp y)) -> gopp g0 = g0 ->
  forall F : list (V3 K) -> G,
  (forall (evs hvs : list (V3 K)) (me id : nat) (sd : bool), me < length evs -> id < length hvs ->
     F (splice evs 0 me (walk_list false sd hvs id)) = gadd (F evs) (if sd then gopp (F hvs) else F hvs)) ->
  (forall l, F (rev l) = gopp (F l)) ->
  forall P : Poly K, closed_loop_clean false P = true -> closed_loop_wf P = true ->
  exists L, poly_get_closed_loop P = Ok L /\
    F (verts L) = gadd (F (verts (pouter P))) (gopp (gsum G gadd g0 (map (fun h => F (oriented (lnormal (pouter P)) h)) (pinner P)))).
Proof. exact (fun K NK => @F_merged K NK). Qed.

(** ** 1. winding number.  [pr] is ANY map of the vertices to the plane, in particular the coordinates
    [plane2 o e1 e2] in a frame of the polygon's plane (Proofs/C05_pointtest.v); [d] any ray direction, [q] any point
    (no genericity hypothesis is needed: the identity holds edge by edge, the two bridge edges cancel). *)
(** one hole: the hole is walked reversed exactly when the stored normals have the same direction *)
Theorem C12_region_winding_one_hole : forall (pr : V3 R -> Winding.P2) (d q : Winding.P2) (on : V3 R) (evs : list (V3 R)) (hole : Loop R) (me id : nat),
  me < length evs -> id < llen hole ->
  let sd := vis_same_direction on (lnormal hole) in
  Winding.wn d (map pr (splice evs 0 me (walk_list false sd (verts hole) id))) q =
  (Winding.wn d (map pr evs) q + Winding.wn d (map pr (if sd then rev (verts hole) else verts hole)) q)%Z /\
  Winding.wn d (map pr (splice evs 0 me (walk_list false sd (verts hole) id))) q =
  (Winding.wn d (map pr evs) q - Winding.wn d (map pr (oriented on hole)) q)%Z.
Proof. exact wn_one_hole. Qed.
(** all holes *)
Theorem C12_region_winding : forall (pr : V3 R -> Winding.P2) (P : Poly R) (d q : Winding.P2),
  closed_loop_clean false P = true -> closed_loop_wf P = true ->
  exists L, poly_get_closed_loop P = Ok L /\
    Winding.wn d (map pr (verts L)) q =
    (Winding.wn d (map pr (verts (pouter P))) q -
     zsum (map (fun h => Winding.wn d (map pr (oriented (lnormal (pouter P)) h)) q) (pinner P)))%Z.
Proof. exact wn_merged. Qed.

(** region membership: a point in no hole keeps the outline's winding number, a point in exactly one hole loses 1 *)
Theorem C12_region_winding_outside_holes : forall (pr : V3 R -> Winding.P2) (P : Poly R) (d q : Winding.P2),
  closed_loop_clean false P = true -> closed_loop_wf P = true ->
  (forall h, In h (pinner P) -> Winding.wn d (map pr (oriented (lnormal (pouter P)) h)) q = 0%Z) ->
  exists L, poly_get_closed_loop P = Ok L /\ Winding.wn d (map pr (verts L)) q = Winding.wn d (map pr (verts (pouter P))) q.
Proof. exact wn_merged_outside_holes. Qed.
Theorem C12_region_winding_inside_one_hole : forall (pr : V3 R -> Winding.P2) (P : Poly R) (d q : Winding.P2) (l1 l2 : list (Loop R)) (h : Loop R),
  closed_loop_clean false P = true -> closed_loop_wf P = true -> pinner P = l1 ++ h :: l2 ->
  Winding.wn d (map pr (oriented (lnormal (pouter P)) h)) q = 1%Z ->
  (forall h', In h' (l1 ++ l2) -> Winding.wn d (map pr (oriented (lnormal (pouter P)) h')) q = 0%Z) ->
  exists L, poly_get_closed_loop P = Ok L /\ Winding.wn d (map pr (verts L)) q = (Winding.wn d (map pr (verts (pouter P))) q - 1)%Z.
Proof. exact wn_merged_inside_one_hole. Qed.

(** ** 2. net area.  Planar shoelace area in any plane frame ... *)
Theorem C12_region_planar_area : forall (pr : V3 R -> Winding.P2) (P : Poly R),
  closed_loop_clean false P = true -> closed_loop_wf P = true ->
  exists L, poly_get_closed_loop P = Ok L /\
    Shoelace.area2 (map pr (verts L)) =
    (Shoelace.area2 (map pr (verts (pouter P))) - rsum (map (fun h => Shoelace.area2 (map pr (oriented (lnormal (pouter P)) h))) (pinner P)))%R.
Proof. exact area2_merged. Qed.
(** ... and the Newell vector the model computes in Loop3D::set_area *)
Theorem C12_region_newell_one_hole : forall (on : V3 R) (evs : list (V3 R)) (hole : Loop R) (me id : nat),
  me < length evs -> id < llen hole ->
  LoopGeom.newell (splice evs 0 me (walk_list false (vis_same_direction on (lnormal hole)) (verts hole) id)) =
  vadd (LoopGeom.newell evs) (vneg (LoopGeom.newell (oriented on hole))).
Proof. exact newell_one_hole. Qed.
Theorem C12_region_newell : forall P : Poly R,
  closed_loop_clean false P = true -> closed_loop_wf P = true ->
  exists L, poly_get_closed_loop P = Ok L /\
    LoopGeom.newell (verts L) =
    vadd (LoopGeom.newell (verts (pouter P))) (vneg (vsum (map (fun h => LoopGeom.newell (oriented (lnormal (pouter P)) h)) (pinner P)))).
Proof. exact newell_merged. Qed.

(** the loops in one plane with unit normal n ([planar_normals]: every hole's stored normal is n or -n), every loop's
    stored area being n_loop . S_loop / 2 ([signed_areas]; true of every loop closed by Loop3D::close, next theorem):
    the merged outline encloses  outer area - sum of the hole areas *)
Theorem C12_region_net_area : forall P : Poly R,
  let n := lnormal (pouter P) in
  closed_loop_clean false P = true -> closed_loop_wf P = true ->
  vdot n n = 1%R -> planar_normals P -> signed_areas P ->
  exists L, poly_get_closed_loop P = Ok L /\
    (vdot n (LoopGeom.newell (verts L)) / 2 = larea (pouter P) - rsum (map larea (pinner P)))%R.
Proof. exact net_area_merged. Qed.
Theorem C12_region_closed_loops_have_signed_area : forall L0 : Loop R, snd (loop_close L0) = Ok tt ->
  let L := fst (loop_close L0) in
  (larea L = vdot (lnormal L) (LoopGeom.newell (verts L)) / 2 /\ 0 <= vdot (lnormal L) (LoopGeom.newell (verts L)))%R.
Proof. exact closed_signed_area. Qed.
Theorem C12_region_same_direction_decisive : forall n : V3 R, vdot n n = 1%R ->
  vis_same_direction n n = true /\ vis_same_direction n (vneg n) = false.
Proof. exact same_dir_unit. Qed.
(** the polygon's own accounting (cut_hole: area' = area - hole.area) is that number *)
Theorem C12_region_polygon_accounting : forall (L : Loop R) (P0 : Poly R) (cands : list (Loop R)), poly_new L = Ok P0 ->
  let P := fst (poly_run P0 cands) in
  (parea P = larea (pouter P) - rsum (map larea (pinner P)))%R /\ pouter P = L /\ pnormal P = lnormal L.
Proof. exact built_polygon_accounts. Qed.
(** the closed merged loop reports the polygon's area and the polygon's normal.  Stated hypotheses on [close]: it
    succeeds, keeps the vertex list, and the merged loop's own normal (set by push from its first corner) is n or -n *)
Theorem C12_region_closed_area_normal : forall P : Poly R,
  let n := lnormal (pouter P) in
  closed_loop_clean false P = true -> closed_loop_wf P = true ->
  vdot n n = 1%R -> planar_normals P -> signed_areas P ->
  (parea P = larea (pouter P) - rsum (map larea (pinner P)))%R ->
  exists L, poly_get_closed_loop P = Ok L /\
    (snd (loop_close L) = Ok tt -> verts (fst (loop_close L)) = verts L -> (lnormal L = n \/ lnormal L = vneg n) ->
     (0 <= parea P)%R ->
     larea (fst (loop_close L)) = parea P /\ ((0 < parea P)%R -> lnormal (fst (loop_close L)) = n)).
Proof. exact merged_closed_area_normal. Qed.

(** the merged loop's own normal: for a polygon whose vertices all lie in the plane through o with unit normal n, a merged
    outline that can be closed has normal n or -n (it is the unit normal of its first corner) ... *)
Theorem C12_region_merged_normal_planar : forall (P : Poly R) (o : V3 R) (L : Loop R),
  let n := lnormal (pouter P) in
  closed_loop_clean false P = true -> vdot n n = 1%R -> (forall v, In v (poly_verts P) -> vdot n (vsub v o) = 0%R) ->
  poly_get_closed_loop P = Ok L -> snd (loop_close L) = Ok tt -> lnormal L = n \/ lnormal L = vneg n.
Proof. exact merged_normal_planar. Qed.
(** ... so that, for a planar polygon, the only hypotheses left on [close] are that it succeeds and keeps the vertex list *)
Theorem C12_region_closed_region : forall (P : Poly R) (o : V3 R),
  let n := lnormal (pouter P) in
  closed_loop_clean false P = true -> closed_loop_wf P = true ->
  vdot n n = 1%R -> (forall v, In v (poly_verts P) -> vdot n (vsub v o) = 0%R) -> planar_normals P -> signed_areas P ->
  (parea P = larea (pouter P) - rsum (map larea (pinner P)))%R ->
  exists L, poly_get_closed_loop P = Ok L /\
    (snd (loop_close L) = Ok tt -> verts (fst (loop_close L)) = verts L -> (0 <= parea P)%R ->
     larea (fst (loop_close L)) = parea P /\ ((0 < parea P)%R -> lnormal (fst (loop_close L)) = n)).
Proof. exact merged_closed_region. Qed.

(** ** 3. every vertex of the outer loop and of every hole occurs; no holes: nothing changes *)
Theorem C12_region_every_vertex : forall (K : Type) (NK : Num K) (P : Poly K),
  closed_loop_clean false P = true -> closed_loop_wf P = true ->
  exists L, poly_get_closed_loop P = Ok L /\
    (forall v, In v (verts (pouter P)) -> In v (verts L)) /\
    (forall h v, In h (pinner P) -> In v (verts h) -> In v (verts L)).
Proof. exact (fun K NK => @merged_has_every_vertex K NK). Qed.
(** ... and nothing else does: every vertex of the merged outline is a vertex of the outer loop or of a hole *)
Theorem C12_region_no_new_vertex : forall (K : Type) (NK : Num K) (P : Poly K),
  closed_loop_clean false P = true ->
  exists L, poly_get_closed_loop P = Ok L /\ forall v, In v (verts L) -> In v (poly_verts P).
Proof. exact (fun K NK => @merged_no_new_vertex K NK). Qed.
Theorem C12_region_no_holes : forall (pr : V3 R -> Winding.P2) (P : Poly R) (d q : Winding.P2), pinner P = [] ->
  exists L, poly_get_closed_loop P = Ok L /\ verts L = verts (pouter P) /\
    Winding.wn d (map pr (verts L)) q = Winding.wn d (map pr (verts (pouter P))) q /\
    Shoelace.area2 (map pr (verts L)) = Shoelace.area2 (map pr (verts (pouter P))) /\
    LoopGeom.newell (verts L) = LoopGeom.newell (verts (pouter P)).
Proof. exact no_holes_region_R. Qed.

(** ** the side condition [closed_loop_wf]: what the code's scan guarantees, and when it holds *)
(** a scan either changes nothing (no pair below the current minimum) or ends on an attachment position of the
    outline, an unprocessed hole of the polygon and a vertex position of that hole *)
Theorem C12_region_scan_cases : forall (K : Type) (NK : Num K) (hs : list (Loop K)) (processed : list nat) (evs : list (V3 K)) (j : nat) (st : Sst),
  scan_ext evs j hs processed st = st \/
  exists d j' k' l' h, scan_ext evs j hs processed st = (d, j', k', k', l') /\ j <= j' < j + length evs /\
    nth_error hs k' = Some h /\ l' < llen h /\ existsb (Nat.eqb k') processed = false.
Proof. exact (fun K NK => @scan_ext_cases K NK). Qed.
(** ** the attachment position (fix bcb072e).  It is the scan's position [me0], or a position of the outline that holds the same
    vertex (up to Point3D::compare, 1e-5 per coordinate) -- so the bridge still joins the nearest pair -- at which the cone test
    succeeds (only for polygons with several holes); it is a position of the outline whenever the scan's is *)
Theorem C12_region_attach_same_vertex : forall (K : Type) (NK : Num K) (P : Poly K) (vs : list (V3 K)) (me0 : nat) (hole : Loop K) (iv me : nat),
  attach_index false P vs me0 hole iv = Ok me -> vcompare (vnth vs me) (vnth vs me0) = true \/ me = me0.
Proof. exact (fun K NK => @attach_same_vertex K NK). Qed.
Theorem C12_region_attach_index_spec : forall (K : Type) (NK : Num K) (P : Poly K) (vs : list (V3 K)) (me0 : nat) (hole : Loop K) (iv me : nat),
  attach_index false P vs me0 hole iv = Ok me ->
  me = me0 \/
  (me < length vs /\ me0 < length vs /\ iv < llen hole /\ 1 < length (pinner P) /\
   vcompare (vnth vs me) (vnth vs me0) = true /\
   in_cone (lnormal (pouter P)) (vnth vs me0) (vnth vs (Nat.modulo (me + length vs - 1) (length vs)))
           (vnth vs (Nat.modulo (me + 1) (length vs))) (vnth (verts hole) iv) = true).
Proof. exact (fun K NK => @attach_index_cases K NK). Qed.
Theorem C12_region_attach_in_range : forall (K : Type) (NK : Num K) (P : Poly K) (vs : list (V3 K)) (me0 : nat) (hole : Loop K) (iv me : nat),
  attach_index false P vs me0 hole iv = Ok me -> me0 < length vs -> me < length vs.
Proof. exact (fun K NK => @attach_index_lt K NK). Qed.
(** the cone test in the 2-D coordinates of the plane (n = e1 x e2, p' = plane2 o e1 e2 p): the corner (prev, e, next) is convex or
    straight for n and the bridge direction e -> h is STRICTLY inside its interior angle (strictly left of e -> next, strictly right
    of e -> prev), or the corner is reflex and h is not in the closed exterior angle *)
Theorem C12_region_in_cone_orient : forall (o e1 e2 e prev next h : V3 R),
  let O := fun a b => Winding.orient (C05_pointtest.plane2 o e1 e2 e) (C05_pointtest.plane2 o e1 e2 a) (C05_pointtest.plane2 o e1 e2 b) in
  in_cone (vcross e1 e2) e prev next h = true <->
  ((0 <= O next prev /\ 0 < O next h /\ 0 < O h prev) \/ (O next prev < 0 /\ ~ (0 <= O prev h /\ 0 <= O h next)))%R.
Proof. exact in_cone_orient. Qed.

(** if every stage finds a pair at squared distance below the value the scan starts from (Float::MAX) the trace is well formed *)
Theorem C12_region_hits_wf : forall P : Poly R, closed_loop_hits P = true -> closed_loop_wf P = true.
Proof. exact hits_wf_R. Qed.
Theorem C12_region_hits_wf_any_instance : forall (K : Type) (NK : Num K), nltb (nmaxf : K) nmaxf = false ->
  forall P : Poly K, closed_loop_hits P = true -> closed_loop_wf P = true.
Proof. exact (fun K NK => @hits_wf K NK). Qed.
(** a sufficient condition: the outline and every hole have a vertex, and any two vertices of the polygon are at squared
    distance below Float::MAX (= 2^1024 on the real instance) ... *)
Theorem C12_region_within_reach_wf : forall P : Poly R,
  (verts (pouter P) <> [] /\ (forall h, In h (pinner P) -> verts h <> []) /\
   forall a b, In a (poly_verts P) -> In b (poly_verts P) -> (psqdist a b < IZR (2 ^ 1024))%R) ->
  closed_loop_hits P = true /\ closed_loop_wf P = true.
Proof. exact within_reach_wf. Qed.
(** ... in particular: every coordinate of every vertex at most 2^500 in absolute value *)
Theorem C12_region_bounded_coords_wf : forall P : Poly R,
  verts (pouter P) <> [] -> (forall h, In h (pinner P) -> verts h <> []) ->
  (forall v, In v (poly_verts P) -> (Rabs (vx v) <= IZR (2 ^ 500) /\ Rabs (vy v) <= IZR (2 ^ 500) /\ Rabs (vz v) <= IZR (2 ^ 500))%R) ->
  closed_loop_hits P = true /\ closed_loop_wf P = true.
Proof. exact bounded_coords_wf. Qed.

(** ** the defect repaired by fix f0d596d (binary64): the PINNED merge started its scans from 9e14, so a hole farther than 3e7
    from every vertex of the current outline was never chosen.  Square of side 1e8, hole 0 near the corner (1e8,1e8), hole 1 at the
    centre, both wound against the outline (forward walk: the wrapped index cast of the pinned tree is not exercised): a clean run,
    hole 0 merged twice, no vertex of hole 1 in the result, closed area off by more than 3e11 *)
Theorem C12_region_far_holes_pinned_refuted : exists (P : Poly float) (L : Loop float),
  far_witness = Ok P /\ pinner P = [far_hole0; far_hole1] /\
  map (fun h => vis_same_direction (lnormal (pouter P)) (lnormal h)) (pinner P) = [false; false] /\
  closed_loop_clean true P = true /\
  poly_get_closed_loop_gen true P = Ok L /\ llen L = 14 /\
  forallb (occurs_in (verts L)) (verts far_hole0) = true /\
  forallb (fun v => negb (occurs_in (verts L) v)) (verts far_hole1) = true /\
  snd (loop_close L) = Ok tt /\
  PrimFloat.ltb (larea (fst (loop_close L))) (parea P - 3e11)%float = true.
Proof. exact far_holes_pinned_refuted. Qed.
(** regression: the LIVE model on the same polygon -- both side conditions hold, the two stages merge holes 0 and 1, every
    vertex of both holes occurs, and the closed merged loop reports the polygon's area *)
Theorem C12_region_far_holes_now_merged : exists (P : Poly float) (L : Loop float),
  far_witness = Ok P /\
  closed_loop_clean false P = true /\ closed_loop_hits P = true /\ closed_loop_wf P = true /\
  option_map (map ms_ml) (closed_loop_trace P) = Some [0; 1] /\
  poly_get_closed_loop P = Ok L /\ llen L = 14 /\
  forallb (occurs_in (verts L)) (verts far_hole0) = true /\ forallb (occurs_in (verts L)) (verts far_hole1) = true /\
  snd (loop_close L) = Ok tt /\
  PrimFloat.leb (PrimFloat.abs (larea (fst (loop_close L)) - parea P)) (1e-12 * parea P)%float = true.
Proof. exact far_holes_now_merged. Qed.

(** ** non-vacuity (binary64): the unit square with two triangular holes, one wound like the outline, one against it.
    Both side conditions hold; the second hole is attached at position 4 of the CURRENT outline (a vertex that came
    from the first merge); here the visit chosen by [attach_index] is the scan's own position at both stages
    (entries (scan position, attachment position, hole, start)); the merged outline has 4 + (3+2) + (3+2) = 14 vertices and
    closes to the net area *)
Definition rg_mk (pts : list (V3 float)) : Loop float := fst (loop_run loop_new (map (fun p => LPush p) pts ++ [LClose])).
Definition rg_square := rg_mk [mkV3 0 0 0; mkV3 1 0 0; mkV3 1 1 0; mkV3 0 1 0]%float.
Definition rg_tri1 := rg_mk [mkV3 0.3 0.3 0; mkV3 0.6 0.3 0; mkV3 0.45 0.6 0]%float.
Definition rg_tri2 := rg_mk [mkV3 0.7 0.7 0; mkV3 0.7 0.9 0; mkV3 0.9 0.8 0]%float.
Definition rg_poly : res (Poly float) := do P0 <- poly_new rg_square; do P1 <- poly_cut_hole P0 rg_tri1; poly_cut_hole P1 rg_tri2.
Example C12_region_nonvacuous :
  match rg_poly with
  | Ok P => closed_loop_clean false P = true /\ closed_loop_hits P = true /\ closed_loop_wf P = true /\
            map (fun h => vis_same_direction (lnormal (pouter P)) (lnormal h)) (pinner P) = [true; false] /\
            option_map (map (fun s => (ms_me0 s, ms_me s, ms_ml s, ms_id s))) (closed_loop_trace P) = Some [(2, 2, 1, 2); (4, 4, 0, 2)] /\
            match poly_get_closed_loop P with
            | Ok L => llen L = 14 /\ snd (loop_close L) = Ok tt /\
                      PrimFloat.ltb (PrimFloat.abs (larea (fst (loop_close L)) - parea P)) 1e-12 = true
            | _ => False end
  | _ => False
  end.
Proof. vm_compute. repeat split; reflexivity. Qed.

(** ... and a polygon on which the chosen visit DIFFERS from the scan's position (binary64): square of side 10, two small
    triangular holes both nearest to the corner (0,0), hole 0 in direction ~80 degrees at distance 2, hole 1 in direction ~10 degrees
    at distance 2.4.  Stage 1 attaches hole 0 at position 0; the outline is then (0,0) h h h h (0,0) (10,0) (10,10) (0,10) and visits
    (0,0) at positions 0 and 5.  Stage 2: the scan returns position 0, whose interior angle is (80, 90) degrees; the bridge to hole 1
    (10 degrees) lies in the angle (0, 80) of the visit at position 5, which [attach_index] chooses.  Side conditions hold, 14
    vertices, closes to the net area. *)
Definition rg_square10 := rg_mk [mkV3 0 0 0; mkV3 10 0 0; mkV3 10 10 0; mkV3 0 10 0]%float.
Definition rg_tri80 := rg_mk [mkV3 0.35 1.97 0; mkV3 0.6 2.15 0; mkV3 0.3 2.3 0]%float.
Definition rg_tri10 := rg_mk [mkV3 2.36 0.42 0; mkV3 2.6 0.4 0; mkV3 2.5 0.65 0]%float.
Definition rg_poly2 : res (Poly float) := do P0 <- poly_new rg_square10; do P1 <- poly_cut_hole P0 rg_tri80; poly_cut_hole P1 rg_tri10.
Example C12_region_visit_differs :
  match rg_poly2 with
  | Ok P => closed_loop_clean false P = true /\ closed_loop_hits P = true /\ closed_loop_wf P = true /\
            option_map (map (fun s => (ms_me0 s, ms_me s, ms_ml s, ms_id s))) (closed_loop_trace P) = Some [(0, 0, 0, 0); (0, 5, 1, 0)] /\
            match poly_get_closed_loop P with
            | Ok L => llen L = 14 /\ snd (loop_close L) = Ok tt /\
                      PrimFloat.ltb (PrimFloat.abs (larea (fst (loop_close L)) - parea P)) 1e-12 = true
            | _ => False end
  | _ => False
  end.
Proof. vm_compute. repeat split; reflexivity. Qed.
