(** * C04, part 2 -- the states that histories of push/close could REACH with the code BEFORE the fix of push/close
    ([loop_push_pre], [loop_close_pre], [loop_run_pre] of Model/Loop.v = the text of loop3d.rs before that fix).
    This file is the record of the six defects repaired by that fix: the theorems say what that code guaranteed, the
    [_refuted] theorems are the witnesses (binary64, each reproduced on the crate of that time) of what it did not --
    "closed => three vertices", "no collinear vertex in a closed loop", "valid points are accepted", "a closed loop no
    longer changes".  The same witnesses on the live code: Properties/C04_reach_live.v (Examples), where the property
    clauses are theorems. *)
From Coq Require Import ZArith List Floats Reals.
From G3 Require Import Model.Num Model.NumF Model.Base Model.Vec Model.Segment Model.Loop Proofs.C04_loop Proofs.C04_reach.
Import ListNotations.

(** ** 1. the invariant of reachable states (one induction over operation lists) *)
Theorem C04_reachable_invariant : forall (K : Type) (NK : Num K) (ops : list (lop K)),
  Reach_inv (fst (loop_run_pre (@loop_new K NK) ops)).
Proof. exact (fun K NK => @reachable_invariant K NK). Qed.

(** the same, spelled out: in every reachable state L
    - a loop marked closed is not empty (three vertices are NOT guaranteed: C04_closed_has_three_refuted);
    - an open loop has the initial area / perimeter (-1);
    - the cached normal of an open loop with >= 3 vertices is the normalised cross product of its FIRST two stored edges
      (so it never changes while the loop has >= 4 vertices, and it is recomputed each time a push leaves exactly 3);
    - no two consecutive stored vertices are equal for Point3D::compare, unless the loop has exactly two vertices. *)
Theorem C04_reachable_state_facts : forall (K : Type) (NK : Num K) (ops : list (lop K)),
  let L := fst (loop_run_pre (@loop_new K NK) ops) in
  (lclosed L = true -> 1 <= llen L) /\
  (lclosed L = false -> larea L = nneg n1 /\ lperim L = nneg n1) /\
  (lclosed L = false -> 3 <= llen L -> lnormal L = tri_normal (verts L)) /\
  (llen L <> 2 -> forall i, S i < llen L -> vcompare (vnth (verts L) i) (vnth (verts L) (S i)) = false).
Proof.
  intros K NK ops. pose proof (@reachable_invariant K NK ops) as [I1 I2 I3 I4].
  exact (conj I1 (conj I2 (conj I3 (@reachable_no_adjacent_duplicates K NK ops)))).
Qed.

(** ** 2. the exact effect of the operations *)
(** an accepted push: the loop was open and stays open, area / perimeter untouched, the vertex list is one of
    first points (fewer than 2 vertices: appended) / spike pop / collinear replacement / append, with the test results that
    selected the branch; the normal is recomputed from the first corner iff exactly three vertices are left *)
Theorem C04_push_effect : forall (K : Type) (NK : Num K) (L L' : Loop K) (p : V3 K), loop_push_pre L p = Ok L' ->
  lclosed L = false /\ push_shape (verts L) p (verts L') /\
  L' = mkLoop (verts L') (if Nat.eqb (llen L') 3 then tri_normal (verts L') else lnormal L) false (larea L) (lperim L).
Proof. exact (fun K NK => @push_ok_effect K NK). Qed.
(** the vertex count moves by at most one; the cached normal can change only when the push leaves exactly three vertices *)
Theorem C04_push_len_normal : forall (K : Type) (NK : Num K) (L L' : Loop K) (p : V3 K), loop_push_pre L p = Ok L' ->
  (llen L' = llen L - 1 \/ llen L' = llen L \/ llen L' = S (llen L)) /\ (lnormal L' = lnormal L \/ llen L' = 3).
Proof. exact (fun K NK => @push_len_normal K NK). Qed.

(** the crossing test of valid_to_add is: none of the first [count] edges is intersected (Segment3D::intersect) *)
Theorem C04_crossing_test_reads : forall (K : Type) (NK : Num K) (e : Seg K) (vs : list (V3 K)) (count : nat),
  crosses_any e vs count = false <->
  (forall i, i < count -> S i < length vs -> seg_intersect e (seg_new (vnth vs i) (vnth vs (S i))) = None).
Proof. exact (fun K NK => @crosses_any_false K NK). Qed.
(** every vertex that was APPENDED (not a replacement / spike pop) passed, at that moment, the corner test at the previous
    vertex and the crossing test of its edge against all the then-stored edges 0 .. n-3.  (Neither is re-tested when the
    appended vertex is later REPLACED by a tolerance-collinear one: C04_closed_collinear_by_replacement_refuted.) *)
Theorem C04_append_checked : forall (K : Type) (NK : Num K) (L L' : Loop K) (p : V3 K),
  loop_push_pre L p = Ok L' -> verts L' = verts L ++ [p] -> 2 <= llen L ->
  is_collinear (vnth (verts L) (llen L - 2)) (vnth (verts L) (llen L - 1)) p = Ok false /\
  (3 <= llen L -> forall i, i < llen L - 2 ->
     seg_intersect (seg_new (vnth (verts L) (llen L - 1)) p) (seg_new (vnth (verts L) i) (vnth (verts L) (S i))) = None).
Proof. exact (fun K NK => @push_append_checked K NK). Qed.

(** close ends in one of three ways: nothing changed (error) / the last vertex was popped, then an error, nothing else
    changed / the closed flag was set -- outcome Ok, or error 33 / 36 of set_area, set_perimeter WITH THE FLAG LEFT SET --
    and the vertex list is the old one minus (the last vertex iff test 1) minus (the first vertex iff test 2) *)
Theorem C04_close_effect : forall (K : Type) (NK : Num K) (L : Loop K),
  let L' := fst (loop_close_pre L) in let o := snd (loop_close_pre L) in
  (L' = L /\ o <> Ok tt) \/
  (3 <= llen L /\ close_test1 L = Ok true /\ L' = set_verts L (removelast (verts L)) /\ o <> Ok tt) \/
  (3 <= llen L /\ lclosed L = false /\ lclosed L' = true /\ (o = Ok tt \/ o = Err 33%N \/ o = Err 36%N) /\
   exists c1 c2, close_test1 L = Ok c1 /\
     let vs1 := if c1 then removelast (verts L) else verts L in
     close_test2 vs1 = Ok c2 /\ verts L' = (if c2 then tl vs1 else vs1)).
Proof. exact (fun K NK => @close_effect K NK). Qed.
(** what a FAILED close may have changed (the property demands an unchanged state only for refused additions) *)
Theorem C04_failed_close_effect : forall (K : Type) (NK : Num K) (L : Loop K), snd (loop_close_pre L) <> Ok tt ->
  let L' := fst (loop_close_pre L) in
  L' = L \/
  (3 <= llen L /\ close_test1 L = Ok true /\ L' = set_verts L (removelast (verts L))) \/
  (3 <= llen L /\ lclosed L = false /\ lclosed L' = true /\ (snd (loop_close_pre L) = Err 33%N \/ snd (loop_close_pre L) = Err 36%N)).
Proof. exact (fun K NK => @failed_close_effect K NK). Qed.
(** a successful close: closed, >= 3 vertices, and exactly which vertices were dropped *)
Theorem C04_close_ok_effect : forall (K : Type) (NK : Num K) (L : Loop K), snd (loop_close_pre L) = Ok tt ->
  let L' := fst (loop_close_pre L) in
  lclosed L = false /\ lclosed L' = true /\ 3 <= llen L' /\
  exists c1 c2, close_test1 L = Ok c1 /\
    let vs1 := if c1 then removelast (verts L) else verts L in
    close_test2 vs1 = Ok c2 /\ verts L' = (if c2 then tl vs1 else vs1).
Proof. exact (fun K NK => @close_ok_effect K NK). Qed.
(** when a successful close dropped nothing, both wrap-around corners passed the library's collinearity test *)
Theorem C04_close_nothing_dropped_corners : forall (K : Type) (NK : Num K) (L : Loop K),
  snd (loop_close_pre L) = Ok tt -> verts (fst (loop_close_pre L)) = verts L ->
  is_collinear (vnth (verts L) (llen L - 2)) (vnth (verts L) (llen L - 1)) (vnth (verts L) 0) = Ok false /\
  is_collinear (vnth (verts L) (llen L - 1)) (vnth (verts L) 0) (vnth (verts L) 1) = Ok false.
Proof. exact (fun K NK => @close_ok_nothing_dropped K NK). Qed.

(** closed states are absorbing up to one exception: every operation is refused, flag / normal / area / perimeter stay, and
    the vertex list stays -- except that a further close pops the last vertex when it tests collinear with its cyclic
    neighbours (this does happen: C04_closed_absorbing_refuted) *)
Theorem C04_closed_absorbing : forall (K : Type) (NK : Num K) (L : Loop K) (op : lop K), lclosed L = true ->
  let L' := fst (loop_step_pre L op) in
  snd (loop_step_pre L op) <> Ok tt /\ lclosed L' = true /\ lnormal L' = lnormal L /\ larea L' = larea L /\ lperim L' = lperim L /\
  (verts L' = verts L \/ (op = LClose /\ 3 <= llen L /\ close_test1 L = Ok true /\ verts L' = removelast (verts L))).
Proof. exact (fun K NK => @closed_absorbing K NK). Qed.

(** ** 3. corners (reals).  [exact_run]: every collinear REPLACEMENT performed by a push of the history was an exact one
    (the three points on one line).  Then every interior corner of every reachable state is genuine: its two edges are not
    parallel, none of them null.  Without the hypothesis this is false (section 4). *)
Theorem C04_interior_corners_genuine_exact : forall (ops : list (lop R)), exact_run (@loop_new R NumR) ops ->
  let L := fst (loop_run_pre (@loop_new R NumR) ops) in
  forall i, S (S i) < llen L -> genuine (vnth (verts L) i) (vnth (verts L) (S i)) (vnth (verts L) (S (S i))).
Proof. exact reachable_corners_genuine_nth. Qed.
(** ... and for a loop closed successfully with no vertex dropped by close, ALL corners are genuine, cyclically:
    "a closed loop has at least three vertices and no vertex collinear with its two neighbours".
    PARTIAL with respect to the property text: when close drops the first / last vertex the new wrap-around corners are not
    re-tested, and the statement is false even for exact data (C04_closed_collinear_exact_refuted). *)
Theorem C04_closed_corners_genuine_partial : forall (ops : list (lop R)),
  let L := fst (loop_run_pre (@loop_new R NumR) ops) in
  exact_run (@loop_new R NumR) ops -> snd (loop_close_pre L) = Ok tt -> verts (fst (loop_close_pre L)) = verts L ->
  let L' := fst (loop_close_pre L) in let n := llen L' in
  lclosed L' = true /\ 3 <= n /\
  (forall i, S (S i) < n -> genuine (vnth (verts L') i) (vnth (verts L') (S i)) (vnth (verts L') (S (S i)))) /\
  genuine (vnth (verts L') (n - 2)) (vnth (verts L') (n - 1)) (vnth (verts L') 0) /\
  genuine (vnth (verts L') (n - 1)) (vnth (verts L') 0) (vnth (verts L') 1).
Proof. exact closed_all_corners_genuine. Qed.

(** ** 4. non-vacuity and refutations on the executed instance (binary64) *)
Definition frun (ops : list (lop float)) := @loop_run_pre float NumF (@loop_new float NumF) ops.
Definition P2 (x y : float) : lop float := LPush (mkV3 x y 0%float).

(** a history with a collinear run (1,0) (2,0) (3,0), a spike (3,2) -> (2,1) -> (3,2), a refused crossing push (1,-1), a
    refused off-plane push, a successful close that drops the redundant last vertex (0,1), and a refused push after it *)
Example C04_reach_nonvacuous :
  let ops := [P2 0 0; P2 1 0; P2 2 0; P2 3 0; P2 3 2; P2 2 1; P2 3 2; P2 0 2; P2 1 (-1); LPush (mkV3 0 1 1); P2 0 1; LClose; P2 5 5]%float in
  snd (frun ops) = [Ok tt; Ok tt; Ok tt; Ok tt; Ok tt; Ok tt; Ok tt; Ok tt; Err 32%N; Err 31%N; Ok tt; Ok tt; Err 30%N] /\
  verts (fst (frun ops)) = [mkV3 0 0 0; mkV3 3 0 0; mkV3 3 2 0; mkV3 0 2 0]%float /\
  lclosed (fst (frun ops)) = true /\ larea (fst (frun ops)) = 6%float.
Proof. vm_compute. repeat split; reflexivity. Qed.

(** REFUTED (property text: "a closed loop has at least three vertices"): a tolerance-collinear replacement of the third
    vertex leaves a sliver; close pops its last vertex (test 1), drops its first (test 2), sets the closed flag and only
    then fails in set_area: the loop is marked closed with ONE vertex (outcome Err 33) *)
Theorem C04_closed_has_three_refuted : exists ops : list (lop float),
  let L := fst (frun ops) in lclosed L = true /\ llen L = 1 /\ snd (frun ops) = [Ok tt; Ok tt; Ok tt; Ok tt; Err 33%N].
Proof. exists [P2 0 0; P2 1 0; P2 1 0x1p-16; P2 1.5 0x1p-18; LClose]%float. vm_compute. repeat split; reflexivity. Qed.

(** REFUTED ("a loop with fewer than three vertices has the initial, zero normal"): after a spike pop from three to two
    vertices the normal of the vanished corner stays cached, and a point off THAT plane is refused although a two-vertex
    outline has no plane *)
Theorem C04_small_loop_normal_unset_refuted : exists (ops : list (lop float)) (p : V3 float),
  let L := fst (frun ops) in
  llen L = 2 /\ lclosed L = false /\ lnormal L = (mkV3 0 0 1)%float /\ @loop_push_pre float NumF L p = Err 31%N.
Proof. exists [P2 0 0; P2 1 0; P2 1 1; P2 1 0]%float, (mkV3 1 0 1)%float. vm_compute. repeat split; reflexivity. Qed.

(** REFUTED ("every point that keeps the outline planar and non-crossing is accepted"): a tolerance-collinear replacement
    of the third vertex by a point exactly in line with the first two makes the recomputed normal NaN; every later
    point is then refused as non-coplanar (no retraced spike involved) *)
Theorem C04_nan_normal_by_replacement_refuted : exists (ops : list (lop float)) (p : V3 float),
  let L := fst (frun ops) in
  snd (frun ops) = [Ok tt; Ok tt; Ok tt; Ok tt] /\ verts L = [mkV3 0 0 0; mkV3 1 0 0; mkV3 1.5 0 0]%float /\
  PrimFloat.is_nan (vz (lnormal L)) = true /\ vz p = 0%float /\ @loop_push_pre float NumF L p = Err 31%N.
Proof. exists [P2 0 0; P2 1 0; P2 1 0x1p-16; P2 1.5 0]%float, (mkV3 2 1 0)%float. vm_compute. repeat split; reflexivity. Qed.

(** REFUTED ("no vertex of a closed loop is collinear with its two neighbours"), EXACT data, no tolerance involved:
    the outline passes through its start vertex, makes a spike and is closed; close pops the spike (test 1), then drops
    the first vertex as a duplicate of the new last one (test 2) and never tests the corner that this creates:
    the stored closed loop has the vertex (0,0) between (-1,0) and (1,0) *)
Theorem C04_closed_collinear_exact_refuted : exists ops : list (lop float),
  let L := fst (frun ops) in
  (forall o, In o (snd (frun ops)) -> o = Ok tt) /\ lclosed L = true /\
  verts L = [mkV3 1 0 0; mkV3 1 1 0; mkV3 (-1) 1 0; mkV3 (-1) 0 0; mkV3 0 0 0]%float /\
  @is_collinear float NumF (vnth (verts L) 3) (vnth (verts L) 4) (vnth (verts L) 0) = Ok true.
Proof.
  exists [P2 0 0; P2 1 0; P2 1 1; P2 (-1) 1; P2 (-1) 0; P2 0 0; P2 0.5 0.5; LClose]%float. vm_compute.
  split; [|repeat split; reflexivity]. intros o H. repeat (destruct H as [H|H]; [symmetry; exact H|]). destruct H.
Qed.

(** REFUTED (the naive interior-corner invariant, and again the closed-loop clause): the corner test is made when a
    vertex is appended and not repeated when that vertex is REPLACED by a tolerance-collinear point: (1, 2^-16) is replaced
    by (1.5, 0), leaving (0,0) (1,0) (1.5,0) exactly in line, in the open loop and in the successfully closed one *)
Theorem C04_closed_collinear_by_replacement_refuted : exists ops : list (lop float),
  let L := fst (frun ops) in
  (forall o, In o (snd (frun ops)) -> o = Ok tt) /\ lclosed L = true /\
  verts L = [mkV3 (-1) (-1) 0; mkV3 0 0 0; mkV3 1 0 0; mkV3 1.5 0 0; mkV3 1.5 1 0; mkV3 (-1) 1 0]%float /\
  @is_collinear float NumF (vnth (verts L) 1) (vnth (verts L) 2) (vnth (verts L) 3) = Ok true.
Proof.
  exists [P2 (-1) (-1); P2 0 0; P2 1 0; P2 1 0x1p-16; P2 1.5 0; P2 1.5 1; P2 (-1) 1; LClose]%float. vm_compute.
  split; [|repeat split; reflexivity]. intros o H. repeat (destruct H as [H|H]; [symmetry; exact H|]). destruct H.
Qed.

(** REFUTED ("no two consecutive stored vertices are equal"): the second push is unconditional *)
Theorem C04_adjacent_duplicate_refuted : exists ops : list (lop float),
  let L := fst (frun ops) in snd (frun ops) = [Ok tt; Ok tt] /\ verts L = [mkV3 1 2 3; mkV3 1 2 3]%float.
Proof. exists [LPush (mkV3 1 2 3); LPush (mkV3 1 2 3)]%float. vm_compute. split; reflexivity. Qed.

(** REFUTED ("once closed, nothing changes"): close pops (0, 2^-15 .. ) then closes successfully, leaving (0,0.25) exactly
    between (0,2) and (0,0); a SECOND close is refused (Err 30) but pops (0,0.25) from the closed loop first *)
Theorem C04_closed_absorbing_refuted : exists ops : list (lop float),
  let L := fst (frun ops) in
  lclosed L = true /\ snd (@loop_close_pre float NumF L) = Err 30%N /\ llen L = 5 /\ llen (fst (@loop_close_pre float NumF L)) = 4 /\
  lclosed (fst (@loop_close_pre float NumF L)) = true /\ (forall o, In o (snd (frun ops)) -> o = Ok tt).
Proof.
  exists [P2 0 0; P2 1 0; P2 1 2; P2 0 2; P2 0 0.25; P2 0x1p-15 0.125; LClose]%float. vm_compute.
  repeat split; try reflexivity. intros o H. repeat (destruct H as [H|H]; [symmetry; exact H|]). destruct H.
Qed.
