(** * C08 (triangulation part) -- refinement steps keep a conforming mesh of the same region: ATOMICITY of the steps
    and the GEOMETRIC clauses (same region, same total area, orientation).
    Statements only; proofs in Proofs/Mesh_atomic.v (every number instance) and Proofs/Mesh_region.v (live-triangle
    multiset: every number instance; region: real instance).  Complements Properties/C08_mesh.v (bookkeeping).

    ATOMICITY (after crate fix 361bbb9: every child is tested with Triangle3D::new before the first mutation)
    - every step returns Ok, or leaves the mesh UNCHANGED, or fails in its already-mutated suffix with one of
      Err 102/103, Panic 61/62/63/64 or its constrain site ([post_fail]); every other Err -- in particular class 10/11
      "Triangle3D::new refused a child" -- comes with M' = M: after the pre-checks every push of the step succeeds.
      split_edge needs the neighbour across the split edge to be live and distinct ([NeiLive]; the code does not check);
    - on a structurally sound mesh ([WF], [CNT], [LNK] = every neighbour index of a live slot names a live slot) the
      residue shrinks to Panic 64 (coordinate comparison in mark_as_neighbours) -- plus, WITHOUT the link geometry, Err 102
      for flip_diagonal (excluded under [GEO]: [C08_flip_struct] in Properties/C08_links.v) -- and Ok re-establishes WF, CNT, LNK
      (split_triangle: LNK up to links to the split slot, which mark_as_neighbours overwrites only geometrically);
    - add_point (whose Err [refine] swallows) inherits it.
    LIVE TRIANGLES: what each step returning Ok does to the multiset of live triangles, by vertices.
    REGION (reals, any affine 2-D frame [plane2 o e1 e2]): doubled signed area [mesh_area2] and coverage [mesh_cover]
    (= number of triangles strictly containing q, [C08_cover_counts_inside]) are kept by split_triangle (any point),
    by flip_diagonal when the neighbour holds the flipped edge exactly and reversed ([flip_shared]), by split_edge when
    the point is on the line (area) / strictly inside (coverage; ray avoiding the point) the edge in each hemisphere;
    hence along histories of such steps, restore_delaunay and add_point included.  Orientation: children stay positive.
    In THIS file [flip_shared] / [split_edge_ok] are hypotheses of the single-step theorems; Properties/C08_links.v proves that they
    follow from the link-geometry invariant [GEO], which the steps preserve, and states restore_delaunay and the histories without
    any invariant hypothesis; [refine] and mesh_polygon: Properties/C08_refine.v (through the trace of elementary steps).  The model's own location test
    ([tri_test_point], tolerance 100 eps) does NOT imply the exact on-edge hypothesis ([C08_located_on_edge_is_not_exact]). *)
From Coq Require Import ZArith Reals List Permutation Floats Lra.
Set Warnings "-inexact-float".
From G3 Require Import Model.Num Model.NumF Model.Base Model.Vec Model.Segment Model.Triangle Model.Loop Model.Polygon Model.Triangulation
  Theory.RInst Theory.Cyclic Theory.Winding
  Proofs.Mesh_base Proofs.Mesh_wf Proofs.Mesh_conf Proofs.Mesh_region Proofs.Mesh_atomic Proofs.Mesh_region_ex.
From G3 Require Proofs.C05_pointtest.
Import ListNotations.

(** ** Atomicity *)
Theorem C08_push_after_check_succeeds : forall (K : Type) (NK : Num K) (a b c : V3 K) (last_added : nat) (T : Tri K) (M M' : Mesh K) (r : res nat),
  tri_new a b c = Ok T -> mesh_push a b c last_added M = (M', r) -> exists n, r = Ok n.
Proof. exact (fun K NK => @push_checked K NK). Qed.

Theorem C08_split_triangle_atomic : forall (K : Type) (NK : Num K) (i : nat) (p : V3 K) (M M' : Mesh K) (r : res unit),
  split_triangle i p M = (M', r) -> r = Ok tt \/ M' = M \/ post_fail 84 r.
Proof. exact (fun K NK => @split_triangle_atomic K NK). Qed.
Theorem C08_split_triangle_err_unchanged : forall (K : Type) (NK : Num K) (i : nat) (p : V3 K) (M M' : Mesh K) (c : N),
  split_triangle i p M = (M', Err c) -> c <> 102%N -> c <> 103%N -> M' = M.
Proof. exact (fun K NK => @split_triangle_err_atomic K NK). Qed.
Theorem C08_flip_atomic : forall (K : Type) (NK : Num K) (i : nat) (e : Edge) (M M' : Mesh K) (r : res unit),
  flip_diagonal i e M = (M', r) -> r = Ok tt \/ M' = M \/ post_fail 79 r.
Proof. exact (fun K NK => @flip_atomic K NK). Qed.
Theorem C08_flip_err_unchanged : forall (K : Type) (NK : Num K) (i : nat) (e : Edge) (M M' : Mesh K) (c : N),
  flip_diagonal i e M = (M', Err c) -> c <> 102%N -> c <> 103%N -> M' = M.
Proof. exact (fun K NK => @flip_err_atomic K NK). Qed.
Theorem C08_split_edge_atomic : forall (K : Type) (NK : Num K) (i : nat) (e : Edge) (p : V3 K) (M M' : Mesh K) (r : res unit),
  NeiLive M i e -> split_edge i e p M = (M', r) -> r = Ok tt \/ M' = M \/ post_fail 82 r.
Proof. exact (fun K NK => @split_edge_atomic K NK). Qed.
Theorem C08_split_edge_err_unchanged : forall (K : Type) (NK : Num K) (i : nat) (e : Edge) (p : V3 K) (M M' : Mesh K) (c : N),
  NeiLive M i e -> split_edge i e p M = (M', Err c) -> c <> 102%N -> c <> 103%N -> M' = M.
Proof. exact (fun K NK => @split_edge_err_atomic K NK). Qed.

(** on a structurally sound mesh *)
Theorem C08_split_triangle_struct : forall (K : Type) (NK : Num K) (i : nat) (p : V3 K) (M M' : Mesh K) (r : res unit),
  WF M -> CNT M -> LNK M -> split_triangle i p M = (M', r) ->
  (r = Ok tt /\ WF M' /\ CNT M' /\ LNKs (fun k => k = i) M') \/ M' = M \/ r = Panic 64%N.
Proof. exact (fun K NK => @split_triangle_struct K NK). Qed.
Theorem C08_split_edge_struct : forall (K : Type) (NK : Num K) (i : nat) (e : Edge) (p : V3 K) (M M' : Mesh K) (r : res unit),
  WF M -> CNT M -> LNK M -> split_edge i e p M = (M', r) ->
  (r = Ok tt /\ WF M' /\ CNT M' /\ LNK M') \/ M' = M \/ r = Panic 64%N.
Proof. exact (fun K NK => @split_edge_struct K NK). Qed.
(** flip_diagonal: see [C08_flip_struct] in Properties/C08_links.v (with the link geometry Err 102 is excluded; without it:
    Proofs/Mesh_atomic.v [flip_struct] keeps it as a possible residue) *)
Theorem C08_restore_delaunay_sound : forall (K : Type) (NK : Num K) (m : K) (M M' : Mesh K),
  Sound M -> restore_delaunay m M = (M', Ok tt) -> Sound M'.
Proof. exact (fun K NK => @restore_sound K NK). Qed.
(** the Err that [refine] swallows from [add_point] *)
Theorem C08_add_point_err_unchanged : forall (K : Type) (NK : Num K) (p : V3 K) (M M' : Mesh K) (c : N),
  WF M -> LNK M -> add_point p M = (M', Err c) -> c <> 102%N -> c <> 103%N -> M' = M.
Proof. exact (fun K NK => @add_point_err_atomic K NK). Qed.

(** ** The multiset of live triangles *)
Theorem C08_live_mark_as_neighbours : forall (K : Type) (NK : Num K) (i1 : nat) (e1 : Edge) (i2 : nat) (M M' : Mesh K) (r : res unit),
  mark_as_neighbours i1 e1 i2 M = (M', r) -> live_tris M' = live_tris M.
Proof. exact (fun K NK => @live_mark K NK). Qed.
Theorem C08_live_constrain : forall (K : Type) (NK : Num K) (s : N) (i : nat) (e : Edge) (M M' : Mesh K) (r : res unit),
  mupd s i (tp_constrain e) M = (M', r) -> live_tris M' = live_tris M.
Proof. exact (fun K NK => @live_constrain K). Qed.
Theorem C08_live_set_neighbour : forall (K : Type) (NK : Num K) (s : N) (i : nat) (e : Edge) (j : nat) (M M' : Mesh K) (r : res unit),
  mupd s i (tp_set_neighbour e j) M = (M', r) -> live_tris M' = live_tris M.
Proof. exact (fun K NK => @live_set_neighbour K). Qed.
Theorem C08_live_invalidate : forall (K : Type) (NK : Num K) (i : nat) (t : TriPiece K) (M M' : Mesh K) (r : res unit),
  nth_error (tris M) i = Some t -> tp_valid t = true -> mesh_invalidate i M = (M', r) ->
  exists l1 l2, live_tris M = l1 ++ tp_tri t :: l2 /\ live_tris M' = l1 ++ l2.
Proof. intros K NK i t M M' r H1 H2 H3. exact (proj2 (live_invalidate i t M M' r H1 H2 H3)). Qed.
Theorem C08_live_push : forall (K : Type) (NK : Num K) (a b c : V3 K) (last_added : nat) (M M' : Mesh K) (n : nat),
  mesh_push a b c last_added M = (M', Ok n) ->
  exists T, tri_new a b c = Ok T /\ tri_pts T = (a, b, c) /\ Permutation (live_tris M') (T :: live_tris M).
Proof.
  intros K NK a b c la M M' n H. destruct (live_push a b c la M M' n H) as (T & E & P). exists T. split; [exact E|]. split; [exact (tri_new_pts _ _ _ _ E) | exact P].
Qed.
Theorem C08_live_split_triangle : forall (K : Type) (NK : Num K) (i : nat) (p : V3 K) (M M' : Mesh K),
  split_triangle i p M = (M', Ok tt) ->
  exists t T1 T2 T3 rest,
    nth_error (tris M) i = Some t /\ tp_valid t = true /\
    tri_new (tc (tp_tri t)) (ta (tp_tri t)) p = Ok T1 /\
    tri_new (ta (tp_tri t)) (tb (tp_tri t)) p = Ok T2 /\
    tri_new (tb (tp_tri t)) (tc (tp_tri t)) p = Ok T3 /\
    Permutation (live_tris M) (tp_tri t :: rest) /\
    Permutation (live_tris M') (T1 :: T2 :: T3 :: rest).
Proof. exact (fun K NK => @live_split_triangle K NK). Qed.
Theorem C08_live_flip_diagonal : forall (K : Type) (NK : Num K) (i : nat) (e : Edge) (M M' : Mesh K),
  flip_diagonal i e M = (M', Ok tt) ->
  exists t ni nb a b c o T1 T2 rest,
    nth_error (tris M) i = Some t /\ tp_valid t = true /\ tp_neighbour t e = Some ni /\
    nth_error (tris M) ni = Some nb /\ tp_valid nb = true /\
    flip_verts (tp_tri t) (tp_tri nb) e = Ok (a, b, c, o) /\
    tri_new a o c = Ok T1 /\ tri_new c o b = Ok T2 /\
    (ni <> i -> Permutation (live_tris M) (tp_tri t :: tp_tri nb :: rest) /\ Permutation (live_tris M') (T1 :: T2 :: rest)).
Proof. exact (fun K NK => @live_flip K NK). Qed.
Theorem C08_live_split_edge : forall (K : Type) (NK : Num K) (i : nat) (e : Edge) (p : V3 K) (M M' : Mesh K),
  split_edge i e p M = (M', Ok tt) ->
  exists t s a b c TA TB,
    nth_error (tris M) i = Some t /\ tp_valid t = true /\ tri_segment (tp_tri t) (edge_as_i e) = Ok s /\
    hemi_verts (tp_tri t) s = Ok (a, b, c) /\ tri_new a p c = Ok TA /\ tri_new p b c = Ok TB /\
    match tp_neighbour t e with
    | None => exists rest, Permutation (live_tris M) (tp_tri t :: rest) /\ Permutation (live_tris M') (TA :: TB :: rest)
    | Some ni =>
      forall nb, ni <> i -> nth_error (tris M) ni = Some nb -> tp_valid nb = true ->
      exists a' b' c' TA' TB' rest,
        hemi_verts (tp_tri nb) s = Ok (a', b', c') /\ tri_new a' p c' = Ok TA' /\ tri_new p b' c' = Ok TB' /\
        Permutation (live_tris M) (tp_tri t :: tp_tri nb :: rest) /\
        Permutation (live_tris M') (TA :: TB :: TA' :: TB' :: rest)
    end.
Proof. exact (fun K NK => @live_split_edge K NK). Qed.

(** ** The region (real instance) *)
(** what [cover] counts *)
Theorem C08_cover_counts_inside : forall (d q : P2) (Ts : list (P2 * P2 * P2)),
  (forall a b c, In (a, b, c) Ts -> (0 < orient a b c)%R /\ generic d q [a; b; c] /\ off_lines a b c q) ->
  cover d Ts q = Z.of_nat (count_inside Ts q).
Proof. exact cover_counts_inside. Qed.

Theorem C08_region_split_triangle : forall (o e1 e2 : V3 R) (i : nat) (p : V3 R) (M M' : Mesh R),
  split_triangle i p M = (M', Ok tt) ->
  mesh_area2 o e1 e2 M' = mesh_area2 o e1 e2 M /\ forall d q, mesh_cover o e1 e2 d M' q = mesh_cover o e1 e2 d M q.
Proof. exact region_split_triangle. Qed.
Theorem C08_region_flip_diagonal : forall (o e1 e2 : V3 R) (i : nat) (e : Edge) (M M' : Mesh R),
  flip_shared M i e -> flip_diagonal i e M = (M', Ok tt) ->
  mesh_area2 o e1 e2 M' = mesh_area2 o e1 e2 M /\ forall d q, mesh_cover o e1 e2 d M' q = mesh_cover o e1 e2 d M q.
Proof. exact region_flip. Qed.
Theorem C08_region_split_edge_area : forall (o e1 e2 : V3 R) (i : nat) (e : Edge) (p : V3 R) (M M' : Mesh R),
  split_edge_ok on_line M i e p -> split_edge i e p M = (M', Ok tt) -> mesh_area2 o e1 e2 M' = mesh_area2 o e1 e2 M.
Proof. exact region_split_edge_area. Qed.
Theorem C08_region_split_edge_cover : forall (o e1 e2 : V3 R) (i : nat) (e : Edge) (p : V3 R) (M M' : Mesh R) (d q : P2),
  split_edge_ok between M i e p -> hgt d q (C05_pointtest.plane2 o e1 e2 p) <> 0%R -> split_edge i e p M = (M', Ok tt) ->
  mesh_cover o e1 e2 d M' q = mesh_cover o e1 e2 d M q.
Proof. exact region_split_edge_cover. Qed.
(** the rotation half of [split_edge_ok] is automatic when every live triangle was built by Triangle3D::new *)
Theorem C08_split_edge_hypothesis_of_nondeg : forall (Q : V3 R -> V3 R -> V3 R -> Prop) (M : Mesh R) (i : nat) (e : Edge) (p : V3 R),
  AllNondeg M -> split_edge_pts Q M i e p -> split_edge_ok Q M i e p.
Proof. exact split_edge_ok_of_nondeg. Qed.
Theorem C08_nondeg_split_triangle : forall (i : nat) (p : V3 R) (M M' : Mesh R), split_triangle i p M = (M', Ok tt) -> AllNondeg M -> AllNondeg M'.
Proof. exact nondeg_split_triangle. Qed.
Theorem C08_nondeg_flip_diagonal : forall (i : nat) (e : Edge) (M M' : Mesh R), WF M -> flip_diagonal i e M = (M', Ok tt) -> AllNondeg M -> AllNondeg M'.
Proof. exact nondeg_flip. Qed.

Theorem C08_region_add_point_area : forall (o e1 e2 : V3 R) (p : V3 R) (M M' : Mesh R) (b : bool),
  add_point_ok on_line M p -> add_point p M = (M', Ok b) -> mesh_area2 o e1 e2 M' = mesh_area2 o e1 e2 M.
Proof. exact region_add_point_area. Qed.
Theorem C08_region_add_point_cover : forall (o e1 e2 : V3 R) (p : V3 R) (M M' : Mesh R) (b : bool) (d q : P2),
  add_point_ok between M p -> hgt d q (C05_pointtest.plane2 o e1 e2 p) <> 0%R -> add_point p M = (M', Ok b) ->
  mesh_cover o e1 e2 d M' q = mesh_cover o e1 e2 d M q.
Proof. exact region_add_point_cover. Qed.

(** restore_delaunay and histories: [C08_region_restore_delaunay], [C08_region_history_area], [C08_region_history_cover] in
    Properties/C08_links.v (no invariant hypothesis: the link geometry [GEO] is preserved by the steps) *)

(** ** Orientation *)
Theorem C08_orientation_split_triangle : forall (o e1 e2 : V3 R) (i : nat) (p : V3 R) (M M' : Mesh R),
  (forall t, nth_error (tris M) i = Some t ->
     inside_tri (C05_pointtest.plane2 o e1 e2 (ta (tp_tri t))) (C05_pointtest.plane2 o e1 e2 (tb (tp_tri t)))
                (C05_pointtest.plane2 o e1 e2 (tc (tp_tri t))) (C05_pointtest.plane2 o e1 e2 p)) ->
  split_triangle i p M = (M', Ok tt) -> AllPos o e1 e2 M -> AllPos o e1 e2 M'.
Proof. exact pos_mesh_split_triangle. Qed.
Theorem C08_orientation_split_edge : forall (o e1 e2 : V3 R) (i : nat) (e : Edge) (p : V3 R) (M M' : Mesh R),
  split_edge_ok between M i e p -> split_edge i e p M = (M', Ok tt) -> AllPos o e1 e2 M -> AllPos o e1 e2 M'.
Proof. exact pos_mesh_split_edge. Qed.
Theorem C08_orientation_flip_diagonal : forall (o e1 e2 : V3 R) (i : nat) (e : Edge) (M M' : Mesh R),
  flip_shared M i e -> flip_convex o e1 e2 M i e -> flip_diagonal i e M = (M', Ok tt) -> AllPos o e1 e2 M -> AllPos o e1 e2 M'.
Proof. exact pos_mesh_flip. Qed.

(** the model's own convexity test [is_convex] (applied by get_flipped_aspect_ratio, hence by restore_delaunay, before a
    flip is proposed), for four points of the plane o + u e1 + v e2 of an orthonormal frame and a positively oriented
    triangle (a,b,c): it yields exactly the strict convexity that [flip_convex] asks *)
Theorem C08_is_convex_gives_flip_convex : forall (o e1 e2 : V3 R),
  vdot e1 e1 = 1%R -> vdot e2 e2 = 1%R -> vdot e1 e2 = 0%R ->
  forall (a op b c : V3 R),
    in_plane o e1 e2 a -> in_plane o e1 e2 op -> in_plane o e1 e2 b -> in_plane o e1 e2 c ->
    is_convex a op b c = true ->
    (0 < orient (C05_pointtest.plane2 o e1 e2 a) (C05_pointtest.plane2 o e1 e2 b) (C05_pointtest.plane2 o e1 e2 c))%R ->
    (0 < orient (C05_pointtest.plane2 o e1 e2 a) (C05_pointtest.plane2 o e1 e2 op) (C05_pointtest.plane2 o e1 e2 b) /\
     0 < orient (C05_pointtest.plane2 o e1 e2 op) (C05_pointtest.plane2 o e1 e2 b) (C05_pointtest.plane2 o e1 e2 c) /\
     0 < orient (C05_pointtest.plane2 o e1 e2 c) (C05_pointtest.plane2 o e1 e2 a) (C05_pointtest.plane2 o e1 e2 op))%R.
Proof. exact is_convex_flip_convex. Qed.

(** ** Examples / witnesses (Proofs/Mesh_region_ex.v) *)
(** the model's location test is a tolerance test: a point can be "on edge AB" for [tri_test_point] (so that add_point
    calls split_edge) and yet off the line AB; splitting a boundary edge there changes the outline by a sliver *)
Theorem C08_located_on_edge_is_not_exact :
  exists (T : Tri R) (p : V3 R) (o e1 e2 : V3 R),
    tri_test_point T p = EdgeAB /\
    orient (C05_pointtest.plane2 o e1 e2 (ta T)) (C05_pointtest.plane2 o e1 e2 (tb T)) (C05_pointtest.plane2 o e1 e2 p) <> 0%R.
Proof. exact located_on_edge_is_not_exact. Qed.

(** non-vacuity (binary64 instance, vm_compute): on the unit-square mesh of two triangles (built with the model's own push /
    mark_as_neighbours / constrain) -- which is structurally sound -- each step returns Ok *)
Example C08_steps_nonvacuous :
  exists M : Mesh float, Sound M /\ length (live_tris M) = 2%nat /\
    (exists M', split_triangle 0 (q2 0.6 0.2) M = (M', Ok tt) /\ length (live_tris M') = 4%nat) /\
    (exists e M', flip_diagonal 0 e M = (M', Ok tt) /\ length (live_tris M') = 2%nat) /\
    (exists e M', split_edge 0 e (q2 0.5 0.5) M = (M', Ok tt) /\ length (live_tris M') = 4%nat).
Proof. exact steps_nonvacuous. Qed.
(** non-vacuity (reals): a single triangle split at an interior point -- the step returns Ok, the three children are
    positively oriented, doubled area 1 before and after *)
Example C08_region_nonvacuous :
  exists (M M' : Mesh R) (p : V3 R), split_triangle 0 p M = (M', Ok tt) /\
    (mesh_area2 (mkV3 0 0 0) (mkV3 1 0 0) (mkV3 0 1 0) M = 1 /\ mesh_area2 (mkV3 0 0 0) (mkV3 1 0 0) (mkV3 0 1 0) M' = 1 /\
     AllPos (mkV3 0 0 0) (mkV3 1 0 0) (mkV3 0 1 0) M')%R /\ length (live_tris M') = 3%nat.
Proof. exact region_nonvacuous. Qed.
(** the quantities are not trivial: the two triangles of the unit square, the other diagonal, a split of the diagonal *)
Example C08_cover_area_unit_square :
  let a := (0, 0)%R in let b := (1, 0)%R in let c := (1, 1)%R in let d := (0, 1)%R in let m := (/ 2, / 2)%R in
  area2sum [(a, b, c); (a, c, d)] = 2%R /\ area2sum [(d, a, b); (d, b, c)] = 2%R /\
  area2sum [(a, b, m); (m, b, c); (c, d, m); (m, d, a)] = 2%R /\
  cover (1, 0)%R [(a, b, c); (a, c, d)] (/ 2, / 3)%R = 1%Z /\ cover (1, 0)%R [(d, a, b); (d, b, c)] (/ 2, / 3)%R = 1%Z.
Proof. exact cover_area_unit_square. Qed.
