(** * C02, part pflat -- every reported ray hit is a true hit: triangle, plane, disk / annulus / sector
    (with the attached transform), distant source.  Exact tier (the model on the reals).  Statements only. *)
From Coq Require Import ZArith Reals List.
From G3 Require Import Model.Num Model.Base Model.Vec Model.BBox Model.Transform Model.Hit Model.Segment Model.Triangle
  Model.Plane Model.Disk Model.Distant Model.PinnedFlat
  Proofs.C06_transform Proofs.Flat_base Proofs.Flat_polar Proofs.Flat_triangle Proofs.Flat_disk Proofs.Flat_distant Proofs.Flat_examples.
Local Open Scope R_scope.

(** ** triangle (Moller-Trumbore, after fix 59c6847): the reported point is on the ray at a parameter t > 100 eps,
    it is the point v0 + u e1 + v e2 of the triangle's plane, and (u, v) is in the closed triangle *)
Theorem C02_flat_triangle_hit_is_true : forall (ray : Ray R) (v0 v1 v2 p : V) (u v : R),
  intersect_triangle ray v0 v1 v2 = Some (p, u, v) ->
  exists t, ctiny < t /\ p = ray_project ray t /\ p = tri_point v0 v1 v2 u v /\ 0 <= u /\ 0 <= v /\ u + v <= 1.
Proof. exact intersect_triangle_sound. Qed.
(** Triangle3D::intersect and ::simple_intersect (the latter through the identity transform's origin nudge) *)
Theorem C02_flat_triangle3d_intersect : forall (t : Tri R) (ray : Ray R) (i : Info R),
  tri_intersect t ray = Some i -> (exists tt, ctiny < tt /\ ip i = ray_project ray tt) /\ in_triangle t (ip i).
Proof. exact tri_intersect_sound. Qed.
Theorem C02_flat_triangle3d_simple_intersect : forall (t : Tri R) (ray : Ray R) (p : V),
  tri_simple_intersect t ray = Some p -> (exists tt, ctiny < tt /\ p = ray_project ray tt) /\ in_triangle t p.
Proof. exact tri_simple_intersect_sound. Qed.
(** the pinned code (before 59c6847) accepted the whole parallelogram: unit right triangle, ray through (0.9, 0.9) *)
Theorem C02_flat_triangle_pinned_refuted :
  exists (ray : Ray R) (v0 v1 v2 p : V) (u v : R), intersect_triangle_pinned ray v0 v1 v2 = Some (p, u, v) /\ 1 < u + v.
Proof. exact intersect_triangle_pinned_unsound. Qed.

(** ** plane: distance t > 0 (since fix fb7e7b9 the code rejects [t <= 0]; on the pinned tree the boundary t = 0 -- origin on the plane -- was reported,
    whereas the property text says "positive distance"), and the point is on the plane n.x = D *)
Theorem C02_flat_plane_hit_is_true : forall (pl : Plane R) (ray : Ray R) (t : R),
  plane_intersect pl ray = Some t ->
  0 < t /\ vdot (pl_normal pl) (ray_project ray t) = pl_d pl /\ neps <= Rabs (plane_den pl ray) /\ t = plane_t pl ray.
Proof. exact plane_intersect_sound. Qed.
(** Plane3D::new: unit normal; n.x = D is the plane through [point] perpendicular to [normal] *)
Theorem C02_flat_plane_new : forall point normal : V, vlen2 normal <> 0 ->
  let pl := plane_new point normal in
  vlen2 (pl_normal pl) = 1 /\ forall x : V, vdot (pl_normal pl) x = pl_d pl <-> vdot normal (vsub x point) = 0.
Proof. exact plane_new_spec. Qed.

(** ** disk / annulus / sector, local frame: on the ray at t > 0, in the disk's plane, r_in^2 <= |p-c|^2 <= r^2, and
    p = c + rho (cos phi . phi_zero + sin phi . (n x phi_zero)) with r_in <= rho <= r and 0 <= phi <= phi_max, phi < 2 pi *)
Theorem C02_flat_disk_hit_is_true : forall (d : Disk R) (ray : Ray R) (p : V) (phi : R), disk_wf d ->
  disk_basic_intersection d ray = Some (p, phi) ->
  (exists t, 0 < t /\ p = ray_project ray t) /\
  vdot (dk_normal d) (vsub p (dk_centre d)) = 0 /\
  dk_inner d * dk_inner d <= vlen2 (vsub p (dk_centre d)) <= dk_radius d * dk_radius d /\
  exists rho, dk_inner d <= rho <= dk_radius d /\ 0 <= phi <= dk_phi_max d /\ phi < 2 * PI /\ p = disk_point d rho phi.
Proof. exact disk_basic_sound_geo. Qed.
(** what the constructor arguments define: [disk_wf] (unit normal, unit phi_zero = the projection of the argument onto
    the plane, 0 <= inner < radius), phi_max in [0, 2 pi] *)
Theorem C02_flat_disk_constructor : forall (centre normal : V) (radius inner : R) (phi_zero : V) (phi_max : R) (tr : option T) (d : Disk R),
  vlen2 normal <> 0 -> vis_zero phi_zero = false ->
  disk_new_detailed centre normal radius inner phi_zero phi_max tr = Ok d ->
  disk_wf d /\ dk_centre d = centre /\ dk_normal d = vnormalize normal /\ dk_radius d = radius /\ dk_inner d = inner /\
  dk_transform d = tr /\ 0 <= dk_phi_max d <= 2 * PI /\
  exists s, 0 < s /\ dk_phi_zero d = vscale (vsub phi_zero (vscale (vnormalize normal) (vdot (vnormalize normal) phi_zero))) s.
Proof. exact disk_new_detailed_wf. Qed.
(** ** the wrapper intersect = transform o local o inv_transform_ray, with C06's invariant [Inv] on the attached transform:
    the world hit is the image T(p_local) of a point of the local disk -- i.e. it lies on the transformed surface --
    and on the world ray at a non-negative parameter (the local origin is the image of the world origin nudged forward) *)
Theorem C02_flat_disk_simple_intersect : forall (d : Disk R) (ray : Ray R) (pw : V), disk_wf d -> disk_tr_ok d ->
  disk_simple_intersect d ray = Some pw ->
  exists pl, pw = disk_to_world d pl /\ on_disk d pl /\ exists s, 0 < s /\ pw = ray_project ray s.
Proof. exact disk_simple_intersect_sound. Qed.
Theorem C02_flat_disk_intersect_transformed : forall (d : Disk R) (t : T) (ray : Ray R) (i : Info R),
  disk_wf d -> dk_transform d = Some t -> Inv t -> disk_intersect d ray = Some i ->
  exists pl, ip i = tr_pt t pl /\ on_disk d pl /\ exists s, 0 < s /\ ip i = ray_project ray s.
Proof. exact disk_intersect_tr_sound. Qed.
(** [on_disk] read geometrically *)
Theorem C02_flat_on_disk_polar : forall (d : Disk R) (p : V), disk_wf d -> on_disk d p ->
  exists rho, dk_inner d <= rho <= dk_radius d /\ 0 <= disk_phi d p < 2 * PI /\ disk_phi d p <= dk_phi_max d /\
    p = disk_point d rho (disk_phi d p).
Proof. exact on_disk_polar. Qed.

(** ** distant source: reported <=> cos(angle(d, direction)) >= cos(alpha/2), as the code implements it; the reported
    point is the point of the ray at parameter Float::MAX *)
Theorem C02_flat_distant_cone : forall (s : Distant R) (ray : Ray R) (p : V),
  distant_simple_intersect_local_ray s ray = Some p <->
  ds_cos_half_alpha s <= vdot (vnormalize (rdir ray)) (ds_direction s) /\ p = ray_project ray nmaxf.
Proof. exact distant_simple_local_iff. Qed.
Theorem C02_flat_distant_new_cone : forall (direction : V) (angle : R) (ray : Ray R),
  let s := distant_new direction angle in
  (exists p, distant_simple_intersect_local_ray s ray = Some p) <->
  cos (angle / 2) <= vdot (rdir ray) direction / (vlen (rdir ray) * vlen direction).
Proof. exact distant_new_cone. Qed.
Theorem C02_flat_distant_simple_intersect : forall (s : Distant R) (ray : Ray R) (p : V),
  distant_simple_intersect s ray = Some p ->
  ds_cos_half_alpha s <= vdot (vnormalize (rdir ray)) (ds_direction s) /\ exists t, nmaxf <= t /\ p = ray_project ray t.
Proof. exact distant_simple_spec. Qed.

(** ** non-vacuity *)
Example C02_flat_triangle_nonvacuous : exists p u v, intersect_triangle ex_ray_down (ta ex_tri) (tb ex_tri) (tc ex_tri) = Some (p, u, v).
Proof. exact ex_tri_nonvacuous. Qed.
Example C02_flat_triangle_simple_nonvacuous : exists (t : Tri R) (ray : Ray R) (p : V), tri_simple_intersect t ray = Some p.
Proof. exact ex_tri_simple_nonvacuous. Qed.
Example C02_flat_plane_nonvacuous : exists t, plane_intersect (plane_new (mkV3 0 0 0) (mkV3 0 0 2)) ex_ray_down = Some t.
Proof. exact ex_plane. Qed.
Example C02_flat_disk_nonvacuous : disk_wf ex_disk /\ exists p phi, disk_basic_intersection ex_disk ex_ray_down = Some (p, phi).
Proof. exact ex_disk_nonvacuous. Qed.
Example C02_flat_disk_transformed_nonvacuous : exists (d : Disk R) (t : T) (ray : Ray R) (pw : V),
  disk_wf d /\ dk_transform d = Some t /\ Inv t /\ rigid t /\ disk_simple_intersect d ray = Some pw /\ exists i, disk_intersect d ray = Some i.
Proof. exact ex_disk_tr_nonvacuous. Qed.
