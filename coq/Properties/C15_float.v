(** * C15, float tier -- "a transformed box contains the image of every point of the original box", for the COMPUTED box
    and the COMPUTED image, over every Flocq binary format ([NumB prec emax]: binary64 and binary32 are instances).
    No error term: round-to-nearest addition and multiplication are monotone, overflow to an infinity included, so each
    row [((m0*x + m1*y) + m2*z) + m3] of [mul4x4point] - evaluated in the association of the code - lies between its
    computed values at two corners of the box (chosen by the signs of [m0 m1 m2]), and [transform_bbox] takes the
    componentwise minimum / maximum of the eight computed corner images.
    Hypotheses (all evaluable, [tr_ok_b]): rows 0..2 of the matrix finite; bottom row exactly (0,0,0,1) ([affine_last], as
    in C16; then [w] is computed as exactly 1 and the division by it is exact); finite box corners; none of the eight
    computed corner images has a NaN coordinate (a NaN there needs an overflow, [inf - inf]; infinities are allowed).
    The point is any float point with [point_inside b p = true]; that its image is NaN-free is part of the conclusion.
    Outside the last hypothesis the statement is false of model and code: Properties/C15_prim.v,
    [C15_prim_nan_corner_outside_hypothesis].  Statements only; proofs in Proofs/C15_float.v. *)
From Coq Require Import ZArith Reals List Bool.
From Flocq Require Import Core BinarySingleNaN.
From G3 Require Import Model.Num Model.Base Model.Vec Model.BBox Model.Transform Model.Bounds.
From G3 Require Import Proofs.C15_float.
From G3 Require Proofs.C16_errbound.
Local Open Scope R_scope.

Section C15_float_transformed.
  Variable prec emax : Z.
  Context (Hprec : FLX.Prec_gt_0 prec) (Hmax : Prec_lt_emax prec emax).
  Notation bf := (binary_float prec emax).
  Local Instance NB15 : Num bf := NumB prec emax Hprec Hmax.
  Notation fin x := (is_finite x = true).
  Notation fin3 := (C16_errbound.fin3 prec emax).
  Notation affine_last := (C16_errbound.affine_last prec emax).

  (** ** monotonicity of the rounded operations, in the float order [Bleb] (infinities included) *)
  Theorem C15_float_add_monotone : forall x x' y y' : bf, Bleb x x' = true -> Bleb y y' = true ->
    is_nan (x + y)%num = false -> is_nan (x' + y')%num = false -> Bleb (x + y)%num (x' + y')%num = true.
  Proof. exact (add_mono_leb prec emax Hprec Hmax). Qed.
  Theorem C15_float_mul_monotone : forall m x x' : bf, fin m -> fin x -> fin x' -> Bleb x x' = true ->
    (0 <= B2R m -> Bleb (m * x)%num (m * x')%num = true) /\ (B2R m <= 0 -> Bleb (m * x')%num (m * x)%num = true).
  Proof. exact (mul_mono_leb prec emax Hprec Hmax). Qed.

  (** ** one row, as the code evaluates it: between its computed values at two corners; NaN-free if the corners are *)
  Theorem C15_float_row_between_corners : forall m0 m1 m2 m3 x0 x1 y0 y1 z0 z1 x y z : bf,
    fin m0 -> fin m1 -> fin m2 -> fin m3 -> fin x0 -> fin x1 -> fin y0 -> fin y1 -> fin z0 -> fin z1 ->
    Bleb x0 x = true -> Bleb x x1 = true -> Bleb y0 y = true -> Bleb y y1 = true -> Bleb z0 z = true -> Bleb z z1 = true ->
    let row (x y z : bf) := (m0 * x + m1 * y + m2 * z + m3)%num in
    let corner (a b c : bool) := row (if a then x1 else x0) (if b then y1 else y0) (if c then z1 else z0) in
    (forall a b c : bool, is_nan (corner a b c) = false) ->
    is_nan (row x y z) = false /\
    exists aL bL cL aU bU cU : bool, Bleb (corner aL bL cL) (row x y z) = true /\ Bleb (row x y z) (corner aU bU cU) = true.
  Proof. exact (row_between_corners prec emax Hprec Hmax). Qed.

  (** the homogeneous coordinate of an affine matrix on a finite point is computed as exactly 1 *)
  Theorem C15_float_w_is_one : forall (m : M4 bf) (p : V3 bf), affine_last m -> fin3 p ->
    let w := (m30 m * vx p + m31 m * vy p + m32 m * vz p + m33 m)%num in fin w /\ B2R w = 1.
  Proof. exact (w_one prec emax Hprec Hmax). Qed.

  (** ** the theorem: for every matrix, box and float point of the box *)
  Theorem C15_float_transformed_box_contains_image : forall (m : M4 bf) (b : BBox bf) (p : V3 bf),
    rows012 (fun x : bf => fin x) m -> affine_last m -> fin3 (bmin b) -> fin3 (bmax b) ->
    bbox_by_nan_free m b = true -> bbox_point_inside b p = true ->
    bbox_point_inside (bbox_by m b) (mul4x4point m p) = true.
  Proof. exact (bbox_by_contains_image_float prec emax Hprec Hmax). Qed.
  (** the same with every hypothesis on matrix and box as one evaluable boolean *)
  Theorem C15_float_transformed_box_contains_image_evaluable : forall (m : M4 bf) (b : BBox bf) (p : V3 bf),
    tr_ok_b m b = true -> bbox_point_inside b p = true -> bbox_point_inside (bbox_by m b) (mul4x4point m p) = true.
  Proof. exact (bbox_by_contains_image_float_b prec emax Hprec Hmax). Qed.
  Theorem C15_float_affine_last_evaluable : forall m : M4 bf, affine_last_b m = true -> affine_last m.
  Proof. exact (affine_last_b_sound prec emax Hprec Hmax). Qed.

  (** [transform_bbox] with [transform_pt], and [inv_transform_bbox] with [inv_transform_pt] (the stored inverse) *)
  Theorem C15_float_transform_bbox_contains_image : forall (t : Tr bf) (b : BBox bf) (p : V3 bf),
    fin3 (bmin b) -> fin3 (bmax b) -> bbox_point_inside b p = true ->
    (rows012 (fun x : bf => fin x) (elements t) /\ affine_last (elements t) /\ bbox_by_nan_free (elements t) b = true ->
     bbox_point_inside (tr_bbox t b) (tr_pt t p) = true) /\
    (rows012 (fun x : bf => fin x) (inv_elements t) /\ affine_last (inv_elements t) /\ bbox_by_nan_free (inv_elements t) b = true ->
     bbox_point_inside (tr_inv_bbox t b) (tr_inv_pt t p) = true).
  Proof. exact (tr_bbox_contains_float prec emax Hprec Hmax). Qed.

  (** ** world bounds of the primitives = the attached transform applied to the local bounds: the computed world image of
      every float point of the local bounds lies in the computed world bounds *)
  Theorem C15_float_world_bounds_contain : forall (t : option (Tr bf)) (lb : BBox bf) (p : V3 bf),
    fin3 (bmin lb) -> fin3 (bmax lb) ->
    match t with Some t => rows012 (fun x : bf => fin x) (elements t) /\ affine_last (elements t) /\ bbox_by_nan_free (elements t) lb = true
               | None => True end ->
    bbox_point_inside lb p = true -> bbox_point_inside (world_bounds t lb) (place_pt t p) = true.
  Proof. exact (world_bounds_contain_float prec emax Hprec Hmax). Qed.
  Theorem C15_float_sphere_world_bounds : forall (t : option (Tr bf)) (r zmin zmax : bf) (p : V3 bf),
    fin r -> fin zmin -> fin zmax ->
    match t with Some t => rows012 (fun x : bf => fin x) (elements t) /\ affine_last (elements t) /\
                           bbox_by_nan_free (elements t) (sphere_bounds r zmin zmax) = true
               | None => True end ->
    bbox_point_inside (sphere_bounds r zmin zmax) p = true ->
    bbox_point_inside (world_bounds t (sphere_bounds r zmin zmax)) (place_pt t p) = true.
  Proof. exact (sphere_world_bounds_float prec emax Hprec Hmax). Qed.
  Theorem C15_float_cylinder_world_bounds : forall (t : option (Tr bf)) (r zmin zmax : bf) (p : V3 bf),
    fin r -> fin zmin -> fin zmax ->
    match t with Some t => rows012 (fun x : bf => fin x) (elements t) /\ affine_last (elements t) /\
                           bbox_by_nan_free (elements t) (cylinder_bounds r zmin zmax) = true
               | None => True end ->
    bbox_point_inside (cylinder_bounds r zmin zmax) p = true ->
    bbox_point_inside (world_bounds t (cylinder_bounds r zmin zmax)) (place_pt t p) = true.
  Proof. exact (cylinder_world_bounds_float prec emax Hprec Hmax). Qed.
  (** a triangle carries no transform: its world bounds ARE its local bounds, whatever the inputs *)
  Theorem C15_float_triangle_world_bounds : forall a b c p : V3 bf,
    bbox_point_inside (triangle_world_bounds a b c) p = bbox_point_inside (triangle_bounds a b c) p.
  Proof. exact (triangle_world_bounds_float prec emax Hprec Hmax). Qed.
End C15_float_transformed.

(** non-vacuity at binary64 and binary32 (Flocq floats): [translate(1,2,3) . scale(2,-1,1/2)], its stored inverse, the box
    [0,1]^3 given by swapped corners, the point (1/2, 1/4, 1) *)
Example C15_float_nonvacuous64 :
  let t := @tr_mul_assign _ NumB64 (tr_translate n1 n2 (nofZ 3)) (tr_scale n2 (- n1)%num nhalf) in
  let b := @bbox_new _ NumB64 (mkV3 n1 n1 n1) (mkV3 n0 n0 n0) in
  @tr_ok_b _ NumB64 (elements t) b = true /\ @tr_ok_b _ NumB64 (inv_elements t) b = true /\
  @bbox_point_inside _ NumB64 b (mkV3 nhalf (nhalf * nhalf)%num n1) = true.
Proof. exact nonvacuous64. Qed.
Example C15_float_nonvacuous32 :
  let t := @tr_mul_assign _ NumB32 (tr_translate n1 n2 (nofZ 3)) (tr_scale n2 (- n1)%num nhalf) in
  let b := @bbox_new _ NumB32 (mkV3 n1 n1 n1) (mkV3 n0 n0 n0) in
  @tr_ok_b _ NumB32 (elements t) b = true /\ @tr_ok_b _ NumB32 (inv_elements t) b = true /\
  @bbox_point_inside _ NumB32 b (mkV3 nhalf (nhalf * nhalf)%num n1) = true.
Proof. exact nonvacuous32. Qed.
