(** * C03, part pflat -- clear hits are reported (there is a single crossing for flat primitives), clear misses are not.
    Exact tier.  "Clear" = outside the code's tolerance bands: |a| >= 100 eps and t > 100 eps (triangle),
    |n.d| >= eps and t > 0 (plane, disk; t = 0 was accepted before fix fb7e7b9); the float <-> real band (relative margin 1e-6) is sampled by the oracle. *)
From Coq Require Import ZArith Reals List.
From G3 Require Import Model.Num Model.Base Model.Vec Model.BBox Model.Transform Model.Hit Model.Segment Model.Triangle
  Model.Plane Model.Disk Model.Distant
  Proofs.C06_transform Proofs.Flat_base Proofs.Flat_polar Proofs.Flat_triangle Proofs.Flat_disk Proofs.Flat_distant Proofs.Flat_examples.
Local Open Scope R_scope.

(** ** triangle: if the ray's line meets the plane of the triangle at parameter t > 100 eps in a point (u, v) of the
    closed triangle and the determinant is outside (-100 eps, 100 eps), exactly that crossing is reported ... *)
Theorem C03_flat_triangle_hit_reported : forall (ray : Ray R) (v0 v1 v2 : V) (t u v : R),
  ~ (- ctiny < tri_det ray v0 v1 v2 < ctiny) ->
  ray_project ray t = tri_point v0 v1 v2 u v -> ctiny < t -> 0 <= u -> 0 <= v -> u + v <= 1 ->
  intersect_triangle ray v0 v1 v2 = Some (ray_project ray t, u, v).
Proof. exact intersect_triangle_complete. Qed.
(** ... if it meets the plane outside the triangle (a barycentric coordinate out of range), or not further than 100 eps
    ahead (in particular behind the origin), nothing is reported; nor in the parallel band *)
Theorem C03_flat_triangle_miss_not_reported : forall (ray : Ray R) (v0 v1 v2 : V) (t u v : R),
  ray_project ray t = tri_point v0 v1 v2 u v -> (u < 0 \/ v < 0 \/ 1 < u + v \/ t <= ctiny) ->
  intersect_triangle ray v0 v1 v2 = None.
Proof. exact intersect_triangle_miss. Qed.
Theorem C03_flat_triangle_parallel_band : forall (ray : Ray R) (v0 v1 v2 : V),
  - ctiny < tri_det ray v0 v1 v2 < ctiny -> intersect_triangle ray v0 v1 v2 = None.
Proof. exact intersect_triangle_parallel. Qed.
Theorem C03_flat_triangle3d_hit_reported : forall (t : Tri R) (ray : Ray R) (tt u v : R),
  ~ (- ctiny < tri_det ray (ta t) (tb t) (tc t) < ctiny) ->
  ray_project ray tt = tri_point (ta t) (tb t) (tc t) u v -> ctiny < tt -> 0 <= u -> 0 <= v -> u + v <= 1 ->
  exists i, tri_intersect t ray = Some i /\ ip i = ray_project ray tt.
Proof. exact tri_intersect_complete. Qed.
Theorem C03_flat_triangle3d_miss_not_reported : forall (t : Tri R) (ray : Ray R) (tt u v : R),
  ray_project ray tt = tri_point (ta t) (tb t) (tc t) u v -> (u < 0 \/ v < 0 \/ 1 < u + v \/ tt <= ctiny) ->
  tri_intersect t ray = None.
Proof. exact tri_intersect_miss. Qed.

(** ** plane *)
Theorem C03_flat_plane_hit_reported : forall (pl : Plane R) (ray : Ray R) (t : R),
  neps <= Rabs (plane_den pl ray) -> vdot (pl_normal pl) (ray_project ray t) = pl_d pl -> 0 < t ->
  plane_intersect pl ray = Some t.
Proof. exact plane_intersect_complete. Qed.
Theorem C03_flat_plane_behind_not_reported : forall (pl : Plane R) (ray : Ray R) (t : R),
  vdot (pl_normal pl) (ray_project ray t) = pl_d pl -> t <= 0 -> plane_intersect pl ray = None.
Proof. exact plane_intersect_behind. Qed.
Theorem C03_flat_plane_parallel_band : forall (pl : Plane R) (ray : Ray R),
  Rabs (plane_den pl ray) < neps -> plane_intersect pl ray = None.
Proof. exact plane_intersect_parallel. Qed.

(** ** disk / annulus / sector *)
Theorem C03_flat_disk_hit_reported : forall (d : Disk R) (ray : Ray R) (t : R), disk_wf d ->
  neps <= Rabs (vdot (dk_normal d) (rdir ray)) -> 0 < t -> on_disk d (ray_project ray t) ->
  disk_basic_intersection d ray = Some (ray_project ray t, disk_phi d (ray_project ray t)).
Proof. exact disk_basic_complete. Qed.
Theorem C03_flat_disk_miss_not_reported : forall (d : Disk R) (ray : Ray R) (t : R), disk_wf d ->
  vdot (dk_normal d) (vsub (ray_project ray t) (dk_centre d)) = 0 ->
  (t <= 0 \/ dk_radius d * dk_radius d < vlen2 (vsub (ray_project ray t) (dk_centre d)) \/
   vlen2 (vsub (ray_project ray t) (dk_centre d)) < dk_inner d * dk_inner d \/ dk_phi_max d < disk_phi d (ray_project ray t)) ->
  disk_basic_intersection d ray = None.
Proof. exact disk_basic_miss. Qed.
Theorem C03_flat_disk_parallel_band : forall (d : Disk R) (ray : Ray R), disk_wf d ->
  Rabs (vdot (dk_normal d) (rdir ray)) < neps -> disk_basic_intersection d ray = None.
Proof. exact disk_basic_parallel. Qed.
(** the sector test read geometrically: the point at polar coordinates (rho > 0, phi in [0, 2 pi)) has [disk_phi] = phi,
    lies in the plane, at distance rho from the centre -- so "phi <= phi_max" is the angular range *)
Theorem C03_flat_disk_phi_is_the_polar_angle : forall (d : Disk R) (rho phi : R), disk_wf d -> 0 < rho -> 0 <= phi < 2 * PI ->
  disk_phi d (disk_point d rho phi) = phi /\ vdot (dk_normal d) (vsub (disk_point d rho phi) (dk_centre d)) = 0 /\
  vlen2 (vsub (disk_point d rho phi) (dk_centre d)) = rho * rho.
Proof. exact disk_phi_of_point. Qed.
(** through the transform: a crossing of the local ray is reported at its image, which is the point of the world ray
    at parameter (nudge dt >= 0) + s; no local crossing, nothing reported *)
Theorem C03_flat_disk_transformed_hit_reported : forall (d : Disk R) (t : T) (ray : Ray R) (s : R),
  disk_wf d -> dk_transform d = Some t -> Inv t ->
  let r' := fst (fst (tr_inv_ray t ray)) in
  neps <= Rabs (vdot (dk_normal d) (rdir r')) -> 0 < s -> on_disk d (ray_project r' s) ->
  disk_simple_intersect d ray = Some (tr_pt t (ray_project r' s)) /\
  exists dt, 0 <= dt /\ tr_pt t (ray_project r' s) = ray_project ray (dt + s).
Proof. exact disk_simple_intersect_complete. Qed.
Theorem C03_flat_disk_transformed_miss : forall (d : Disk R) (ray : Ray R),
  let r' := match dk_transform d with Some t => fst (fst (tr_inv_ray t ray)) | None => fst (fst (tr_inv_ray tr_new ray)) end in
  disk_basic_intersection d r' = None -> disk_simple_intersect d ray = None.
Proof. exact disk_simple_intersect_none. Qed.

(** ** distant source *)
Theorem C03_flat_distant_outside_cone : forall (s : Distant R) (ray : Ray R),
  distant_simple_intersect_local_ray s ray = None <-> vdot (vnormalize (rdir ray)) (ds_direction s) < ds_cos_half_alpha s.
Proof. exact distant_simple_local_none. Qed.
Theorem C03_flat_distant_simple_iff : forall (s : Distant R) (ray : Ray R),
  (exists p, distant_simple_intersect s ray = Some p) <-> ds_cos_half_alpha s <= vdot (vnormalize (rdir ray)) (ds_direction s).
Proof. exact distant_simple_some_iff. Qed.

(** ** non-vacuity: the hypotheses of the "hit reported" theorems are met by concrete inputs *)
Example C03_flat_triangle_nonvacuous :
  intersect_triangle ex_ray_down (ta ex_tri) (tb ex_tri) (tc ex_tri) = Some (ray_project ex_ray_down 1, 1/4, 1/4).
Proof. exact ex_tri_hit_down. Qed.
Example C03_flat_disk_nonvacuous :
  disk_basic_intersection ex_disk ex_ray_down = Some (ray_project ex_ray_down 1, disk_phi ex_disk (ray_project ex_ray_down 1)).
Proof. exact ex_disk_hit_down. Qed.
Example C03_flat_disk_transformed_nonvacuous : exists (d : Disk R) (t : T) (ray : Ray R) (pw : V),
  disk_wf d /\ dk_transform d = Some t /\ Inv t /\ rigid t /\ disk_simple_intersect d ray = Some pw /\ exists i, disk_intersect d ray = Some i.
Proof. exact ex_disk_tr_nonvacuous. Qed.
