(** * C07 on primitive floats.  The C07 runner executes Flocq binary64 itself; the interval operators are ALSO executed
    on [NumF] by the sphere / cylinder runners.  This file states that every one of the 18 operator forms, [sqrt], the
    constructors and the accessors of [ApproxFloat] on primitive floats is the Flocq binary64 run on the [P2B]-images,
    so that each theorem [C07_op] of Properties/C07.v (binary64 instance) applies verbatim to [pI (op I J)].
    [pI] = [P2B] on both bounds.  Axioms: the primitive float / integer specifications.  Statements only. *)
From Coq Require Import ZArith Reals Floats.
From Flocq Require Import Core BinarySingleNaN.
From G3 Require Import Model.Num Model.NumF Model.Base Model.RoundError Theory.PrimBridge Proofs.Bridge_interval.

Theorem C07_prim_run_is_flocq_run : forall (I J : AF prim) (f e : prim),
  (pI (@af_neg _ NumF I) = @af_neg _ NumB64 (pI I) /\ pI (@af_sqrt _ NumF I) = @af_sqrt _ NumB64 (pI I)) /\
  (pI (@af_add _ NumF I J) = @af_add _ NumB64 (pI I) (pI J) /\ pI (@af_sub _ NumF I J) = @af_sub _ NumB64 (pI I) (pI J) /\
   pI (@af_mul _ NumF I J) = @af_mul _ NumB64 (pI I) (pI J) /\ pI (@af_div _ NumF I J) = @af_div _ NumB64 (pI I) (pI J)) /\
  (pI (@af_add_f _ NumF I f) = @af_add_f _ NumB64 (pI I) (P2B f) /\ pI (@af_sub_f _ NumF I f) = @af_sub_f _ NumB64 (pI I) (P2B f) /\
   pI (@af_mul_f _ NumF I f) = @af_mul_f _ NumB64 (pI I) (P2B f) /\ pI (@af_div_f _ NumF I f) = @af_div_f _ NumB64 (pI I) (P2B f)) /\
  (pI (@af_add_assign _ NumF I J) = @af_add_assign _ NumB64 (pI I) (pI J) /\
   pI (@af_sub_assign _ NumF I J) = @af_sub_assign _ NumB64 (pI I) (pI J) /\
   pI (@af_mul_assign _ NumF I J) = @af_mul_assign _ NumB64 (pI I) (pI J) /\
   pI (@af_div_assign _ NumF I J) = @af_div_assign _ NumB64 (pI I) (pI J)) /\
  (pI (@af_add_assign_f _ NumF I f) = @af_add_assign_f _ NumB64 (pI I) (P2B f) /\
   pI (@af_sub_assign_f _ NumF I f) = @af_sub_assign_f _ NumB64 (pI I) (P2B f) /\
   pI (@af_mul_assign_f _ NumF I f) = @af_mul_assign_f _ NumB64 (pI I) (P2B f) /\
   pI (@af_div_assign_f _ NumF I f) = @af_div_assign_f _ NumB64 (pI I) (P2B f)) /\
  (pI (@af_from _ NumF f) = @af_from _ NumB64 (P2B f) /\
   pI (@af_from_value_and_error _ NumF f e) = @af_from_value_and_error _ NumB64 (P2B f) (P2B e) /\
   P2B (@af_midpoint _ NumF I) = @af_midpoint _ NumB64 (pI I) /\
   P2B (@af_absolute_error _ NumF I) = @af_absolute_error _ NumB64 (pI I)).
Proof. exact prim_af_ops. Qed.

(** non-vacuity / sanity on the hardware instance: [1,2] + [3,4] = [nextdown 4, nextup 6] *)
Example C07_prim_example :
  @af_add _ NumF (mkAF 1%float 2%float) (mkAF 3%float 4%float) = mkAF (next_down 4%float) (next_up 6%float).
Proof. exact prim_af_example. Qed.
