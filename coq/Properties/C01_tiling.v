(** * C01 (geometric part) -- "triangulation tiles the polygon exactly".  Statements only; proofs in Proofs/C01_tiling.v.

    Property text: "Whenever triangulating a valid planar polygon (with or without holes, with or without refinement)
    succeeds, every returned triangle lies in the polygon's plane and inside the polygon (never in a hole, never
    outside the outline), has the polygon's normal orientation, no two triangles overlap, and the triangle areas sum
    to the polygon's area.  Together: the triangles tile exactly the polygon's region."

    What is proved here, for [from_polygon] (ear clipping; the refinement steps are NOT covered by this file):
    - (A, every number instance) the instrumented loop [from_polygon_tr] erases to [from_polygon]; a successful run none
      of whose periodic [sanitize] calls changed the vertex list ([stable_run]) is an EAR DECOMPOSITION of the closed
      merged outline L: the triangles are exactly the clipped ears (v[anchor], v[anchor+1], v[anchor+2]) in push order,
      there are |L| - 2 of them, their corners are vertices of L;
    - (B, the reals) in the plane coordinates of ANY frame (o, e1, e2): the shoelace area of L is the sum of the
      triangles' signed areas, the winding number of L about any point along any ray is the sum of the triangles'
      winding numbers = the sum of sign(T) * [q strictly inside T] for generic q;
    - (Thm B, the reduction) IF every returned triangle has the orientation of e1 x e2 (a HYPOTHESIS: it is what the
      property calls "has the polygon's normal orientation"; [C01_positive_normals_suffice] states it on the stored
      normals) THEN the winding number of L about q is the NUMBER of triangles that contain q; hence, for a valid input
      (winding number of the merged outline in {0, 1} off the outline -- the Jordan hypothesis, on the input): no
      triangle covers a point outside the outline or in a hole, no two triangles overlap, every interior point is
      covered, and the absolute triangle areas sum to the polygon's area: the tiling statement.
    - conversely ([C01_negative_ear_breaks_count]) one clockwise ear breaks the count: a point outside the polygon is
      covered by two triangles.

    NOT proved (and why):
    - "is_diagonal implies a counter-clockwise ear": FALSE for the faithful model and the crate, see
      [C01_orientation_refuted] in Properties/C01_mesh.v (known finding C01:orientation:holes).  The orientation of the
      returned triangles is therefore a hypothesis of the reduction; the exact-rational oracle checks it on every run;
    - the Jordan property of the merged outline (winding numbers 0 or 1) is a hypothesis on the input;
    - runs in which a periodic [sanitize] drops a vertex ([C01_ntriangles_eq_refuted]) are excluded from the tiling
      statement by [stable_run]: the dropped vertex is collinear only up to the code's tolerance, the area identity
      then holds up to that tolerance only (finding C01:area-sum:collinear-tolerance).  For such runs only
      [C01_clip_run_general] and [C01_identities_general] (identities with an explicit defect term per sanitize call)
      are proved; no bound on the defect terms is proved;
    - part B is about the exact tier ([K = R]); the floating-point evaluation of the predicates is not covered (part A
      does hold for the floats, being combinatorial);
    - the real instance cannot be executed, so [stable_run] is witnessed on the binary64 instance (the Example),
      whose outline and ears, having small integer coordinates, are then shown to meet every hypothesis of the
      reduction over the reals. *)
From Coq Require Import ZArith Reals List Floats.
From G3 Require Import Model.Num Model.NumF Model.Base Model.Vec Model.Segment Model.Triangle Model.Loop Model.Polygon Model.Triangulation
  Theory.RInst Theory.LoopGeom Proofs.C05_pointtest Proofs.C01_tiling.
From G3 Require Theory.Cyclic Theory.Winding Theory.Shoelace.
Import ListNotations.

(** ** the vocabulary (definitions of Proofs/C01_tiling.v, spelled out) *)
Theorem C01_def_sanitize_unchanged : forall (K : Type) (tr : Trace (K := K)),
  sanitize_unchanged tr <-> Forall (fun p : list (V3 K) * list (V3 K) => fst p = snd p) (snd tr).
Proof. intros. apply iff_refl. Qed.
Theorem C01_def_stable_run : forall (K : Type) (NK : Num K) (P : Poly K) (M : Mesh K),
  stable_run P M <-> exists tr : Trace, from_polygon_tr P = Ok (M, tr) /\ sanitize_unchanged tr.
Proof. intros. apply iff_refl. Qed.
Theorem C01_def_outline_of : forall (K : Type) (NK : Num K) (P : Poly K) (L : Loop K),
  outline_of P L <-> exists Lm : Loop K, poly_get_closed_loop P = Ok Lm /\ snd (loop_close Lm) = Ok tt /\ L = fst (loop_close Lm).
Proof. intros. apply iff_refl. Qed.
Theorem C01_def_projections : forall (o e1 e2 : V3 R) (L : Loop R) (M : Mesh R),
  proj_outline o e1 e2 L = map (plane2 o e1 e2) (verts L) /\
  proj_tris o e1 e2 M = map (fun t => (plane2 o e1 e2 (ta (tp_tri t)), plane2 o e1 e2 (tb (tp_tri t)), plane2 o e1 e2 (tc (tp_tri t)))) (tris M).
Proof. intros. split; reflexivity. Qed.

(** ** (A) every number instance *)
(** (i) erasure: the instrumented function computes [from_polygon] (same outcome, same mesh) *)
Theorem C01_trace_erasure : forall (K : Type) (NK : Num K) (P : Poly K),
  from_polygon P = rmap fst (from_polygon_tr P).
Proof. exact @from_polygon_erase. Qed.
Theorem C01_trace_exists : forall (K : Type) (NK : Num K) (P : Poly K) (M : Mesh K),
  from_polygon P = Ok M <-> exists tr : Trace, from_polygon_tr P = Ok (M, tr).
Proof. exact @from_polygon_has_trace. Qed.
(** (ii) a successful sanitize-stable run is an ear decomposition of the closed merged outline; the triangles are the
    ears, in push order; there are |L| - 2; in the theory's form ([Cyclic.ear_decomp], which stops at a triangle) the
    same ears up to a rotation of the corners (of the last one) *)
Theorem C01_ear_decomposition : forall (K : Type) (NK : Num K) (P : Poly K) (M : Mesh K) (tr : Trace),
  from_polygon_tr P = Ok (M, tr) -> sanitize_unchanged tr ->
  exists Lm : Loop K, poly_get_closed_loop P = Ok Lm /\ snd (loop_close Lm) = Ok tt /\
    let L := fst (loop_close Lm) in
    ear_decomp2 (verts L) (fst tr) /\
    map (fun t => (ta (tp_tri t), tb (tp_tri t), tc (tp_tri t))) (tris M) = fst tr /\
    length (tris M) + 2 = llen L /\
    (3 <= llen L -> exists Ts', Cyclic.ear_decomp (verts L) Ts' /\ Forall2 trot (fst tr) Ts').
Proof. exact @from_polygon_ears. Qed.
Theorem C01_ntriangles_stable : forall (K : Type) (NK : Num K) (P : Poly K) (M : Mesh K) (L : Loop K),
  stable_run P M -> outline_of P L ->
  ear_decomp2 (verts L) (map (fun t => (ta (tp_tri t), tb (tp_tri t), tc (tp_tri t))) (tris M)) /\ length (tris M) + 2 = llen L.
Proof. exact @stable_run_ears. Qed.
(** the general form, whatever [sanitize] does: the run is a sequence of ear steps and of recorded replacements
    (loop before, loop after) of the outline ([clip_run]); the triangles are exactly the ears; when every replacement
    is the identity this is an ear decomposition *)
Theorem C01_clip_run_general : forall (K : Type) (NK : Num K) (P : Poly K) (M : Mesh K) (tr : Trace),
  from_polygon_tr P = Ok (M, tr) ->
  exists Lm : Loop K, poly_get_closed_loop P = Ok Lm /\ snd (loop_close Lm) = Ok tt /\
    clip_run (verts (fst (loop_close Lm))) (fst tr) (snd tr) /\
    map (fun t => (ta (tp_tri t), tb (tp_tri t), tc (tp_tri t))) (tris M) = fst tr.
Proof. exact @from_polygon_clip_run. Qed.
Theorem C01_clip_run_unchanged : forall (A : Type) (L : list A) (Ts : list (A * A * A)) (S : list (list A * list A)),
  clip_run L Ts S -> Forall (fun p => fst p = snd p) S -> ear_decomp2 L Ts.
Proof. exact clip_run_unchanged. Qed.
(** what [ear_decomp2] is: the recursion of [Cyclic.ear_decomp], stopped at two vertices *)
Theorem C01_ear_decomp2_to_theory : forall (A : Type) (L : list A) (Ts : list (A * A * A)),
  ear_decomp2 L Ts -> 3 <= length L -> exists Ts', Cyclic.ear_decomp L Ts' /\ Forall2 trot Ts Ts'.
Proof. exact ear_decomp2_to_ear_decomp. Qed.
(** the stored normal of every triangle is the normalized cross product of its corners, as [Triangle3D::new] computes it *)
Theorem C01_triangle_normals : forall (K : Type) (NK : Num K) (P : Poly K) (M : Mesh K),
  from_polygon P = Ok M ->
  Forall (fun t => tnormal (tp_tri t) = tri_normal_of (ta (tp_tri t)) (tb (tp_tri t)) (tc (tp_tri t))) (tris M).
Proof. exact @from_polygon_normals. Qed.

(** ** (B) the reals: identities, for any frame *)
(** plane coordinates: doubled signed area of a projected triangle = normal component of its cross product;
    shoelace area of a projected chain = normal component of the Newell vector (what [set_area] sums) *)
Theorem C01_orient_is_normal_component : forall (o e1 e2 a b c : V3 R),
  Winding.orient (plane2 o e1 e2 a) (plane2 o e1 e2 b) (plane2 o e1 e2 c) = vdot (vcross e1 e2) (vcross (vsub b a) (vsub c a)).
Proof. exact orient_plane2. Qed.
Theorem C01_area_is_newell : forall (o e1 e2 : V3 R) (vs : list (V3 R)),
  (2 * Shoelace.area2 (map (plane2 o e1 e2) vs) = vdot (vcross e1 e2) (newell vs))%R.
Proof. exact area2_plane2_newell. Qed.
(** for an orthonormal frame: e1 x e2 is a unit vector, and the coordinates are a bijection of the plane onto R^2 *)
Theorem C01_frame_coordinates : forall (o e1 e2 p : V3 R),
  vdot e1 e1 = 1%R -> vdot e2 e2 = 1%R -> vdot e1 e2 = 0%R ->
  vdot (vcross e1 e2) (vcross e1 e2) = 1%R /\
  (vdot (vcross e1 e2) (vsub p o) = 0%R ->
   p = vadd o (vadd (vscale e1 (fst (plane2 o e1 e2 p))) (vscale e2 (snd (plane2 o e1 e2 p))))).
Proof. intros o e1 e2 p H1 H2 H3. split; [exact (frame_unit_normal e1 e2 H1 H2 H3) | exact (frame_reconstruct o e1 e2 p H1 H2 H3)]. Qed.
(** every triangle lies in the plane of the outline *)
Theorem C01_triangles_in_plane : forall (o : V3 R) (P : Poly R) (M : Mesh R) (L : Loop R) (n : V3 R),
  stable_run P M -> outline_of P L -> (forall v, In v (verts L) -> vdot n (vsub v o) = 0%R) ->
  forall t, In t (tris M) ->
    vdot n (vsub (ta (tp_tri t)) o) = 0%R /\ vdot n (vsub (tb (tp_tri t)) o) = 0%R /\ vdot n (vsub (tc (tp_tri t)) o) = 0%R.
Proof. exact ears_in_plane. Qed.
(** signed area: shoelace of the outline = sum of the triangles' doubled signed areas; also frame-free, in space *)
Theorem C01_area_identity : forall (o e1 e2 : V3 R) (P : Poly R) (M : Mesh R) (L : Loop R),
  stable_run P M -> outline_of P L ->
  (2 * Shoelace.area2 (proj_outline o e1 e2 L))%R = Cyclic.tsum 0%R Rplus Winding.orient (proj_tris o e1 e2 M).
Proof. exact ears_area_identity. Qed.
Theorem C01_area_identity_3d : forall (o e1 e2 : V3 R) (P : Poly R) (M : Mesh R) (L : Loop R),
  stable_run P M -> outline_of P L ->
  vdot (vcross e1 e2) (newell (verts L)) =
  fold_right (fun t acc => (vdot (vcross e1 e2) (vcross (vsub (tb (tp_tri t)) (ta (tp_tri t))) (vsub (tc (tp_tri t)) (ta (tp_tri t)))) + acc)%R) 0%R (tris M).
Proof. exact ears_area_identity_3d. Qed.
(** winding number: every ray d, every point q *)
Theorem C01_winding_identity : forall (o e1 e2 : V3 R) (P : Poly R) (M : Mesh R) (L : Loop R),
  stable_run P M -> outline_of P L ->
  forall d q : Winding.P2,
    Winding.wn d (proj_outline o e1 e2 L) q = Cyclic.tsum 0%Z Z.add (fun a b c => Winding.wn d [a; b; c] q) (proj_tris o e1 e2 M).
Proof. exact ears_winding_identity. Qed.
(** ... = sum of sign(T) * [q strictly inside T], for a generic ray and q on the boundary of no non-degenerate triangle *)
Theorem C01_winding_index : forall (o e1 e2 : V3 R) (P : Poly R) (M : Mesh R) (L : Loop R),
  stable_run P M -> outline_of P L ->
  forall d q : Winding.P2, Winding.generic d q (proj_outline o e1 e2 L) ->
    (forall a b c, In (a, b, c) (proj_tris o e1 e2 M) -> Winding.orient a b c <> 0%R -> Winding.off_segs a b c q) ->
    Winding.wn d (proj_outline o e1 e2 L) q = Cyclic.tsum 0%Z Z.add (fun a b c => Winding.tri_index a b c q) (proj_tris o e1 e2 M).
Proof. exact ears_winding_index. Qed.

(** every successful run, stable or not: the same two identities with one defect term per recorded sanitize call,
    (area before - area after) resp. (winding number before - after) of the loop that [sanitize] replaced *)
Theorem C01_identities_general : forall (o e1 e2 : V3 R) (P : Poly R) (M : Mesh R) (tr : Trace),
  from_polygon_tr P = Ok (M, tr) ->
  exists L : Loop R, outline_of P L /\
    (let S2 := map (fun p => (map (plane2 o e1 e2) (fst p), map (plane2 o e1 e2) (snd p))) (snd tr) in
     (2 * Shoelace.area2 (proj_outline o e1 e2 L) =
      Cyclic.tsum 0 Rplus Winding.orient (proj_tris o e1 e2 M) +
      fold_right (fun p acc => (2 * Shoelace.area2 (fst p) - 2 * Shoelace.area2 (snd p)) + acc) 0 S2)%R /\
     (forall d q : Winding.P2,
        Winding.wn d (proj_outline o e1 e2 L) q =
        (Cyclic.tsum 0 Z.add (fun a b c => Winding.wn d [a; b; c] q) (proj_tris o e1 e2 M) +
         fold_right (fun p acc => (Winding.wn d (fst p) q - Winding.wn d (snd p) q) + acc) 0 S2)%Z)).
Proof. exact run_identities_general. Qed.

(** ** (Thm B) the reduction: all returned triangles counter-clockwise w.r.t. e1 x e2 *)
Theorem C01_tiling_count : forall (o e1 e2 : V3 R) (P : Poly R) (M : Mesh R) (L : Loop R),
  stable_run P M -> outline_of P L ->
  (forall a b c, In (a, b, c) (proj_tris o e1 e2 M) -> (0 < Winding.orient a b c)%R) ->
  forall d q : Winding.P2, Winding.generic d q (proj_outline o e1 e2 L) ->
    (forall a b c, In (a, b, c) (proj_tris o e1 e2 M) -> Winding.off_segs a b c q) ->
    Winding.wn d (proj_outline o e1 e2 L) q = Z.of_nat (Winding.count_inside (proj_tris o e1 e2 M) q).
Proof. exact ears_tiling_count. Qed.
(** nothing outside the outline (or in a hole) is covered *)
Theorem C01_tiling_outside : forall (o e1 e2 : V3 R) (P : Poly R) (M : Mesh R) (L : Loop R),
  stable_run P M -> outline_of P L ->
  (forall a b c, In (a, b, c) (proj_tris o e1 e2 M) -> (0 < Winding.orient a b c)%R) ->
  forall d q : Winding.P2, Winding.generic d q (proj_outline o e1 e2 L) ->
    (forall a b c, In (a, b, c) (proj_tris o e1 e2 M) -> Winding.off_segs a b c q) ->
    Winding.wn d (proj_outline o e1 e2 L) q = 0%Z ->
    forall a b c, In (a, b, c) (proj_tris o e1 e2 M) -> ~ Winding.inside_tri a b c q.
Proof. exact ears_tiling_outside. Qed.
(** no two triangles overlap *)
Theorem C01_tiling_no_overlap : forall (o e1 e2 : V3 R) (P : Poly R) (M : Mesh R) (L : Loop R),
  stable_run P M -> outline_of P L ->
  (forall a b c, In (a, b, c) (proj_tris o e1 e2 M) -> (0 < Winding.orient a b c)%R) ->
  forall d q : Winding.P2, Winding.generic d q (proj_outline o e1 e2 L) ->
    (forall a b c, In (a, b, c) (proj_tris o e1 e2 M) -> Winding.off_segs a b c q) ->
    (Winding.wn d (proj_outline o e1 e2 L) q <= 1)%Z ->
    forall (l1 l2 l3 : list (Winding.P2 * Winding.P2 * Winding.P2)) (a b c a' b' c' : Winding.P2),
      proj_tris o e1 e2 M = l1 ++ (a, b, c) :: l2 ++ (a', b', c') :: l3 ->
      Winding.inside_tri a b c q -> Winding.inside_tri a' b' c' q -> False.
Proof. exact ears_tiling_no_overlap. Qed.
(** every interior point is covered *)
Theorem C01_tiling_cover : forall (o e1 e2 : V3 R) (P : Poly R) (M : Mesh R) (L : Loop R),
  stable_run P M -> outline_of P L ->
  (forall a b c, In (a, b, c) (proj_tris o e1 e2 M) -> (0 < Winding.orient a b c)%R) ->
  forall d q : Winding.P2, Winding.generic d q (proj_outline o e1 e2 L) ->
    (forall a b c, In (a, b, c) (proj_tris o e1 e2 M) -> Winding.off_segs a b c q) ->
    (0 < Winding.wn d (proj_outline o e1 e2 L) q)%Z ->
    exists a b c, In (a, b, c) (proj_tris o e1 e2 M) /\ Winding.inside_tri a b c q.
Proof. exact ears_tiling_cover. Qed.
(** together, for a valid input (0 <= wn <= 1): q is covered iff it is inside, then by exactly one triangle *)
Theorem C01_tile_exactly : forall (o e1 e2 : V3 R) (P : Poly R) (M : Mesh R) (L : Loop R),
  stable_run P M -> outline_of P L ->
  (forall a b c, In (a, b, c) (proj_tris o e1 e2 M) -> (0 < Winding.orient a b c)%R) ->
  forall d q : Winding.P2, Winding.generic d q (proj_outline o e1 e2 L) ->
    (forall a b c, In (a, b, c) (proj_tris o e1 e2 M) -> Winding.off_segs a b c q) ->
    (0 <= Winding.wn d (proj_outline o e1 e2 L) q <= 1)%Z ->
    (Winding.wn d (proj_outline o e1 e2 L) q = 1%Z <-> exists a b c, In (a, b, c) (proj_tris o e1 e2 M) /\ Winding.inside_tri a b c q) /\
    Winding.count_inside (proj_tris o e1 e2 M) q = (if Z.eqb (Winding.wn d (proj_outline o e1 e2 L) q) 1 then 1 else 0) /\
    (forall (l1 l2 l3 : list (Winding.P2 * Winding.P2 * Winding.P2)) (a b c a' b' c' : Winding.P2),
       proj_tris o e1 e2 M = l1 ++ (a, b, c) :: l2 ++ (a', b', c') :: l3 ->
       Winding.inside_tri a b c q -> Winding.inside_tri a' b' c' q -> False).
Proof. exact ears_tile_exactly. Qed.
(** the triangle areas sum to the polygon's area (which is positive) *)
Theorem C01_area_sum : forall (o e1 e2 : V3 R) (P : Poly R) (M : Mesh R) (L : Loop R),
  stable_run P M -> outline_of P L ->
  (forall a b c, In (a, b, c) (proj_tris o e1 e2 M) -> (0 < Winding.orient a b c)%R) ->
  Shoelace.area2 (proj_outline o e1 e2 L) = Cyclic.tsum 0%R Rplus (fun a b c => Rabs (Shoelace.area2 [a; b; c])) (proj_tris o e1 e2 M).
Proof. exact ears_area_sum. Qed.
Theorem C01_area_positive : forall (o e1 e2 : V3 R) (P : Poly R) (M : Mesh R) (L : Loop R),
  stable_run P M -> outline_of P L ->
  (forall a b c, In (a, b, c) (proj_tris o e1 e2 M) -> (0 < Winding.orient a b c)%R) ->
  1 <= length (tris M) -> (0 < Shoelace.area2 (proj_outline o e1 e2 L))%R.
Proof. exact ears_area_positive. Qed.
(** the orientation hypothesis on the stored normals: "every returned triangle has the polygon's normal orientation" *)
Theorem C01_positive_normals_suffice : forall (o e1 e2 : V3 R) (P : Poly R) (M : Mesh R),
  from_polygon P = Ok M -> (forall t, In t (tris M) -> (0 < vdot (vcross e1 e2) (tnormal (tp_tri t)))%R) ->
  forall a b c, In (a, b, c) (proj_tris o e1 e2 M) -> (0 < Winding.orient a b c)%R.
Proof. exact positive_normals_positive_ears. Qed.
(** the reduction in the theory library's own form ([Winding.tiling_of_positive_ears], point off the edge LINES) *)
Theorem C01_tiling_count_via_theory : forall (L : list Winding.P2) (Ts : list (Winding.P2 * Winding.P2 * Winding.P2)) (d q : Winding.P2),
  ear_decomp2 L Ts -> 3 <= length L -> Winding.generic d q L ->
  (forall a b c, In (a, b, c) Ts -> (0 < Winding.orient a b c)%R /\ Winding.off_lines a b c q) ->
  exists Ts', Cyclic.ear_decomp L Ts' /\ Forall2 trot Ts Ts' /\
    Winding.wn d L q = Z.of_nat (Winding.count_inside Ts' q) /\ Winding.count_inside Ts' q = Winding.count_inside Ts q.
Proof. exact ed2_count_via_theory. Qed.

(** ** the orientation hypothesis cannot be dropped: with one clockwise ear a point outside is covered twice *)
Theorem C01_negative_ear_breaks_count :
  exists (L : list Winding.P2) (Ts : list (Winding.P2 * Winding.P2 * Winding.P2)) (d q : Winding.P2),
    ear_decomp2 L Ts /\ Winding.generic d q L /\ (forall a b c, In (a, b, c) Ts -> Winding.off_lines a b c q) /\
    (exists a b c, In (a, b, c) Ts /\ (Winding.orient a b c < 0)%R) /\
    Winding.wn d L q = 0%Z /\ Winding.count_inside Ts q = 2.
Proof. exact negative_ear_breaks_count. Qed.

(** ** non-vacuity: the cross-shaped dodecagon (1,0) (2,0) (2,1) (3,1) (3,2) (2,2) (2,3) (1,3) (1,2) (0,2) (0,1) (1,1).
    On the binary64 instance: success, 10 triangles = the 10 ears [ex_ears], one [sanitize] call (10th pass), vertex
    list unchanged.  Over the reals the same outline and ears: an ear decomposition, every ear counter-clockwise,
    q = (5/4, 8/5) with the ray (1, 0) generic and on no edge line; winding number 1 = one ear contains q; area 5. *)
Example C01_tiling_nonvacuous :
  (exists (M : Mesh float) (tr : Trace) (Lm : Loop float),
     from_polygon_tr ex_poly = Ok (M, tr) /\ sanitize_unchanged tr /\ length (snd tr) = 1 /\
     poly_get_closed_loop ex_poly = Ok Lm /\ snd (loop_close Lm) = Ok tt /\
     verts (fst (loop_close Lm)) = map zp ex_coords /\ fst tr = map (map3 zp) ex_ears /\ length (tris M) = 10) /\
  (let L2 := map zr ex_coords in let Ts := map (map3 zr) ex_ears in
   ear_decomp2 L2 Ts /\ Winding.generic ex_d ex_q L2 /\
   (forall a b c, In (a, b, c) Ts -> (0 < Winding.orient a b c)%R /\ Winding.off_segs a b c ex_q) /\
   Winding.wn ex_d L2 ex_q = 1%Z /\ Winding.count_inside Ts ex_q = 1 /\ Shoelace.area2 L2 = 5%R).
Proof. split; [exact ex_run | exact ex_hypotheses]. Qed.
