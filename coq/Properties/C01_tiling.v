(** * C01 (geometric part) -- "triangulation tiles the polygon exactly".  Statements only; proofs in Proofs/C01_tiling.v.

    Property text: "Whenever triangulating a valid planar polygon (with or without holes, with or without refinement)
    succeeds, every returned triangle lies in the polygon's plane and inside the polygon (never in a hole, never
    outside the outline), has the polygon's normal orientation, no two triangles overlap, and the triangle areas sum
    to the polygon's area.  Together: the triangles tile exactly the polygon's region."

    What is proved here, for [from_polygon] (ear clipping; the refinement steps are NOT covered by this file):
    - (A, every number instance) the instrumented loop [from_polygon_tr] erases to [from_polygon]; a successful run none
      of whose periodic [sanitize] calls changed the vertex list ([stable_run]) is an EAR DECOMPOSITION of the closed
      merged outline L: the triangles are exactly the clipped ears (v[anchor], v[anchor+1], v[anchor+2]) in push order,
      there are |L| - 2 of them, their corners are vertices of L;
    - (B, the reals) in the plane coordinates of ANY frame (o, e1, e2): the shoelace area of L is the sum of the
      triangles' signed areas, the winding number of L about any point along any ray is the sum of the triangles'
      winding numbers = the sum of sign(T) * [q strictly inside T] for generic q;
    - (the ear test, fix 4bb2ed8 of the crate; every number instance) every clipped ear -- every returned triangle --
      passed [ear_convex] (((v1 - v0) x (v2 - v1)) . normal > 0), is non-collinear, its chord was a diagonal of the loop
      at that moment and no other vertex of that loop lies in it ([C01_ears_checked], [C01_ears_convex]); over the reals,
      when the polygon's normal is a positive multiple of e1 x e2, every returned triangle is counter-clockwise in the
      plane coordinates ([C01_ears_positive]): "has the polygon's normal orientation" is PROVED;
    - (Thm B, the reduction) the winding number of L about q is then the NUMBER of triangles that contain q
      ([C01_tiling_count_proved]); hence, for a valid input (winding number of the merged outline in {0, 1} off the
      outline -- the Jordan hypothesis, on the input): no triangle covers a point outside the outline or in a hole, no
      two triangles overlap, every interior point is covered ([C01_tile_exactly_proved]), and the absolute triangle
      areas sum to the polygon's area ([C01_area_sum_proved]): the tiling statement.  The conditional forms (orientation
      as a hypothesis on the projected triangles or on the stored normals, any frame) are kept;
    - ([C01_negative_ear_breaks_count], pure geometry) the reduction does need the orientation: one clockwise ear breaks
      the count, a point outside the polygon is covered by two triangles.

    NOT proved (and why):
    - the Jordan property of the merged outline (winding numbers 0 or 1) is a hypothesis on the input;
    - runs in which a periodic [sanitize] drops a vertex ([C01_sanitize_can_change]) are excluded from the tiling
      statement by [stable_run]: the dropped vertex is collinear only up to the code's tolerance, the area identity
      then holds up to that tolerance only (finding C01:area-sum:collinear-tolerance).  For such runs only
      [C01_clip_run_general] and [C01_identities_general] (identities with an explicit defect term per sanitize call)
      are proved; no bound on the defect terms is proved;
    - part B is about the exact tier ([K = R]); the floating-point evaluation of the predicates is not covered (part A
      does hold for the floats, being combinatorial);
    - the real instance cannot be executed, so [stable_run] is witnessed on the binary64 instance (the two Examples:
      a cross-shaped dodecagon, and the unit square with a triangular hole), whose outlines and ears are then shown to
      meet every hypothesis of the reduction over the reals. *)
From Coq Require Import ZArith Reals List Floats.
From G3 Require Import Model.Num Model.NumF Model.Base Model.Vec Model.Segment Model.Triangle Model.Loop Model.Polygon Model.Triangulation
  Theory.RInst Theory.LoopGeom Proofs.C05_pointtest Proofs.C01_tiling.
From G3 Require Proofs.Mesh_witness.
From G3 Require Import Model.PolyAux Proofs.C12_region Proofs.C01_polygon.
From G3 Require Theory.Cyclic Theory.Winding Theory.Shoelace.
Import ListNotations.

(** ** the vocabulary (definitions of Proofs/C01_tiling.v, spelled out) *)
Theorem C01_def_sanitize_unchanged : forall (K : Type) (tr : Trace (K := K)),
  sanitize_unchanged tr <-> Forall (fun p : list (V3 K) * list (V3 K) => fst p = snd p) (snd tr).
Proof. intros. apply iff_refl. Qed.
Theorem C01_def_stable_run : forall (K : Type) (NK : Num K) (P : Poly K) (M : Mesh K),
  stable_run P M <-> exists tr : Trace, from_polygon_tr P = Ok (M, tr) /\ sanitize_unchanged tr.
Proof. intros. apply iff_refl. Qed.
Theorem C01_def_outline_of : forall (K : Type) (NK : Num K) (P : Poly K) (L : Loop K),
  outline_of P L <-> exists Lm : Loop K, poly_get_closed_loop P = Ok Lm /\ snd (loop_close Lm) = Ok tt /\ L = fst (loop_close Lm).
Proof. intros. apply iff_refl. Qed.
Theorem C01_def_projections : forall (o e1 e2 : V3 R) (L : Loop R) (M : Mesh R),
  proj_outline o e1 e2 L = map (plane2 o e1 e2) (verts L) /\
  proj_tris o e1 e2 M = map (fun t => (plane2 o e1 e2 (ta (tp_tri t)), plane2 o e1 e2 (tb (tp_tri t)), plane2 o e1 e2 (tc (tp_tri t)))) (tris M).
Proof. intros. split; reflexivity. Qed.

(** ** (A) every number instance *)
(** (i) erasure: the instrumented function computes [from_polygon] (same outcome, same mesh) *)
Theorem C01_trace_erasure : forall (K : Type) (NK : Num K) (P : Poly K),
  from_polygon P = rmap fst (from_polygon_tr P).
Proof. exact @from_polygon_erase. Qed.
Theorem C01_trace_exists : forall (K : Type) (NK : Num K) (P : Poly K) (M : Mesh K),
  from_polygon P = Ok M <-> exists tr : Trace, from_polygon_tr P = Ok (M, tr).
Proof. exact @from_polygon_has_trace. Qed.
(** (ii) a successful sanitize-stable run is an ear decomposition of the closed merged outline; the triangles are the
    ears, in push order; there are |L| - 2; in the theory's form ([Cyclic.ear_decomp], which stops at a triangle) the
    same ears up to a rotation of the corners (of the last one) *)
Theorem C01_ear_decomposition : forall (K : Type) (NK : Num K) (P : Poly K) (M : Mesh K) (tr : Trace),
  from_polygon_tr P = Ok (M, tr) -> sanitize_unchanged tr ->
  exists Lm : Loop K, poly_get_closed_loop P = Ok Lm /\ snd (loop_close Lm) = Ok tt /\
    let L := fst (loop_close Lm) in
    ear_decomp2 (verts L) (fst tr) /\
    map (fun t => (ta (tp_tri t), tb (tp_tri t), tc (tp_tri t))) (tris M) = fst tr /\
    length (tris M) + 2 = llen L /\
    (3 <= llen L -> exists Ts', Cyclic.ear_decomp (verts L) Ts' /\ Forall2 trot (fst tr) Ts').
Proof. exact @from_polygon_ears. Qed.
Theorem C01_ntriangles_stable : forall (K : Type) (NK : Num K) (P : Poly K) (M : Mesh K) (L : Loop K),
  stable_run P M -> outline_of P L ->
  ear_decomp2 (verts L) (map (fun t => (ta (tp_tri t), tb (tp_tri t), tc (tp_tri t))) (tris M)) /\ length (tris M) + 2 = llen L.
Proof. exact @stable_run_ears. Qed.
(** the general form, whatever [sanitize] does: the run is a sequence of ear steps and of recorded replacements
    (loop before, loop after) of the outline ([clip_run]); the triangles are exactly the ears; when every replacement
    is the identity this is an ear decomposition *)
Theorem C01_clip_run_general : forall (K : Type) (NK : Num K) (P : Poly K) (M : Mesh K) (tr : Trace),
  from_polygon_tr P = Ok (M, tr) ->
  exists Lm : Loop K, poly_get_closed_loop P = Ok Lm /\ snd (loop_close Lm) = Ok tt /\
    clip_run (verts (fst (loop_close Lm))) (fst tr) (snd tr) /\
    map (fun t => (ta (tp_tri t), tb (tp_tri t), tc (tp_tri t))) (tris M) = fst tr.
Proof. exact @from_polygon_clip_run. Qed.
Theorem C01_clip_run_unchanged : forall (A : Type) (L : list A) (Ts : list (A * A * A)) (S : list (list A * list A)),
  clip_run L Ts S -> Forall (fun p => fst p = snd p) S -> ear_decomp2 L Ts.
Proof. exact clip_run_unchanged. Qed.
(** what [ear_decomp2] is: the recursion of [Cyclic.ear_decomp], stopped at two vertices *)
Theorem C01_ear_decomp2_to_theory : forall (A : Type) (L : list A) (Ts : list (A * A * A)),
  ear_decomp2 L Ts -> 3 <= length L -> exists Ts', Cyclic.ear_decomp L Ts' /\ Forall2 trot Ts Ts'.
Proof. exact ear_decomp2_to_ear_decomp. Qed.
(** the stored normal of every triangle is the normalized cross product of its corners, as [Triangle3D::new] computes it *)
Theorem C01_triangle_normals : forall (K : Type) (NK : Num K) (P : Poly K) (M : Mesh K),
  from_polygon P = Ok M ->
  Forall (fun t => tnormal (tp_tri t) = tri_normal_of (ta (tp_tri t)) (tb (tp_tri t)) (tc (tp_tri t))) (tris M).
Proof. exact @from_polygon_normals. Qed.

(** ** the ear test (fix 4bb2ed8): what every clipped ear has passed, on every number instance *)
Theorem C01_def_ear_ok : forall (K : Type) (NK : Num K) (P : Poly K) (l : list (V3 K)) (v0 v1 v2 : V3 K),
  ear_ok P l (v0, v1, v2) <->
  (is_collinear v0 v1 v2 = Ok false /\
   (exists Lp : Loop K, verts Lp = l /\ loop_is_diagonal Lp (seg_new v0 v2) = Ok true) /\
   ear_convex P v0 v1 v2 = true /\
   (exists ear : Tri K, tri_new v0 v1 v2 = Ok ear /\ ear_blocked ear v0 v1 v2 l = false)).
Proof. intros. apply iff_refl. Qed.
(** every ear of the trace of a successful run (stable or not) passed the four tests, for the loop at that moment *)
Theorem C01_ears_checked : forall (K : Type) (NK : Num K) (P : Poly K) (M : Mesh K) (tr : Trace),
  from_polygon_tr P = Ok (M, tr) -> Forall (fun e => exists l : list (V3 K), ear_ok P l e) (fst tr).
Proof. exact @from_polygon_ears_checked. Qed.
(** ... in the order of the run: ear steps carrying [ear_ok (loop at that moment) ear], and recorded sanitize replacements *)
Theorem C01_clip_run_checked : forall (K : Type) (NK : Num K) (P : Poly K) (M : Mesh K) (tr : Trace),
  from_polygon_tr P = Ok (M, tr) ->
  exists Lm : Loop K, poly_get_closed_loop P = Ok Lm /\ snd (loop_close Lm) = Ok tt /\
    clip_runP (ear_ok P) (verts (fst (loop_close Lm))) (fst tr) (snd tr) /\
    map (fun t => (ta (tp_tri t), tb (tp_tri t), tc (tp_tri t))) (tris M) = fst tr.
Proof. exact @from_polygon_clip_runP. Qed.
(** every returned triangle is convex for the polygon's normal *)
Theorem C01_ears_convex : forall (K : Type) (NK : Num K) (P : Poly K) (M : Mesh K),
  from_polygon P = Ok M ->
  Forall (fun t => ear_convex P (ta (tp_tri t)) (tb (tp_tri t)) (tc (tp_tri t)) = true) (tris M).
Proof. exact @from_polygon_ears_convex. Qed.
(** what [ear_blocked] = false says: every vertex of the loop is a corner (for Point3D::compare) or Outside the triangle *)
Theorem C01_ear_blocked_false : forall (K : Type) (NK : Num K) (ear : Tri K) (v0 v1 v2 : V3 K) (l : list (V3 K)),
  ear_blocked ear v0 v1 v2 l = false <->
  forall p, In p l -> (vcompare p v0 || vcompare p v1 || vcompare p v2)%bool = true \/ tri_test_point ear p = Outside.
Proof. exact @ear_blocked_false. Qed.
(** ... and over the reals Outside means: one of the barycentric coordinates the code computes is below -100 EPSILON *)
Theorem C01_tri_test_point_outside : forall (t : Tri R) (p : V3 R),
  tri_test_point t p = Outside <->
  (fst (fst (tri_bary t p)) < - ctiny \/ snd (fst (tri_bary t p)) < - ctiny \/ snd (tri_bary t p) < - ctiny)%R.
Proof. exact tri_test_point_outside. Qed.

(** ** (B) the reals: identities, for any frame *)
(** plane coordinates: doubled signed area of a projected triangle = normal component of its cross product;
    shoelace area of a projected chain = normal component of the Newell vector (what [set_area] sums) *)
Theorem C01_orient_is_normal_component : forall (o e1 e2 a b c : V3 R),
  Winding.orient (plane2 o e1 e2 a) (plane2 o e1 e2 b) (plane2 o e1 e2 c) = vdot (vcross e1 e2) (vcross (vsub b a) (vsub c a)).
Proof. exact orient_plane2. Qed.
Theorem C01_area_is_newell : forall (o e1 e2 : V3 R) (vs : list (V3 R)),
  (2 * Shoelace.area2 (map (plane2 o e1 e2) vs) = vdot (vcross e1 e2) (newell vs))%R.
Proof. exact area2_plane2_newell. Qed.
(** for an orthonormal frame: e1 x e2 is a unit vector, and the coordinates are a bijection of the plane onto R^2 *)
Theorem C01_frame_coordinates : forall (o e1 e2 p : V3 R),
  vdot e1 e1 = 1%R -> vdot e2 e2 = 1%R -> vdot e1 e2 = 0%R ->
  vdot (vcross e1 e2) (vcross e1 e2) = 1%R /\
  (vdot (vcross e1 e2) (vsub p o) = 0%R ->
   p = vadd o (vadd (vscale e1 (fst (plane2 o e1 e2 p))) (vscale e2 (snd (plane2 o e1 e2 p))))).
Proof. intros o e1 e2 p H1 H2 H3. split; [exact (frame_unit_normal e1 e2 H1 H2 H3) | exact (frame_reconstruct o e1 e2 p H1 H2 H3)]. Qed.
(** every triangle lies in the plane of the outline *)
Theorem C01_triangles_in_plane : forall (o : V3 R) (P : Poly R) (M : Mesh R) (L : Loop R) (n : V3 R),
  stable_run P M -> outline_of P L -> (forall v, In v (verts L) -> vdot n (vsub v o) = 0%R) ->
  forall t, In t (tris M) ->
    vdot n (vsub (ta (tp_tri t)) o) = 0%R /\ vdot n (vsub (tb (tp_tri t)) o) = 0%R /\ vdot n (vsub (tc (tp_tri t)) o) = 0%R.
Proof. exact ears_in_plane. Qed.
(** signed area: shoelace of the outline = sum of the triangles' doubled signed areas; also frame-free, in space *)
Theorem C01_area_identity : forall (o e1 e2 : V3 R) (P : Poly R) (M : Mesh R) (L : Loop R),
  stable_run P M -> outline_of P L ->
  (2 * Shoelace.area2 (proj_outline o e1 e2 L))%R = Cyclic.tsum 0%R Rplus Winding.orient (proj_tris o e1 e2 M).
Proof. exact ears_area_identity. Qed.
Theorem C01_area_identity_3d : forall (o e1 e2 : V3 R) (P : Poly R) (M : Mesh R) (L : Loop R),
  stable_run P M -> outline_of P L ->
  vdot (vcross e1 e2) (newell (verts L)) =
  fold_right (fun t acc => (vdot (vcross e1 e2) (vcross (vsub (tb (tp_tri t)) (ta (tp_tri t))) (vsub (tc (tp_tri t)) (ta (tp_tri t)))) + acc)%R) 0%R (tris M).
Proof. exact ears_area_identity_3d. Qed.
(** winding number: every ray d, every point q *)
Theorem C01_winding_identity : forall (o e1 e2 : V3 R) (P : Poly R) (M : Mesh R) (L : Loop R),
  stable_run P M -> outline_of P L ->
  forall d q : Winding.P2,
    Winding.wn d (proj_outline o e1 e2 L) q = Cyclic.tsum 0%Z Z.add (fun a b c => Winding.wn d [a; b; c] q) (proj_tris o e1 e2 M).
Proof. exact ears_winding_identity. Qed.
(** ... = sum of sign(T) * [q strictly inside T], for a generic ray and q on the boundary of no non-degenerate triangle *)
Theorem C01_winding_index : forall (o e1 e2 : V3 R) (P : Poly R) (M : Mesh R) (L : Loop R),
  stable_run P M -> outline_of P L ->
  forall d q : Winding.P2, Winding.generic d q (proj_outline o e1 e2 L) ->
    (forall a b c, In (a, b, c) (proj_tris o e1 e2 M) -> Winding.orient a b c <> 0%R -> Winding.off_segs a b c q) ->
    Winding.wn d (proj_outline o e1 e2 L) q = Cyclic.tsum 0%Z Z.add (fun a b c => Winding.tri_index a b c q) (proj_tris o e1 e2 M).
Proof. exact ears_winding_index. Qed.

(** every successful run, stable or not: the same two identities with one defect term per recorded sanitize call,
    (area before - area after) resp. (winding number before - after) of the loop that [sanitize] replaced *)
Theorem C01_identities_general : forall (o e1 e2 : V3 R) (P : Poly R) (M : Mesh R) (tr : Trace),
  from_polygon_tr P = Ok (M, tr) ->
  exists L : Loop R, outline_of P L /\
    (let S2 := map (fun p => (map (plane2 o e1 e2) (fst p), map (plane2 o e1 e2) (snd p))) (snd tr) in
     (2 * Shoelace.area2 (proj_outline o e1 e2 L) =
      Cyclic.tsum 0 Rplus Winding.orient (proj_tris o e1 e2 M) +
      fold_right (fun p acc => (2 * Shoelace.area2 (fst p) - 2 * Shoelace.area2 (snd p)) + acc) 0 S2)%R /\
     (forall d q : Winding.P2,
        Winding.wn d (proj_outline o e1 e2 L) q =
        (Cyclic.tsum 0 Z.add (fun a b c => Winding.wn d [a; b; c] q) (proj_tris o e1 e2 M) +
         fold_right (fun p acc => (Winding.wn d (fst p) q - Winding.wn d (snd p) q) + acc) 0 S2)%Z)).
Proof. exact run_identities_general. Qed.

(** ** (Thm B) the reduction: all returned triangles counter-clockwise w.r.t. e1 x e2 *)
Theorem C01_tiling_count : forall (o e1 e2 : V3 R) (P : Poly R) (M : Mesh R) (L : Loop R),
  stable_run P M -> outline_of P L ->
  (forall a b c, In (a, b, c) (proj_tris o e1 e2 M) -> (0 < Winding.orient a b c)%R) ->
  forall d q : Winding.P2, Winding.generic d q (proj_outline o e1 e2 L) ->
    (forall a b c, In (a, b, c) (proj_tris o e1 e2 M) -> Winding.off_segs a b c q) ->
    Winding.wn d (proj_outline o e1 e2 L) q = Z.of_nat (Winding.count_inside (proj_tris o e1 e2 M) q).
Proof. exact ears_tiling_count. Qed.
(** nothing outside the outline (or in a hole) is covered *)
Theorem C01_tiling_outside : forall (o e1 e2 : V3 R) (P : Poly R) (M : Mesh R) (L : Loop R),
  stable_run P M -> outline_of P L ->
  (forall a b c, In (a, b, c) (proj_tris o e1 e2 M) -> (0 < Winding.orient a b c)%R) ->
  forall d q : Winding.P2, Winding.generic d q (proj_outline o e1 e2 L) ->
    (forall a b c, In (a, b, c) (proj_tris o e1 e2 M) -> Winding.off_segs a b c q) ->
    Winding.wn d (proj_outline o e1 e2 L) q = 0%Z ->
    forall a b c, In (a, b, c) (proj_tris o e1 e2 M) -> ~ Winding.inside_tri a b c q.
Proof. exact ears_tiling_outside. Qed.
(** no two triangles overlap *)
Theorem C01_tiling_no_overlap : forall (o e1 e2 : V3 R) (P : Poly R) (M : Mesh R) (L : Loop R),
  stable_run P M -> outline_of P L ->
  (forall a b c, In (a, b, c) (proj_tris o e1 e2 M) -> (0 < Winding.orient a b c)%R) ->
  forall d q : Winding.P2, Winding.generic d q (proj_outline o e1 e2 L) ->
    (forall a b c, In (a, b, c) (proj_tris o e1 e2 M) -> Winding.off_segs a b c q) ->
    (Winding.wn d (proj_outline o e1 e2 L) q <= 1)%Z ->
    forall (l1 l2 l3 : list (Winding.P2 * Winding.P2 * Winding.P2)) (a b c a' b' c' : Winding.P2),
      proj_tris o e1 e2 M = l1 ++ (a, b, c) :: l2 ++ (a', b', c') :: l3 ->
      Winding.inside_tri a b c q -> Winding.inside_tri a' b' c' q -> False.
Proof. exact ears_tiling_no_overlap. Qed.
(** every interior point is covered *)
Theorem C01_tiling_cover : forall (o e1 e2 : V3 R) (P : Poly R) (M : Mesh R) (L : Loop R),
  stable_run P M -> outline_of P L ->
  (forall a b c, In (a, b, c) (proj_tris o e1 e2 M) -> (0 < Winding.orient a b c)%R) ->
  forall d q : Winding.P2, Winding.generic d q (proj_outline o e1 e2 L) ->
    (forall a b c, In (a, b, c) (proj_tris o e1 e2 M) -> Winding.off_segs a b c q) ->
    (0 < Winding.wn d (proj_outline o e1 e2 L) q)%Z ->
    exists a b c, In (a, b, c) (proj_tris o e1 e2 M) /\ Winding.inside_tri a b c q.
Proof. exact ears_tiling_cover. Qed.
(** together, for a valid input (0 <= wn <= 1): q is covered iff it is inside, then by exactly one triangle *)
Theorem C01_tile_exactly : forall (o e1 e2 : V3 R) (P : Poly R) (M : Mesh R) (L : Loop R),
  stable_run P M -> outline_of P L ->
  (forall a b c, In (a, b, c) (proj_tris o e1 e2 M) -> (0 < Winding.orient a b c)%R) ->
  forall d q : Winding.P2, Winding.generic d q (proj_outline o e1 e2 L) ->
    (forall a b c, In (a, b, c) (proj_tris o e1 e2 M) -> Winding.off_segs a b c q) ->
    (0 <= Winding.wn d (proj_outline o e1 e2 L) q <= 1)%Z ->
    (Winding.wn d (proj_outline o e1 e2 L) q = 1%Z <-> exists a b c, In (a, b, c) (proj_tris o e1 e2 M) /\ Winding.inside_tri a b c q) /\
    Winding.count_inside (proj_tris o e1 e2 M) q = (if Z.eqb (Winding.wn d (proj_outline o e1 e2 L) q) 1 then 1 else 0) /\
    (forall (l1 l2 l3 : list (Winding.P2 * Winding.P2 * Winding.P2)) (a b c a' b' c' : Winding.P2),
       proj_tris o e1 e2 M = l1 ++ (a, b, c) :: l2 ++ (a', b', c') :: l3 ->
       Winding.inside_tri a b c q -> Winding.inside_tri a' b' c' q -> False).
Proof. exact ears_tile_exactly. Qed.
(** the triangle areas sum to the polygon's area (which is positive) *)
Theorem C01_area_sum : forall (o e1 e2 : V3 R) (P : Poly R) (M : Mesh R) (L : Loop R),
  stable_run P M -> outline_of P L ->
  (forall a b c, In (a, b, c) (proj_tris o e1 e2 M) -> (0 < Winding.orient a b c)%R) ->
  Shoelace.area2 (proj_outline o e1 e2 L) = Cyclic.tsum 0%R Rplus (fun a b c => Rabs (Shoelace.area2 [a; b; c])) (proj_tris o e1 e2 M).
Proof. exact ears_area_sum. Qed.
Theorem C01_area_positive : forall (o e1 e2 : V3 R) (P : Poly R) (M : Mesh R) (L : Loop R),
  stable_run P M -> outline_of P L ->
  (forall a b c, In (a, b, c) (proj_tris o e1 e2 M) -> (0 < Winding.orient a b c)%R) ->
  1 <= length (tris M) -> (0 < Shoelace.area2 (proj_outline o e1 e2 L))%R.
Proof. exact ears_area_positive. Qed.
(** the orientation hypothesis stated on the stored normals (conditional form, any frame) *)
Theorem C01_positive_normals_suffice : forall (o e1 e2 : V3 R) (P : Poly R) (M : Mesh R),
  from_polygon P = Ok M -> (forall t, In t (tris M) -> (0 < vdot (vcross e1 e2) (tnormal (tp_tri t)))%R) ->
  forall a b c, In (a, b, c) (proj_tris o e1 e2 M) -> (0 < Winding.orient a b c)%R.
Proof. exact positive_normals_positive_ears. Qed.
(** ** the orientation is PROVED when the polygon's normal is a positive multiple of the frame normal *)
Theorem C01_def_frame_normal : forall (e1 e2 : V3 R) (P : Poly R),
  frame_normal e1 e2 P <-> exists k : R, (0 < k)%R /\ pnormal P = vscale (vcross e1 e2) k.
Proof. intros. apply iff_refl. Qed.
Theorem C01_frame_normal_eq : forall (e1 e2 : V3 R) (P : Poly R), pnormal P = vcross e1 e2 -> frame_normal e1 e2 P.
Proof. exact frame_normal_eq. Qed.
(** [ear_convex] is 0 < orient of the projected ear *)
Theorem C01_ear_convex_orient : forall (o e1 e2 : V3 R) (P : Poly R) (a b c : V3 R),
  frame_normal e1 e2 P -> ear_convex P a b c = true ->
  (0 < Winding.orient (plane2 o e1 e2 a) (plane2 o e1 e2 b) (plane2 o e1 e2 c))%R.
Proof. exact ear_convex_orient. Qed.
(** every returned triangle of every successful run is counter-clockwise in the plane coordinates *)
Theorem C01_ears_positive : forall (o e1 e2 : V3 R) (P : Poly R) (M : Mesh R),
  from_polygon P = Ok M -> frame_normal e1 e2 P ->
  forall a b c, In (a, b, c) (proj_tris o e1 e2 M) -> (0 < Winding.orient a b c)%R.
Proof. exact ears_positive. Qed.
(** the reduction, the exact tiling and the area sum WITHOUT an orientation hypothesis *)
Theorem C01_tiling_count_proved : forall (o e1 e2 : V3 R) (P : Poly R) (M : Mesh R) (L : Loop R),
  stable_run P M -> outline_of P L -> frame_normal e1 e2 P ->
  forall d q : Winding.P2, Winding.generic d q (proj_outline o e1 e2 L) ->
    (forall a b c, In (a, b, c) (proj_tris o e1 e2 M) -> Winding.off_segs a b c q) ->
    Winding.wn d (proj_outline o e1 e2 L) q = Z.of_nat (Winding.count_inside (proj_tris o e1 e2 M) q).
Proof. exact ears_tiling_count_proved. Qed.
Theorem C01_tile_exactly_proved : forall (o e1 e2 : V3 R) (P : Poly R) (M : Mesh R) (L : Loop R),
  stable_run P M -> outline_of P L -> frame_normal e1 e2 P ->
  forall d q : Winding.P2, Winding.generic d q (proj_outline o e1 e2 L) ->
    (forall a b c, In (a, b, c) (proj_tris o e1 e2 M) -> Winding.off_segs a b c q) ->
    (0 <= Winding.wn d (proj_outline o e1 e2 L) q <= 1)%Z ->
    (Winding.wn d (proj_outline o e1 e2 L) q = 1%Z <-> exists a b c, In (a, b, c) (proj_tris o e1 e2 M) /\ Winding.inside_tri a b c q) /\
    Winding.count_inside (proj_tris o e1 e2 M) q = (if Z.eqb (Winding.wn d (proj_outline o e1 e2 L) q) 1 then 1 else 0) /\
    (forall (l1 l2 l3 : list (Winding.P2 * Winding.P2 * Winding.P2)) (a b c a' b' c' : Winding.P2),
       proj_tris o e1 e2 M = l1 ++ (a, b, c) :: l2 ++ (a', b', c') :: l3 ->
       Winding.inside_tri a b c q -> Winding.inside_tri a' b' c' q -> False).
Proof. exact ears_tile_exactly_proved. Qed.
Theorem C01_area_sum_proved : forall (o e1 e2 : V3 R) (P : Poly R) (M : Mesh R) (L : Loop R),
  stable_run P M -> outline_of P L -> frame_normal e1 e2 P ->
  Shoelace.area2 (proj_outline o e1 e2 L) = Cyclic.tsum 0%R Rplus (fun a b c => Rabs (Shoelace.area2 [a; b; c])) (proj_tris o e1 e2 M).
Proof. exact ears_area_sum_proved. Qed.
Theorem C01_area_positive_proved : forall (o e1 e2 : V3 R) (P : Poly R) (M : Mesh R) (L : Loop R),
  stable_run P M -> outline_of P L -> frame_normal e1 e2 P ->
  1 <= length (tris M) -> (0 < Shoelace.area2 (proj_outline o e1 e2 L))%R.
Proof. exact ears_area_positive_proved. Qed.

(** the reduction in the theory library's own form ([Winding.tiling_of_positive_ears], point off the edge LINES) *)
Theorem C01_tiling_count_via_theory : forall (L : list Winding.P2) (Ts : list (Winding.P2 * Winding.P2 * Winding.P2)) (d q : Winding.P2),
  ear_decomp2 L Ts -> 3 <= length L -> Winding.generic d q L ->
  (forall a b c, In (a, b, c) Ts -> (0 < Winding.orient a b c)%R /\ Winding.off_lines a b c q) ->
  exists Ts', Cyclic.ear_decomp L Ts' /\ Forall2 trot Ts Ts' /\
    Winding.wn d L q = Z.of_nat (Winding.count_inside Ts' q) /\ Winding.count_inside Ts' q = Winding.count_inside Ts q.
Proof. exact ed2_count_via_theory. Qed.

(** ** the reduction needs the orientation (pure geometry): with one clockwise ear a point outside is covered twice *)
Theorem C01_negative_ear_breaks_count :
  exists (L : list Winding.P2) (Ts : list (Winding.P2 * Winding.P2 * Winding.P2)) (d q : Winding.P2),
    ear_decomp2 L Ts /\ Winding.generic d q L /\ (forall a b c, In (a, b, c) Ts -> Winding.off_lines a b c q) /\
    (exists a b c, In (a, b, c) Ts /\ (Winding.orient a b c < 0)%R) /\
    Winding.wn d L q = 0%Z /\ Winding.count_inside Ts q = 2.
Proof. exact negative_ear_breaks_count. Qed.

(** ** non-vacuity: the cross-shaped dodecagon (1,0) (2,0) (2,1) (3,1) (3,2) (2,2) (2,3) (1,3) (1,2) (0,2) (0,1) (1,1).
    On the binary64 instance: success, 10 triangles = the 10 ears [ex_ears], one [sanitize] call (10th pass), vertex
    list unchanged.  Over the reals the same outline and ears: an ear decomposition, every ear counter-clockwise,
    q = (5/4, 8/5) with the ray (1, 0) generic and on no edge line; winding number 1 = one ear contains q; area 5. *)
Example C01_tiling_nonvacuous :
  (exists (M : Mesh float) (tr : Trace) (Lm : Loop float),
     from_polygon_tr ex_poly = Ok (M, tr) /\ sanitize_unchanged tr /\ length (snd tr) = 1 /\
     poly_get_closed_loop ex_poly = Ok Lm /\ snd (loop_close Lm) = Ok tt /\
     verts (fst (loop_close Lm)) = map zp ex_coords /\ fst tr = map (map3 zp) ex_ears /\ length (tris M) = 10) /\
  (let L2 := map zr ex_coords in let Ts := map (map3 zr) ex_ears in
   ear_decomp2 L2 Ts /\ Winding.generic ex_d ex_q L2 /\
   (forall a b c, In (a, b, c) Ts -> (0 < Winding.orient a b c)%R /\ Winding.off_segs a b c ex_q) /\
   Winding.wn ex_d L2 ex_q = 1%Z /\ Winding.count_inside Ts ex_q = 1 /\ Shoelace.area2 L2 = 5%R).
Proof. split; [exact ex_run | exact ex_hypotheses]. Qed.

(** ** non-vacuity with a HOLE: the unit square with the triangular hole (0.3,0.3) (0.45,0.6) (0.6,0.3) ([w1_poly]; before
    fix 4bb2ed8 a reversed ear covered the hole).  Binary64 run: success, merged outline of 9 vertices (read in units of
    1/20 they are [ex2_coords]), 7 = 9 - 2 triangles = [ex2_ears], one [sanitize] call, unchanged, every ear passes
    [ear_convex].  Over the reals (units of 1/20): ear decomposition, every ear counter-clockwise; a point of the region
    has winding number 1 and is covered once; a point IN THE HOLE has winding number 0 and is covered by no triangle;
    area 382 = 400 - 18. *)
Example C01_tiling_nonvacuous_hole :
  (exists (M : Mesh float) (tr : Trace) (Lm : Loop float),
     from_polygon_tr Mesh_witness.w1_poly = Ok (M, tr) /\ sanitize_unchanged tr /\ length (snd tr) = 1 /\
     length (pinner Mesh_witness.w1_poly) = 1 /\
     poly_get_closed_loop Mesh_witness.w1_poly = Ok Lm /\ snd (loop_close Lm) = Ok tt /\
     map fzp20 (verts (fst (loop_close Lm))) = ex2_coords /\ map (map3 fzp20) (fst tr) = ex2_ears /\ length (tris M) = 7 /\
     forallb (fun e => ear_convex Mesh_witness.w1_poly (fst (fst e)) (snd (fst e)) (snd e)) (fst tr) = true) /\
  (let L2 := map zr ex2_coords in let Ts := map (map3 zr) ex2_ears in
   ear_decomp2 L2 Ts /\ (forall a b c, In (a, b, c) Ts -> (0 < Winding.orient a b c)%R) /\
   Winding.generic ex_d ex2_q L2 /\ (forall a b c, In (a, b, c) Ts -> Winding.off_segs a b c ex2_q) /\
   Winding.wn ex_d L2 ex2_q = 1%Z /\ Winding.count_inside Ts ex2_q = 1 /\
   Winding.generic ex_d ex2_qhole L2 /\ (forall a b c, In (a, b, c) Ts -> Winding.off_segs a b c ex2_qhole) /\
   Winding.wn ex_d L2 ex2_qhole = 0%Z /\ (forall a b c, In (a, b, c) Ts -> ~ Winding.inside_tri a b c ex2_qhole) /\
   Shoelace.area2 L2 = 382%R).
Proof. split; [exact ex2_run | exact ex2_hypotheses]. Qed.

(** ** [stable_run] is a genuine restriction: on this 16-vertex comb the 10th pass's [sanitize] drops a vertex that has become
    collinear (the recorded vertex lists differ); the run succeeds with 13 = |L| - 3 triangles, so |triangles| = |L| - 2
    is false in general (it is [C01_ntriangles_stable] for stable runs) *)
Theorem C01_sanitize_can_change :
  exists (P : Poly float) (M : Mesh float) (tr : Trace) (Lm : Loop float),
    from_polygon_tr P = Ok (M, tr) /\ ~ sanitize_unchanged tr /\
    poly_get_closed_loop P = Ok Lm /\ snd (loop_close Lm) = Ok tt /\
    llen (fst (loop_close Lm)) = 16 /\ length (tris M) = 13.
Proof. exists ex3_poly. exact ex3_sanitize_changes. Qed.

(** * The tiling statement in terms of the POLYGON: outer outline and holes (proofs in Proofs/C01_polygon.v).
    Composition of the theorems above (about the closed merged outline) with the region theorems of
    Properties/C12_region.v (merged outline = outer outline minus the holes, each hole "oriented like the outer":
    [oriented n h] = the stored list when the stored normals have the same direction, its reverse otherwise).
    Hypotheses: the two decidable side conditions of C12 ([closed_loop_clean false P], [closed_loop_wf P]; the second
    follows from bounded coordinates, [C12_region_bounded_coords_wf]); [stable_run P M]; [loop_close] keeps the vertex
    list of the merged loop ([close_keeps]); the frame normal e1 x e2 is a positive multiple of the polygon's normal; the
    ray is generic for the polygon's own vertices; q lies on no triangle edge; the Jordan hypotheses on the INPUT loops,
    pointwise at q.  Exact tier. *)
Theorem C01_polygon_def : forall (o e1 e2 : V3 R) (P : Poly R) (d q : Winding.P2) (hs : list (list Winding.P2)),
  poly_outer2 o e1 e2 P = map (plane2 o e1 e2) (verts (pouter P)) /\
  poly_holes2 o e1 e2 P = map (fun h => map (plane2 o e1 e2) (oriented (lnormal (pouter P)) h)) (pinner P) /\
  holes_wn d q hs = fold_right Z.add 0%Z (map (fun l => Winding.wn d l q) hs) /\
  holes_area2 hs = fold_right Rplus 0%R (map Shoelace.area2 hs) /\
  (poly_generic o e1 e2 P d q <->
   forall v, In v (verts (pouter P) ++ flat_map (@verts R) (pinner P)) -> Winding.hgt d q (plane2 o e1 e2 v) <> 0%R) /\
  (close_keeps P <-> forall Lm : Loop R, poly_get_closed_loop P = Ok Lm -> verts (fst (loop_close Lm)) = verts Lm).
Proof. intros. repeat split; intros H; exact H. Qed.

(** the number of triangles containing q = winding number of the outer outline - sum over the holes *)
Theorem C01_polygon_count : forall (o e1 e2 : V3 R) (P : Poly R) (M : Mesh R),
  closed_loop_clean false P = true -> closed_loop_wf P = true -> stable_run P M -> close_keeps P -> frame_normal e1 e2 P ->
  forall d q : Winding.P2, poly_generic o e1 e2 P d q ->
    (forall a b c, In (a, b, c) (proj_tris o e1 e2 M) -> Winding.off_segs a b c q) ->
    Z.of_nat (Winding.count_inside (proj_tris o e1 e2 M) q) =
    (Winding.wn d (poly_outer2 o e1 e2 P) q - holes_wn d q (poly_holes2 o e1 e2 P))%Z.
Proof. exact polygon_count. Qed.
(** the exact tiling.  Jordan hypotheses on the input at q: the outer outline winds 0 or 1 times, every hole (oriented like
    the outer) winds >= 0 times, the holes together at most as often as the outer (holes inside the outer, pairwise
    disjoint).  Then: a point of the region (inside the outer, in no hole) lies in exactly one triangle; a point outside
    the outer outline or in a hole lies in none; no two triangles overlap; in general the count is wn outer - sum holes *)
Theorem C01_polygon_tile_exactly : forall (o e1 e2 : V3 R) (P : Poly R) (M : Mesh R),
  closed_loop_clean false P = true -> closed_loop_wf P = true -> stable_run P M -> close_keeps P -> frame_normal e1 e2 P ->
  forall d q : Winding.P2, poly_generic o e1 e2 P d q ->
    (forall a b c, In (a, b, c) (proj_tris o e1 e2 M) -> Winding.off_segs a b c q) ->
    (0 <= Winding.wn d (poly_outer2 o e1 e2 P) q <= 1)%Z ->
    (forall l, In l (poly_holes2 o e1 e2 P) -> (0 <= Winding.wn d l q)%Z) ->
    (holes_wn d q (poly_holes2 o e1 e2 P) <= Winding.wn d (poly_outer2 o e1 e2 P) q)%Z ->
    (Winding.wn d (poly_outer2 o e1 e2 P) q = 1%Z -> (forall l, In l (poly_holes2 o e1 e2 P) -> Winding.wn d l q = 0%Z) ->
       Winding.count_inside (proj_tris o e1 e2 M) q = 1 /\
       exists a b c, In (a, b, c) (proj_tris o e1 e2 M) /\ Winding.inside_tri a b c q) /\
    (Winding.wn d (poly_outer2 o e1 e2 P) q = 0%Z \/ (exists l, In l (poly_holes2 o e1 e2 P) /\ (0 < Winding.wn d l q)%Z) ->
       Winding.count_inside (proj_tris o e1 e2 M) q = 0 /\
       forall a b c, In (a, b, c) (proj_tris o e1 e2 M) -> ~ Winding.inside_tri a b c q) /\
    (forall (l1 l2 l3 : list (Winding.P2 * Winding.P2 * Winding.P2)) (a b c a' b' c' : Winding.P2),
       proj_tris o e1 e2 M = l1 ++ (a, b, c) :: l2 ++ (a', b', c') :: l3 ->
       Winding.inside_tri a b c q -> Winding.inside_tri a' b' c' q -> False) /\
    Winding.count_inside (proj_tris o e1 e2 M) q =
    Z.to_nat (Winding.wn d (poly_outer2 o e1 e2 P) q - holes_wn d q (poly_holes2 o e1 e2 P)).
Proof. exact polygon_tile_exactly. Qed.
(** the areas: sum of the absolute triangle areas = area of the outer outline - areas of the holes (plane coordinates) ... *)
Theorem C01_polygon_area_sum : forall (o e1 e2 : V3 R) (P : Poly R) (M : Mesh R),
  closed_loop_clean false P = true -> closed_loop_wf P = true -> stable_run P M -> close_keeps P -> frame_normal e1 e2 P ->
  Cyclic.tsum 0%R Rplus (fun a b c => Rabs (Shoelace.area2 [a; b; c])) (proj_tris o e1 e2 M) =
  (Shoelace.area2 (poly_outer2 o e1 e2 P) - holes_area2 (poly_holes2 o e1 e2 P))%R.
Proof. exact polygon_area_sum. Qed.
(** ... = the polygon's stored area, under the hypotheses of [C12_region_net_area] (loops in one plane with the unit normal
    e1 x e2 = the outer loop's stored normal; stored loop areas signed -- true of every loop closed by Loop3D::close,
    [C12_region_closed_loops_have_signed_area]) and the polygon's own accounting ([C12_region_polygon_accounting]) *)
Theorem C01_polygon_area_parea : forall (o e1 e2 : V3 R) (P : Poly R) (M : Mesh R),
  closed_loop_clean false P = true -> closed_loop_wf P = true -> stable_run P M -> close_keeps P -> frame_normal e1 e2 P ->
  lnormal (pouter P) = vcross e1 e2 -> vdot (vcross e1 e2) (vcross e1 e2) = 1%R -> planar_normals P -> signed_areas P ->
  (parea P = larea (pouter P) - rsum (map larea (pinner P)))%R ->
  Cyclic.tsum 0%R Rplus (fun a b c => Rabs (Shoelace.area2 [a; b; c])) (proj_tris o e1 e2 M) = parea P.
Proof. exact polygon_area_parea. Qed.

(** ** non-vacuity: the unit square with the triangular hole ([w1_poly]).  Binary64: the side conditions hold, [close] keeps the 9
    vertices of the merged loop, the polygon's normal is the outer loop's normal (0,0,1), the run is sanitize-stable with 7
    triangles; outer outline and oriented hole read in units of 1/20.  Over the reals, same data: Jordan hypotheses at both
    sample points; region point: 1 - 0 = 1 triangle; point in the hole: 1 - 1 = 0 triangles; 400 - 18 = sum of triangle areas *)
Example C01_polygon_nonvacuous :
  (closed_loop_clean false Mesh_witness.w1_poly = true /\ closed_loop_wf Mesh_witness.w1_poly = true /\
   closed_loop_hits Mesh_witness.w1_poly = true /\
   pnormal Mesh_witness.w1_poly = lnormal (pouter Mesh_witness.w1_poly) /\
   map fzp20 [pnormal Mesh_witness.w1_poly] = [(0, 0)%Z] /\ fz20 (vz (pnormal Mesh_witness.w1_poly)) = 20%Z /\
   map fzp20 (verts (pouter Mesh_witness.w1_poly)) = ex2_outer /\
   map (fun h => map fzp20 (oriented (lnormal (pouter Mesh_witness.w1_poly)) h)) (pinner Mesh_witness.w1_poly) = [ex2_hole] /\
   (exists Lm : Loop float, poly_get_closed_loop Mesh_witness.w1_poly = Ok Lm /\ snd (loop_close Lm) = Ok tt /\
      verts (fst (loop_close Lm)) = verts Lm /\ llen Lm = 9) /\
   (exists M : Mesh float, stable_run Mesh_witness.w1_poly M /\ length (tris M) = 7)) /\
  (let O2 := map zr ex2_outer in let H2 := [map zr ex2_hole] in let Ts := map (map3 zr) ex2_ears in
   Winding.wn ex_d O2 ex2_q = 1%Z /\ holes_wn ex_d ex2_q H2 = 0%Z /\
   Winding.wn ex_d O2 ex2_qhole = 1%Z /\ holes_wn ex_d ex2_qhole H2 = 1%Z /\
   Z.of_nat (Winding.count_inside Ts ex2_q) = (Winding.wn ex_d O2 ex2_q - holes_wn ex_d ex2_q H2)%Z /\
   Z.of_nat (Winding.count_inside Ts ex2_qhole) = (Winding.wn ex_d O2 ex2_qhole - holes_wn ex_d ex2_qhole H2)%Z /\
   Shoelace.area2 O2 = 400%R /\ holes_area2 H2 = 18%R /\
   Cyclic.tsum 0%R Rplus (fun a b c => Rabs (Shoelace.area2 [a; b; c])) Ts = (Shoelace.area2 O2 - holes_area2 H2)%R).
Proof. split; [exact ex2_polygon_float | exact ex2_polygon_real]. Qed.
