(** * C09 (triangulation part) -- triangulation is total.
    Statements only; proofs in Proofs/Mesh_fp.v, Mesh_sites.v, Mesh_wf.v, Mesh_conf.v.  Every number instance.

    (a) Termination.  The model is a total Gallina function: every single step terminates by construction.
        [from_polygon] runs on the code's own counter (fuel [MAX_ITER] = 1000; running out IS the code's
        "Excessive number of iteration" error), [restore_delaunay] on [MAX_LOOPS] = 30 sweeps.  Only [refine]
        carries model fuel; its exhaustion is the distinguished outcome [ROutOfFuel], reported by the runner under
        its own tag, and excluded by the C18 theorem.  Wall-clock time is observed by the harness.
    (b) Panic sites.  [C09_panic_sites_*] are certified enumerations: an operation can only end in a panic site of
        its list.  Site 60 (Edge::from_i out of range), site 10 (unwrap in Triangle3D::new), sites 88/89 (the
        impossible locations in add_point_to_triangle, from add_point and refine) are in none: unreachable.
        Under [WF] (preserved by everything, see C08) the neighbour look-ups 67, 73 are unreachable; under [CNT]
        the usize underflow 61 is unreachable in split_triangle / flip_diagonal / restore_delaunay.
        Data-dependent sites are REACHABLE in the faithful model and in the crate: [C09_mesh_polygon_w3_now_ok] (regression witness of fix 361bbb9)
        (site 64 from mesh_polygon on a plain triangle; 87 and 91 likewise, see NOTES.md).
    (c) Success for well-conditioned polygons: needs the two-ears theorem -- not proved; validated on the generated
        stream by the oracle.  Regression witness of fix df28df6: [C09_wellcond_w5_now_ok]. *)
From Coq Require Import ZArith List Bool Floats.
Set Warnings "-inexact-float".
From G3 Require Import Model.Num Model.NumF Model.Base Model.Vec Model.Segment Model.Triangle Model.Loop Model.Polygon Model.Triangulation
  Proofs.Mesh_base Proofs.Mesh_fp Proofs.Mesh_wf Proofs.Mesh_sites Proofs.Mesh_conf Proofs.Mesh_witness.
Import ListNotations.

Definition inb (l : list N) (s : N) : bool := existsb (N.eqb s) l.
Definition sites_mark : list N := [62; 63; 64]%N.
Definition sites_flip : list N := [70; 71; 72; 73; 74; 75; 76; 77; 78; 79; 61]%N ++ sites_mark.
Definition sites_split_edge : list N := [80; 81; 82; 61]%N ++ sites_mark.
Definition sites_split_triangle : list N := [83; 84; 61]%N ++ sites_mark.
Definition sites_restore : list N := [85; 65; 66; 67; 68; 69]%N ++ sites_flip.
Definition sites_add_point : list N := [86; 87; 80; 81; 82; 83; 84; 61]%N ++ sites_mark.
Definition sites_refine : list N := [90; 91]%N ++ sites_restore ++ sites_add_point.

(** (a) *)
Theorem C09_from_polygon_bounded : forall (K : Type) (NK : Num K) (P : Poly K) (M : Mesh K),
  from_polygon P = Ok M -> length (tris M) <= 1000.
Proof. intros K NK P M H. destruct (from_polygon_structure P M H) as (Lm & _ & _ & _ & _ & B). exact B. Qed.
Theorem C09_restore_delaunay_bounded : forall (K : Type) (NK : Num K) (m : K) (M : Mesh K),
  restore_delaunay m M = rd_loops m (length (tris M)) 30 M.
Proof. reflexivity. Qed.

(** (b) Edge::from_i is only ever applied to 0, 1, 2 *)
Theorem C09_edge_add_no_panic : forall (e : Edge) (k : N), exists e', edge_add e k = Ok e'.
Proof. exact edge_add_ok. Qed.

(** (b) the panic sites of each operation *)
Theorem C09_panic_sites_flip_diagonal : forall (K : Type) (NK : Num K) (i : nat) (e : Edge) (M M' : Mesh K) (s : N),
  flip_diagonal i e M = (M', Panic s) -> inb sites_flip s = true.
Proof. intros K NK i e. apply np_flip; reflexivity. Qed.
Theorem C09_panic_sites_split_edge : forall (K : Type) (NK : Num K) (i : nat) (e : Edge) (p : V3 K) (M M' : Mesh K) (s : N),
  split_edge i e p M = (M', Panic s) -> inb sites_split_edge s = true.
Proof. intros K NK i e p. apply np_split_edge; reflexivity. Qed.
Theorem C09_panic_sites_split_triangle : forall (K : Type) (NK : Num K) (i : nat) (p : V3 K) (M M' : Mesh K) (s : N),
  split_triangle i p M = (M', Panic s) -> inb sites_split_triangle s = true.
Proof. intros K NK i p. apply np_split_triangle; reflexivity. Qed.
Theorem C09_panic_sites_restore_delaunay : forall (K : Type) (NK : Num K) (m : K) (M M' : Mesh K) (s : N),
  restore_delaunay m M = (M', Panic s) -> inb sites_restore s = true.
Proof. intros K NK m. apply np_restore; reflexivity. Qed.
Theorem C09_panic_sites_add_point : forall (K : Type) (NK : Num K) (p : V3 K) (M M' : Mesh K) (s : N),
  add_point p M = (M', Panic s) -> inb sites_add_point s = true.
Proof. intros K NK p. apply np_add_point; reflexivity. Qed.
Theorem C09_panic_sites_refine : forall (K : Type) (NK : Num K) (fuel : nat) (a m : K) (M M' : Mesh K) (s : N),
  refine fuel a m M = (M', Panic s) -> inb sites_refine s = true.
Proof. intros K NK fuel a m. apply np_refine; reflexivity. Qed.

(** (b) well-formedness is preserved by each operation, whatever it returns (in particular when it returns Ok) *)
Theorem C09_wf_push : forall (K : Type) (NK : Num K) (a b c : V3 K) (la : nat) (M M' : Mesh K) (r : res nat),
  WF M -> mesh_push a b c la M = (M', r) -> WF M'.
Proof. intros K NK a b c la M M' r W H. exact (proj2 (wf_push a b c la M M' r H) W). Qed.
Theorem C09_wf_invalidate : forall (K : Type) (NK : Num K) (i : nat) (M M' : Mesh K) (r : res unit),
  WF M -> mesh_invalidate i M = (M', r) -> WF M'.
Proof. intros K NK i M M' r W H. exact (proj2 (wf_invalidate i M M' r H) W). Qed.
Theorem C09_wf_mark_as_neighbours : forall (K : Type) (NK : Num K) (i1 : nat) (e : Edge) (i2 : nat) (M M' : Mesh K) (r : res unit),
  WF M -> mark_as_neighbours i1 e i2 M = (M', r) -> WF M'.
Proof. intros K NK i1 e i2 M M' r W H. exact (proj2 (wf_mark i1 e i2 M M' r H) W). Qed.
Theorem C09_wf_flip_diagonal : forall (K : Type) (NK : Num K) (i : nat) (e : Edge) (M M' : Mesh K) (r : res unit),
  WF M -> flip_diagonal i e M = (M', r) -> WF M'.
Proof. intros K NK i e M M' r W H. exact (proj2 (wf_flip i e M M' r H) W). Qed.
Theorem C09_wf_split_edge : forall (K : Type) (NK : Num K) (i : nat) (e : Edge) (p : V3 K) (M M' : Mesh K) (r : res unit),
  WF M -> split_edge i e p M = (M', r) -> WF M'.
Proof. intros K NK i e p M M' r W H. exact (proj2 (wf_split_edge i e p M M' r H) W). Qed.
Theorem C09_wf_split_triangle : forall (K : Type) (NK : Num K) (i : nat) (p : V3 K) (M M' : Mesh K) (r : res unit),
  WF M -> split_triangle i p M = (M', r) -> WF M'.
Proof. intros K NK i p M M' r W H. exact (proj2 (wf_split_triangle i p M M' r H) W). Qed.
Theorem C09_wf_refine : forall (K : Type) (NK : Num K) (fuel : nat) (a m : K) (M M' : Mesh K) (r : res rres),
  WF M -> refine fuel a m M = (M', r) -> WF M'.
Proof. intros K NK fuel a m M M' r W H. exact (proj2 (wf_refine a m fuel M M' r H) W). Qed.

(** (b) under the invariants: the neighbour look-ups are in range, the counter cannot underflow *)
Theorem C09_neighbour_lookup_in_range : forall (K : Type) (NK : Num K) (M : Mesh K) (i : nat) (e : Edge),
  WF M -> get_flipped_aspect_ratio M i e <> Panic 67%N.
Proof. exact (fun K NK => @gfar_wf K NK). Qed.
Theorem C09_restore_delaunay_structural_sites : forall (K : Type) (NK : Num K) (m : K) (M M' : Mesh K) (s : N),
  WF M -> CNT M -> restore_delaunay m M = (M', Panic s) -> s <> 61%N /\ s <> 67%N /\ s <> 73%N /\ s <> 85%N.
Proof.
  intros K NK m M M' s W C H. destruct (cnt_restore m M M' _ W C H) as (_ & _ & G). specialize (G s eq_refl). unfold okrd in G.
  repeat split; intros ->; discriminate.
Qed.

(** (b) regression witness: mesh_polygon on the triangle (0,0) (1,0) (0.3,0.8) with max_area = 0.4/50,
    max_aspect_ratio = 3 panicked with "... don't share a segment" (site 64) before fix 361bbb9 (refinement steps
    mutated the mesh before failing); it now returns Ok with every slot live *)
Theorem C09_mesh_polygon_w3_now_ok :
  exists (P : Poly float) (max_area max_ar : float) (fuel : nat) (M : Mesh float),
    mesh_polygon fuel P max_area max_ar = Ok (M, RDone) /\ forallb tp_valid (tris M) = true.
Proof. destruct w3_mesh_polygon_now_ok as (M & H). exists w3_poly, (0.4 / 50)%float, 3%float, 4000, M. exact H. Qed.

(** (c) regression witness: the unit square with a small pentagonal hole (edges > 0.1, clearance > 0.2) made
    from_polygon return Err "non-coplanar" before fix df28df6 (Loop3D::push duplicated a vertex when the outline went
    straight back, NaN normal); it is Ok now (what it returns is C01's business: see C01's known finding) *)
Theorem C09_wellcond_w5_now_ok :
  exists (P : Poly float) M, from_polygon P = Ok M /\ length (pinner P) = 1.
Proof. destruct w5_from_polygon_ok as (M & H1 & _ & H3). exists w5_poly, M. split; assumption. Qed.

(** non-vacuity *)
Example C09_nonvacuous : exists M, from_polygon w4_poly = Ok M /\ length (tris M) = 2 /\ nvalid M = 2.
Proof. exact w_square_ok. Qed.
