(** * C01 (geometric part) FOR REFINED MESHES -- "the triangles returned by mesh_polygon tile the polygon exactly".  Real instance.
    Statements only; proofs in Proofs/C01_refined.v (examples: Proofs/C01_refined_ex.v).

    Setting: [mesh_polygon fuel P max_area max_ar = Ok (M', r)] (r = RDone, or the model's ROutOfFuel: what was done up to fuel
    exhaustion also tiles).  M0 = the mesh of [from_polygon P], L = the closed merged outline.  Plane coordinates
    [plane2 o e1 e2] of an ORTHONORMAL frame; [tris2 o e1 e2 M'] = the LIVE triangles of M' in these coordinates -- when r = RDone
    they are exactly the triangles [get_trilist] returns ([C01_refined_all_live_reported], through C18: every slot is live).
    Hypotheses, all spelled out in the statements:
    (I)  on the initial run (those of Properties/C08_init.v): [stable_run P M0]; [outline_of P L]; [frame_normal e1 e2 P]
         (polygon normal = positive multiple of e1 x e2); [jordan_le1] of the projected merged outline (it winds at most once around
         every point off its edges -- follows from the same on the input loops, [C01_refined_jordan_of_input]); the vertices of L
         separated for Point3D::compare ([VSEP]) and in the plane of the frame;
    (II) on the refinement (those of Properties/C08_refine.v): [tr_ok (side ..) M0 (refine_trace ..)]: at every elementary step of
         the trace the inserted point is separated from the current vertices, in the plane, strictly inside the triangle /
         exactly on the edge it was located on -- and, for the statements about a point q and a ray d, the ray from q avoids the
         inserted point;
    (III) on q (count, tiling): the ray is generic for the corners of every RETURNED live triangle and q lies on no edge of one.
         Nothing is asked of q and the ray relative to the input polygon: the winding identity of the initial mesh holds for every ray;
    (IV) for the statements in terms of outer outline and holes (those of the C01_polygon theorems): C12's decidable side conditions
         [closed_loop_clean false P], [closed_loop_wf P], and [close_keeps P]; Jordan data of the input loops pointwise at q.
    The bridge between the two notions of coverage: [C01_refined_cover_is_count] ([cover] of C08 = sum of the triangles' winding
    numbers = [count_inside] of C01 for counter-clockwise triangles, ray generic for their corners, q off their edges).
    NOT covered: runs whose periodic sanitize drops a vertex; the float instance; the trace side conditions are hypotheses (the
    crate locates inserted points with a 100-eps tolerance: C08_located_on_edge_is_not_exact). *)
From Coq Require Import ZArith Reals List Floats.
Set Warnings "-inexact-float".
From G3 Require Import Model.Num Model.NumF Model.Base Model.Vec Model.Segment Model.Triangle Model.Loop Model.Polygon Model.PolyAux Model.Triangulation
  Theory.RInst Theory.Cyclic Theory.Winding
  Proofs.Mesh_base Proofs.Mesh_region Proofs.Mesh_links Proofs.Mesh_links_region Proofs.Mesh_refine_trace Proofs.Mesh_refine_region
  Proofs.C05_pointtest Proofs.C12_region Proofs.C01_tiling Proofs.C01_polygon Proofs.Mesh_witness
  Proofs.Mesh_links_init Proofs.Mesh_links_init_ex Proofs.C01_refined Proofs.C01_refined_ex.
From G3 Require Theory.Shoelace.
Import ListNotations.

(** ** what the user receives *)
(** every slot of the initial mesh is live; after a refinement that ran to completion every slot is live (C18_ok_all_valid):
    [get_trilist] returns exactly the live triangles.  Every number instance. *)
Theorem C01_refined_initial_all_live : forall (K : Type) (NK : Num K) (P : Poly K) (M : Mesh K),
  from_polygon P = Ok M -> (forall t, In t (tris M) -> tp_valid t = true) /\ live_tris M = get_trilist M.
Proof. intros K NK P M H. split; [exact (from_polygon_all_valid P M H) | exact (from_polygon_live_reported P M H)]. Qed.
Theorem C01_refined_all_live_reported : forall (K : Type) (NK : Num K) (fuel : nat) (P : Poly K) (max_area max_ar : K) (M : Mesh K),
  mesh_polygon fuel P max_area max_ar = Ok (M, RDone) -> live_tris M = get_trilist M.
Proof. exact @mesh_polygon_live_reported. Qed.

(** ** the two notions of coverage *)
Theorem C01_refined_cover_is_count : forall (d q : P2) (Ts : list (P2 * P2 * P2)),
  (forall a b c, In (a, b, c) Ts -> (0 < orient a b c)%R /\ generic d q [a; b; c] /\ off_segs a b c q) ->
  cover d Ts q = Z.of_nat (count_inside Ts q).
Proof. exact cover_count_segs. Qed.

(** ** orientation: every returned live triangle is counter-clockwise (and the refined mesh satisfies INV) *)
Theorem C01_refined_orientation : forall (o e1 e2 : V3 R),
  vdot e1 e1 = 1%R -> vdot e2 e2 = 1%R -> vdot e1 e2 = 0%R ->
  forall (P : Poly R) (fuel : nat) (max_area max_ar : R) (M0 M' : Mesh R) (r : rres) (L : Loop R),
    stable_run P M0 -> outline_of P L -> frame_normal e1 e2 P -> jordan_le1 (proj_outline o e1 e2 L) ->
    VSEP (fun x : V3 R => In x (verts L)) -> (forall v : V3 R, In v (verts L) -> in_plane o e1 e2 v) ->
    mesh_polygon fuel P max_area max_ar = Ok (M', r) ->
    tr_ok (side o e1 e2 (fun _ => True)) M0 (refine_trace fuel max_area max_ar M0) ->
    INV o e1 e2 M' /\ forall a b c, In (a, b, c) (tris2 o e1 e2 M') -> (0 < orient a b c)%R.
Proof.
  intros o e1 e2 A B C P fuel amax mar M0 M' r L H1 H2 H3 H4 H5 H6 H7 H8.
  split; [exact (refined_INV o e1 e2 A B C P fuel amax mar M0 M' r L H1 H2 H3 H4 H5 H6 H7 H8) | exact (refined_positive o e1 e2 A B C P fuel amax mar M0 M' r L H1 H2 H3 H4 H5 H6 H7 H8)].
Qed.

(** ** 1. the count *)
(** ... against the closed merged outline *)
Theorem C01_refined_count_merged : forall (o e1 e2 : V3 R),
  vdot e1 e1 = 1%R -> vdot e2 e2 = 1%R -> vdot e1 e2 = 0%R ->
  forall (P : Poly R) (fuel : nat) (max_area max_ar : R) (M0 M' : Mesh R) (r : rres) (L : Loop R),
    stable_run P M0 -> outline_of P L -> frame_normal e1 e2 P -> jordan_le1 (proj_outline o e1 e2 L) ->
    VSEP (fun x : V3 R => In x (verts L)) -> (forall v : V3 R, In v (verts L) -> in_plane o e1 e2 v) ->
    mesh_polygon fuel P max_area max_ar = Ok (M', r) ->
    forall d q : P2,
      tr_ok (side o e1 e2 (fun p => hgt d q (plane2 o e1 e2 p) <> 0%R)) M0 (refine_trace fuel max_area max_ar M0) ->
      (forall a b c, In (a, b, c) (tris2 o e1 e2 M') -> generic d q [a; b; c] /\ off_segs a b c q) ->
      Z.of_nat (count_inside (tris2 o e1 e2 M') q) = wn d (proj_outline o e1 e2 L) q.
Proof. exact refined_count_merged. Qed.
(** ... against the polygon: number of returned live triangles containing q = wn outer q - sum over the holes *)
Theorem C01_refined_count : forall (o e1 e2 : V3 R),
  vdot e1 e1 = 1%R -> vdot e2 e2 = 1%R -> vdot e1 e2 = 0%R ->
  forall (P : Poly R) (fuel : nat) (max_area max_ar : R) (M0 M' : Mesh R) (r : rres) (L : Loop R),
    stable_run P M0 -> outline_of P L -> frame_normal e1 e2 P -> jordan_le1 (proj_outline o e1 e2 L) ->
    VSEP (fun x : V3 R => In x (verts L)) -> (forall v : V3 R, In v (verts L) -> in_plane o e1 e2 v) ->
    mesh_polygon fuel P max_area max_ar = Ok (M', r) ->
    closed_loop_clean false P = true -> closed_loop_wf P = true -> close_keeps P ->
    forall d q : P2,
      tr_ok (side o e1 e2 (fun p => hgt d q (plane2 o e1 e2 p) <> 0%R)) M0 (refine_trace fuel max_area max_ar M0) ->
      (forall a b c, In (a, b, c) (tris2 o e1 e2 M') -> generic d q [a; b; c] /\ off_segs a b c q) ->
      Z.of_nat (count_inside (tris2 o e1 e2 M') q) = (wn d (poly_outer2 o e1 e2 P) q - holes_wn d q (poly_holes2 o e1 e2 P))%Z.
Proof. exact refined_count. Qed.

(** ** 2. the exact tiling.  Jordan data of the input loops at q (as in C01_polygon_tile_exactly): a point of the region lies in
    exactly one returned live triangle, a point outside the outer outline or in a hole in none, no two live triangles overlap *)
Theorem C01_refined_tile_exactly : forall (o e1 e2 : V3 R),
  vdot e1 e1 = 1%R -> vdot e2 e2 = 1%R -> vdot e1 e2 = 0%R ->
  forall (P : Poly R) (fuel : nat) (max_area max_ar : R) (M0 M' : Mesh R) (r : rres) (L : Loop R),
    stable_run P M0 -> outline_of P L -> frame_normal e1 e2 P -> jordan_le1 (proj_outline o e1 e2 L) ->
    VSEP (fun x : V3 R => In x (verts L)) -> (forall v : V3 R, In v (verts L) -> in_plane o e1 e2 v) ->
    mesh_polygon fuel P max_area max_ar = Ok (M', r) ->
    closed_loop_clean false P = true -> closed_loop_wf P = true -> close_keeps P ->
    forall d q : P2,
      tr_ok (side o e1 e2 (fun p => hgt d q (plane2 o e1 e2 p) <> 0%R)) M0 (refine_trace fuel max_area max_ar M0) ->
      (forall a b c, In (a, b, c) (tris2 o e1 e2 M') -> generic d q [a; b; c] /\ off_segs a b c q) ->
      (0 <= wn d (poly_outer2 o e1 e2 P) q <= 1)%Z ->
      (forall l, In l (poly_holes2 o e1 e2 P) -> (0 <= wn d l q)%Z) ->
      (holes_wn d q (poly_holes2 o e1 e2 P) <= wn d (poly_outer2 o e1 e2 P) q)%Z ->
      (wn d (poly_outer2 o e1 e2 P) q = 1%Z -> (forall l, In l (poly_holes2 o e1 e2 P) -> wn d l q = 0%Z) ->
         count_inside (tris2 o e1 e2 M') q = 1 /\ exists a b c, In (a, b, c) (tris2 o e1 e2 M') /\ inside_tri a b c q) /\
      (wn d (poly_outer2 o e1 e2 P) q = 0%Z \/ (exists l, In l (poly_holes2 o e1 e2 P) /\ (0 < wn d l q)%Z) ->
         count_inside (tris2 o e1 e2 M') q = 0 /\ forall a b c, In (a, b, c) (tris2 o e1 e2 M') -> ~ inside_tri a b c q) /\
      (forall (l1 l2 l3 : list (P2 * P2 * P2)) (a b c a' b' c' : P2),
         tris2 o e1 e2 M' = l1 ++ (a, b, c) :: l2 ++ (a', b', c') :: l3 -> inside_tri a b c q -> inside_tri a' b' c' q -> False) /\
      count_inside (tris2 o e1 e2 M') q = Z.to_nat (wn d (poly_outer2 o e1 e2 P) q - holes_wn d q (poly_holes2 o e1 e2 P)).
Proof. exact refined_tile_exactly. Qed.

(** ** 3. the areas: the (positive) areas of the returned live triangles sum to the area of the merged outline,
    = area of the outer outline - areas of the holes, = the polygon's stored area *)
Theorem C01_refined_area_merged : forall (o e1 e2 : V3 R),
  vdot e1 e1 = 1%R -> vdot e2 e2 = 1%R -> vdot e1 e2 = 0%R ->
  forall (P : Poly R) (fuel : nat) (max_area max_ar : R) (M0 M' : Mesh R) (r : rres) (L : Loop R),
    stable_run P M0 -> outline_of P L -> frame_normal e1 e2 P -> jordan_le1 (proj_outline o e1 e2 L) ->
    VSEP (fun x : V3 R => In x (verts L)) -> (forall v : V3 R, In v (verts L) -> in_plane o e1 e2 v) ->
    mesh_polygon fuel P max_area max_ar = Ok (M', r) ->
    tr_ok (side o e1 e2 (fun _ => True)) M0 (refine_trace fuel max_area max_ar M0) ->
    tsum 0%R Rplus (fun a b c => Rabs (Shoelace.area2 [a; b; c])) (tris2 o e1 e2 M') = Shoelace.area2 (proj_outline o e1 e2 L).
Proof. exact refined_area_merged. Qed.
Theorem C01_refined_area_sum : forall (o e1 e2 : V3 R),
  vdot e1 e1 = 1%R -> vdot e2 e2 = 1%R -> vdot e1 e2 = 0%R ->
  forall (P : Poly R) (fuel : nat) (max_area max_ar : R) (M0 M' : Mesh R) (r : rres) (L : Loop R),
    stable_run P M0 -> outline_of P L -> frame_normal e1 e2 P -> jordan_le1 (proj_outline o e1 e2 L) ->
    VSEP (fun x : V3 R => In x (verts L)) -> (forall v : V3 R, In v (verts L) -> in_plane o e1 e2 v) ->
    mesh_polygon fuel P max_area max_ar = Ok (M', r) ->
    closed_loop_clean false P = true -> closed_loop_wf P = true -> close_keeps P ->
    tr_ok (side o e1 e2 (fun _ => True)) M0 (refine_trace fuel max_area max_ar M0) ->
    tsum 0%R Rplus (fun a b c => Rabs (Shoelace.area2 [a; b; c])) (tris2 o e1 e2 M') =
    (Shoelace.area2 (poly_outer2 o e1 e2 P) - holes_area2 (poly_holes2 o e1 e2 P))%R.
Proof. exact refined_area_sum. Qed.
Theorem C01_refined_area_parea : forall (o e1 e2 : V3 R),
  vdot e1 e1 = 1%R -> vdot e2 e2 = 1%R -> vdot e1 e2 = 0%R ->
  forall (P : Poly R) (fuel : nat) (max_area max_ar : R) (M0 M' : Mesh R) (r : rres) (L : Loop R),
    stable_run P M0 -> outline_of P L -> frame_normal e1 e2 P -> jordan_le1 (proj_outline o e1 e2 L) ->
    VSEP (fun x : V3 R => In x (verts L)) -> (forall v : V3 R, In v (verts L) -> in_plane o e1 e2 v) ->
    mesh_polygon fuel P max_area max_ar = Ok (M', r) ->
    closed_loop_clean false P = true -> closed_loop_wf P = true -> close_keeps P ->
    tr_ok (side o e1 e2 (fun _ => True)) M0 (refine_trace fuel max_area max_ar M0) ->
    lnormal (pouter P) = vcross e1 e2 -> planar_normals P -> signed_areas P ->
    (parea P = larea (pouter P) - rsum (map larea (pinner P)))%R ->
    tsum 0%R Rplus (fun a b c => Rabs (Shoelace.area2 [a; b; c])) (tris2 o e1 e2 M') = parea P.
Proof. exact refined_area_parea. Qed.

(** the global Jordan hypothesis on the merged outline follows from the one on the input loops *)
Theorem C01_refined_jordan_of_input : forall (o e1 e2 : V3 R) (P : Poly R) (M0 : Mesh R) (L : Loop R),
  stable_run P M0 -> outline_of P L -> closed_loop_clean false P = true -> closed_loop_wf P = true -> close_keeps P ->
  (forall d q : P2, generic d q (proj_outline o e1 e2 L) -> off_edges (proj_outline o e1 e2 L) q ->
     (wn d (poly_outer2 o e1 e2 P) q <= 1)%Z /\ forall l, In l (poly_holes2 o e1 e2 P) -> (0 <= wn d l q)%Z) ->
  jordan_le1 (proj_outline o e1 e2 L).
Proof. intros o e1 e2 P M0 L H1 H2 H3 H4 H5. exact (jordan_of_input o e1 e2 P M0 L H1 H2 H3 H4 H5). Qed.

(** ** non-vacuity.  binary64: the unit square; sanitize-stable initial run, refinement to completion through a trace of >= 10
    elementary steps, >= 10 triangles returned, all live *)
Example C01_refined_nonvacuous :
  stable_run w4_poly w4_mesh /\ mesh_polygon 100 w4_poly 0.1%float 1.5%float = Ok (w4_refined, RDone) /\
  refine 100 0.1%float 1.5%float w4_mesh = (w4_refined, Ok RDone) /\
  Nat.leb 10 (length (refine_trace 100 0.1%float 1.5%float w4_mesh)) = true /\
  live_tris w4_refined = get_trilist w4_refined /\ Nat.leb 10 (length (get_trilist w4_refined)) = true.
Proof. exact refined_float_nonvacuous. Qed.
(** reals: the hypotheses on the polygon hold for the same square; at q = (1/3, 1/4), ray (1, 0): generic, the outline winds once *)
Example C01_refined_hypotheses_nonvacuous :
  let o := r3 0 0 in let e1 := r3 1 0 in let e2 := r3 0 1 in
  let O2 := map (plane2 o e1 e2) sqL in let d : P2 := (1, 0)%R in let q : P2 := (/ 3, / 4)%R in
  vdot e1 e1 = 1%R /\ vdot e2 e2 = 1%R /\ vdot e1 e2 = 0%R /\
  jordan_le1 O2 /\ VSEP (fun x : V3 R => In x sqL) /\ (forall v : V3 R, In v sqL -> in_plane o e1 e2 v) /\
  generic d q O2 /\ wn d O2 q = 1%Z.
Proof. exact refined_real_nonvacuous. Qed.
