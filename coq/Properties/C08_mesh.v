(** * C08 (triangulation part) -- refinement steps keep a conforming mesh: the BOOKKEEPING part.
    Statements only; proofs in Proofs/Mesh_wf.v, Proofs/Mesh_conf.v, Proofs/Mesh_init.v.  Every number instance.

    [Conf_struct M] := [SYM M] /\ [CNT M]
      (i) SYM: every neighbour index of a live slot names a live slot that points back to it;
      (v) CNT: n_valid_triangles = number of live slots.
    Proved:
    - [WF] (neighbour indices in range, never the slot itself) holds of [from_polygon]'s result and is preserved by
      EVERY step of EVERY history, whatever the outcomes ([C08_wf_history]);
    - (v) holds of [from_polygon]'s result and is preserved, whatever the outcome, by push, invalidate of a live
      slot, mark_as_neighbours, split_triangle, and -- on well-formed meshes -- flip_diagonal and restore_delaunay;
    - (i), one link: mark_as_neighbours returning Ok leaves two live slots that reference each other.
    PARTIAL -- what is missing, precisely:
    - (v) for split_edge / add_point / refine: [split_edge] invalidates the neighbour across the split edge WITHOUT
      checking that it is live; the counter survives only if that neighbour is live, i.e. under (i), and (i) is not
      proved preserved (next item);
    - (i) for the composed steps.  It cannot be proved instance-generically: which edge of the second triangle
      [mark_as_neighbours] links is decided by coordinate comparison (Segment3D::compare, tolerance 1e-5), so that the
      second and third [mark_as_neighbours] of split_triangle do not overwrite the first needs the geometric
      separation hypothesis of DESIGN.md (distinct mesh vertices more than 1e-5 apart) on the real instance;
    - the geometric clauses (same region, same outline, orientation) need Theory/Winding.v.
    These clauses are checked after every step of every generated history by the exact-rational oracle.
    SEE ALSO Properties/C08_region.v (atomicity of the three steps; (v) and the liveness half of (i) for split_edge /
    flip_diagonal / restore_delaunay on structurally sound meshes; the multiset of live triangles of each step; the geometric
    clauses over the reals step by step) and Properties/C08_links.v: clause (i) in its GEOMETRIC form [LNKG] (each link names a
    live triangle that holds the edge exactly, reversed, and links back) IS preserved by split_triangle / split_edge /
    flip_diagonal / restore_delaunay / add_point returning Ok, for every number instance, under the separation hypothesis [SEP]
    (no two distinct vertices within the 1e-5 tolerance) -- this is the instance-generic form of the missing item above; with it,
    over the reals, area, coverage and orientation are kept along histories without further hypothesis on the links.
    Properties/C08_refine.v: refine and mesh_polygon keep area, coverage, orientation and the invariants, under side conditions on
    the trace of elementary steps.  STILL OPEN: LNKG of from_polygon's result (hypothesis on the starting mesh); nothing geometric on
    the float instance.
    Was FALSE for the pinned tree (repaired by fix 361bbb9): a step that returned Err could already have
    invalidated a slot ([C08_split_edge_half_update_refuted], about Model/PinnedMesh.v); [refine] swallowed such an Err
    from [add_point].  The live steps test every child with Triangle3D::new before the first mutation. *)
From Coq Require Import ZArith List Floats.
Set Warnings "-inexact-float".
From G3 Require Import Model.Num Model.NumF Model.Base Model.Vec Model.Segment Model.Triangle Model.Loop Model.Polygon Model.Triangulation Model.PinnedMesh
  Proofs.Mesh_base Proofs.Mesh_wf Proofs.Mesh_conf Proofs.Mesh_init Proofs.Mesh_witness.
Import ListNotations.

(** the starting point of every history satisfies WF and (v) *)
Theorem C08_initial_invariants : forall (K : Type) (NK : Num K) (P : Poly K) (M : Mesh K),
  from_polygon P = Ok M -> WF M /\ CNT M.
Proof. exact (fun K NK => @from_polygon_invariants K NK). Qed.

(** every history (split_edge, split_triangle, flip_diagonal, restore_delaunay, add_point, refine in any order and
    number, Ok or not) keeps the neighbour indices well formed *)
Theorem C08_wf_history : forall (K : Type) (NK : Num K) (ops : list (mop K)) (M : Mesh K),
  WF M -> WF (fst (mesh_run M ops)).
Proof. exact (fun K NK => @wf_run K NK). Qed.

(** (v) through the primitives *)
Theorem C08_counter_push : forall (K : Type) (NK : Num K) (a b c : V3 K) (last_added : nat) (M M' : Mesh K) (r : res nat),
  CNT M -> mesh_push a b c last_added M = (M', r) -> CNT M'.
Proof. intros K NK a b c la M M' r C H. exact (cnt_push a b c la M M' r H C). Qed.
Theorem C08_counter_invalidate_live : forall (K : Type) (NK : Num K) (i : nat) (M M' : Mesh K) (r : res unit),
  live M i -> CNT M -> mesh_invalidate i M = (M', r) -> CNT M' /\ r = Ok tt.
Proof. intros K NK i M M' r L C H. destruct (cnt_invalidate_live i M M' r L C H) as (A & B & _). split; assumption. Qed.
Theorem C08_counter_mark_as_neighbours : forall (K : Type) (NK : Num K) (i1 : nat) (e : Edge) (i2 : nat) (M M' : Mesh K) (r : res unit),
  CNT M -> mark_as_neighbours i1 e i2 M = (M', r) -> CNT M'.
Proof. intros K NK i1 e i2 M M' r C H. exact (cnt_mark i1 e i2 M M' r H C). Qed.

(** (v) through the steps, whatever their outcome; the usize underflow of invalidate is then unreachable *)
Theorem C08_counter_split_triangle : forall (K : Type) (NK : Num K) (i : nat) (p : V3 K) (M M' : Mesh K) (r : res unit),
  CNT M -> split_triangle i p M = (M', r) -> CNT M' /\ r <> Panic 61%N.
Proof. exact (fun K NK => @cnt_split_triangle K NK). Qed.
Theorem C08_counter_flip_diagonal : forall (K : Type) (NK : Num K) (i : nat) (e : Edge) (M M' : Mesh K) (r : res unit),
  WF M -> CNT M -> flip_diagonal i e M = (M', r) -> CNT M' /\ r <> Panic 61%N /\ r <> Panic 73%N.
Proof.
  intros K NK i e M M' r W C H. destruct (cnt_flip i e M M' r W C H) as [A B]. split; [exact A|].
  split; intros E; specialize (B _ E); discriminate.
Qed.
Theorem C08_counter_restore_delaunay : forall (K : Type) (NK : Num K) (m : K) (M M' : Mesh K) (r : res unit),
  WF M -> CNT M -> restore_delaunay m M = (M', r) -> CNT M' /\ WF M'.
Proof. intros K NK m M M' r W C H. destruct (cnt_restore m M M' r W C H) as (A & B & _). split; assumption. Qed.

(** (i), one link *)
Theorem C08_mark_reciprocal : forall (K : Type) (NK : Num K) (i1 : nat) (e1 : Edge) (i2 : nat) (M M' : Mesh K),
  mark_as_neighbours i1 e1 i2 M = (M', Ok tt) ->
  i1 <> i2 /\
  (exists t1, nth_error (tris M') i1 = Some t1 /\ tp_valid t1 = true /\ tp_neighbour t1 e1 = Some i2) /\
  (exists t2 e2, nth_error (tris M') i2 = Some t2 /\ tp_valid t2 = true /\ tp_neighbour t2 e2 = Some i1).
Proof. exact (fun K NK => @mark_reciprocal K NK). Qed.

(** the full statement, kept for the record (NOT proved, see the header):
    Theorem C08_conf_struct_preserved : forall op M M', Conf_struct M -> separated M ->
      mesh_step op M = (M', Ok _) -> Conf_struct M'. *)

(** BEFORE fix 361bbb9 a step that failed could leave the mesh half updated: the pinned split_edge of the unit-square
    mesh at a point 1e-7 from the end of the edge returns Err after having invalidated the base triangle; the live
    split_edge refuses the same request with the mesh untouched *)
Theorem C08_split_edge_half_update_refuted :
  exists (M M' : Mesh float) (p : V3 float), forallb tp_valid (tris M) = true /\ CNT M /\
    split_edge_pinned 0 Ab p M = (M', Err 10%N) /\ forallb tp_valid (tris M') = false.
Proof.
  destruct w4_split_edge_half_update as (M & M' & H1 & H2 & H3 & H4 & _). exists M, M', (p2 1e-7 0)%float.
  split; [exact H2|]. split; [exact (proj2 (from_polygon_invariants _ _ H1))|]. split; assumption.
Qed.
Theorem C08_split_edge_w4_now_atomic :
  exists (M : Mesh float) (p : V3 float), from_polygon w4_poly = Ok M /\ split_edge 0 Ab p M = (M, Err 10%N).
Proof. destruct w4_split_edge_now_atomic as (M & H1 & H2). exists M, (p2 1e-7 0)%float. split; assumption. Qed.

(** non-vacuity: the unit-square mesh satisfies the invariants *)
Example C08_nonvacuous : exists M : Mesh float, from_polygon w4_poly = Ok M /\ WF M /\ CNT M /\ length (tris M) = 2.
Proof.
  destruct w_square_ok as (M & H1 & H2 & _). exists M. split; [exact H1|]. destruct (from_polygon_invariants _ _ H1) as [A B]. split; [exact A | split; [exact B | exact H2]].
Qed.
