(** * C08 / C01 -- the mesh produced by [from_polygon] satisfies the link-geometry invariant: the refinement theorems start
    from a PROVED state.  Statements only; proofs in Proofs/Mesh_links_init.v (examples: Proofs/Mesh_links_init_ex.v).

    [EM M] ("edge-manifold"): no two different live slots hold the same DIRECTED edge (Leibniz equality of the two end
    points, in order).  Equivalently, on meshes whose triangles have distinct corners: edges of two different slots with the
    same two end points are reversed ([C08_init_EM_reversed], [C08_init_EM_of_reversed]), and then an undirected edge belongs
    to at most two slots ([C08_init_EM_at_most_two]) -- so no link written by [mark_neighbourhouds] is overwritten by a
    later pair with a different value.
    B1 (every number instance): SEP + EM of the result  =>  LNKG and DIST of the result of [from_polygon]
      ([C08_init_links_of_EM]); more generally [mark_neighbourhouds] returning Ok keeps LNKG on SEP + DIST + EM meshes
      ([C08_init_mark_neighbourhouds_links]).  LNKG does not mention the constraint flags; the clipping loop only pushes
      (fresh slots, no link) and constrains.
    B2 (reals): for a sanitize-stable successful run ([stable_run], C01) whose polygon normal is a positive multiple of
      e1 x e2 ([frame_normal]; then every ear is counter-clockwise in the plane coordinates, C01_ears_positive) and whose closed
      merged outline winds at most once around every point off its edges ([jordan_le1]: the upper half of the Jordan hypothesis of
      C01_tile_exactly_proved, a hypothesis on the INPUT), EM holds ([C08_init_EM_of_tiling]): two ears on one directed edge
      would overlap near its midpoint, against C01_tiling_no_overlap.  No separation hypothesis is needed for B2.
    Composition: with the vertices of the outline separated ([VSEP]: Point3D::compare decides equality on them)
      [C08_initial_GEO]: GEO M; with the outline in the plane of the orthonormal frame [C08_initial_INV]: INV M
      (= WF, CNT, GEO, vertices in the plane, every live triangle counter-clockwise) -- the hypothesis [INV M0] of
      [C08_mesh_polygon_region] (Properties/C08_refine.v) is discharged: [C08_mesh_polygon_region_from_polygon].
    NOT covered: runs in which the periodic sanitize drops a vertex (as in C01); the Jordan property of the merged outline is
    a hypothesis; the float instance only through B1 (SEP / EM are then checked on the concrete mesh, as in the Example). *)
From Coq Require Import ZArith Reals List Floats.
From G3 Require Import Model.Num Model.NumF Model.Base Model.Vec Model.Segment Model.Triangle Model.Loop Model.Polygon Model.Triangulation
  Theory.RInst Theory.Cyclic Theory.Winding
  Proofs.Mesh_base Proofs.Mesh_wf Proofs.Mesh_conf Proofs.Mesh_region Proofs.Mesh_atomic
  Proofs.Mesh_links Proofs.Mesh_links_steps Proofs.Mesh_links_region Proofs.Mesh_refine_trace Proofs.Mesh_refine_region
  Proofs.C05_pointtest Proofs.C01_tiling Proofs.Mesh_witness Proofs.Mesh_links_init Proofs.Mesh_links_init_ex.
Import ListNotations.

(** ** the vocabulary *)
Theorem C08_init_def_EM : forall (K : Type) (NK : Num K) (M : Mesh K),
  EM M <-> forall (i j : nat) (Ti Tj : Tri K) (e e' : Edge), i <> j -> lvM M i Ti -> lvM M j Tj -> edge_pts Ti e <> edge_pts Tj e'.
Proof. intros. apply iff_refl. Qed.
Theorem C08_init_def_jordan_le1 : forall L2 : list P2,
  jordan_le1 L2 <-> forall d q : P2, generic d q L2 -> off_edges L2 q -> (wn d L2 q <= 1)%Z.
Proof. intros. apply iff_refl. Qed.
Theorem C08_init_EM_reversed : forall (K : Type) (NK : Num K) (M : Mesh K) (i j : nat) (Ti Tj : Tri K) (e e' : Edge),
  EM M -> i <> j -> lvM M i Ti -> lvM M j Tj -> same_seg (edge_pts Ti e) (edge_pts Tj e') -> edge_pts Tj e' = rev2 (edge_pts Ti e).
Proof. intros K NK. exact (@EM_reversed K). Qed.
Theorem C08_init_EM_at_most_two : forall (K : Type) (NK : Num K) (M : Mesh K) (i j k : nat) (Ti Tj Tk : Tri K) (e e' e'' : Edge),
  EM M -> DIST M -> i <> j -> lvM M i Ti -> lvM M j Tj -> lvM M k Tk ->
  same_seg (edge_pts Ti e) (edge_pts Tj e') -> same_seg (edge_pts Ti e) (edge_pts Tk e'') -> k = i \/ k = j.
Proof. intros K NK. exact (@EM_at_most_two K). Qed.
Theorem C08_init_EM_of_reversed : forall (K : Type) (NK : Num K) (M : Mesh K), DIST M ->
  (forall (i j : nat) (Ti Tj : Tri K) (e e' : Edge), i <> j -> lvM M i Ti -> lvM M j Tj ->
     same_seg (edge_pts Ti e) (edge_pts Tj e') -> edge_pts Tj e' = rev2 (edge_pts Ti e)) -> EM M.
Proof. intros K NK. exact (@EM_of_reversed K). Qed.

(** ** B1, every number instance *)
(** [mark_neighbourhouds] returning Ok keeps the skeleton and LNKG (on a mesh without links LNKG holds trivially) *)
Theorem C08_init_mark_neighbourhouds_links : forall (K : Type) (NK : Num K) (M M' : Mesh K),
  SEP M -> DIST M -> EM M -> LNKG M -> mark_neighbourhouds M = (M', Ok tt) -> skel (tris M') = skel (tris M) /\ LNKG M'.
Proof. exact @mark_neighbourhouds_links. Qed.
(** the initial mesh: every link that is set is exact, reversed and reciprocal; the corners of every triangle are distinct *)
Theorem C08_init_links_of_EM : forall (K : Type) (NK : Num K) (P : Poly K) (M : Mesh K),
  from_polygon P = Ok M -> SEP M -> EM M -> LNKG M /\ DIST M.
Proof. exact @from_polygon_links. Qed.

(** ** B2, reals: the ears of a sanitize-stable run on a Jordan outline never share a directed edge *)
Theorem C08_init_EM_of_tiling : forall (o e1 e2 : V3 R) (P : Poly R) (M : Mesh R) (L : Loop R),
  stable_run P M -> outline_of P L -> frame_normal e1 e2 P -> jordan_le1 (proj_outline o e1 e2 L) -> EM M.
Proof. exact EM_of_tiling. Qed.
(** the geometric core: two counter-clockwise triangles on one directed edge have a common interior point that lies on no
    line through two different points of a given finite set *)
Theorem C08_init_common_point : forall (S : list P2) (a b c c' : P2),
  (0 < orient a b c)%R -> (0 < orient a b c')%R ->
  exists q : P2, inside_tri a b c q /\ inside_tri a b c' q /\ forall u v, In u S -> In v S -> u <> v -> orient u v q <> 0%R.
Proof. exact common_point. Qed.

(** ** composition *)
Theorem C08_initial_GEO : forall (o e1 e2 : V3 R) (P : Poly R) (M : Mesh R) (L : Loop R),
  stable_run P M -> outline_of P L -> frame_normal e1 e2 P -> jordan_le1 (proj_outline o e1 e2 L) ->
  VSEP (fun x : V3 R => In x (verts L)) ->
  GEO M /\ AllPos o e1 e2 M.
Proof. intros o e1 e2 P M L H1 H2 H3 H4 H5. split; [exact (initial_GEO o e1 e2 P M L H1 H2 H3 H4 H5) | exact (initial_AllPos o e1 e2 P M H1 H3)]. Qed.
Theorem C08_initial_INV : forall (o e1 e2 : V3 R) (P : Poly R) (M : Mesh R) (L : Loop R),
  stable_run P M -> outline_of P L -> frame_normal e1 e2 P -> jordan_le1 (proj_outline o e1 e2 L) ->
  VSEP (fun x : V3 R => In x (verts L)) -> (forall v : V3 R, In v (verts L) -> in_plane o e1 e2 v) ->
  INV o e1 e2 M.
Proof. exact initial_INV. Qed.
(** [C08_mesh_polygon_region] with the invariants of the initial mesh proved instead of assumed *)
Theorem C08_mesh_polygon_region_from_polygon : forall (o e1 e2 : V3 R),
  vdot e1 e1 = 1%R -> vdot e2 e2 = 1%R -> vdot e1 e2 = 0%R ->
  forall (fuel : nat) (P : Poly R) (a m : R) (M0 M' : Mesh R) (r : rres) (L : Loop R),
    stable_run P M0 -> outline_of P L -> frame_normal e1 e2 P -> jordan_le1 (proj_outline o e1 e2 L) ->
    VSEP (fun x : V3 R => In x (verts L)) -> (forall v : V3 R, In v (verts L) -> in_plane o e1 e2 v) ->
    mesh_polygon fuel P a m = Ok (M', r) -> tr_ok (side o e1 e2 (fun _ => True)) M0 (refine_trace fuel a m M0) ->
    INV o e1 e2 M' /\ mesh_area2 o e1 e2 M' = mesh_area2 o e1 e2 M0.
Proof. exact mesh_polygon_region_from_polygon. Qed.

(** ** non-vacuity.  binary64: [from_polygon] of the unit square ([w4_poly]) is a sanitize-stable run whose mesh satisfies SEP
    and EM (checked by enumeration), hence LNKG and DIST; the two triangles are linked to each other *)
Example C08_init_nonvacuous :
  exists M : Mesh float, from_polygon w4_poly = Ok M /\ stable_run w4_poly M /\ SEP M /\ EM M /\ LNKG M /\ DIST M /\
    length (tris M) = 2%nat /\ (exists e e', lk M 0 e = Some 1%nat /\ lk M 1 e' = Some 0%nat).
Proof. exact init_links_float_nonvacuous. Qed.
(** reals: the outline of the same square meets the hypotheses on the outline (orthonormal frame, Jordan, separation, in the plane) *)
Example C08_init_hypotheses_nonvacuous :
  let o := r3 0 0 in let e1 := r3 1 0 in let e2 := r3 0 1 in
  vdot e1 e1 = 1%R /\ vdot e2 e2 = 1%R /\ vdot e1 e2 = 0%R /\
  map (plane2 o e1 e2) sqL = [(0, 0); (1, 0); (1, 1); (0, 1)]%R /\
  jordan_le1 (map (plane2 o e1 e2) sqL) /\
  VSEP (fun x : V3 R => In x sqL) /\
  (forall v : V3 R, In v sqL -> in_plane o e1 e2 v).
Proof. exact init_links_real_nonvacuous. Qed.
(** any parallelogram satisfies the Jordan hypothesis *)
Theorem C08_init_jordan_parallelogram : forall p0 p1 p2 p3 : P2,
  (fst p0 + fst p2 = fst p1 + fst p3)%R -> (snd p0 + snd p2 = snd p1 + snd p3)%R -> jordan_le1 [p0; p1; p2; p3].
Proof. exact jordan_parallelogram. Qed.
(** ** EM cannot be dropped from B1 (binary64 witness): three triangles on one edge, two of them holding it in the same direction;
    SEP and DIST hold, no link is set, [mark_neighbourhouds] returns Ok, and the resulting links are not reciprocal
    (a later pair overwrote the entry written by an earlier pair) *)
Theorem C08_init_EM_is_needed :
  exists M M' : Mesh float, SEP M /\ DIST M /\ LNKG M /\ (forall j e, lk M j e = None) /\
    mark_neighbourhouds M = (M', Ok tt) /\ ~ LNKG M' /\ ~ EM M.
Proof. exists fanM, fanM'. exact EM_is_needed. Qed.
