(** * C16 on primitive floats -- the float-tier theorems of Properties/C16.v restated for what is EXECUTED.
    Properties/C16.v (S) and (M) are about [NumB prec emax] (Flocq binary floats, every format with at least 8 bits);
    the correspondence check (Run/C06.v, which serves C16) runs the [*_with_error] / [*_propagate_error] / ray functions
    of Model/Transform.v on [NumF] (Coq's primitive binary64 floats) against the f64 build.
    [C16_prim_run_is_flocq_run] / [C16_prim_rays_are_flocq_rays] close the gap: the primitive-float run returns the
    [P2B]-preimage of the Flocq binary64 run on the [P2B]-images -- value and reported error, bit for bit
    ([P2B = Flocq.IEEE754.PrimFloat.Prim2B] is injective and [B2SF (P2B x) = Prim2SF x]).
    The theorems below are the binary64 instances of (S) and (M) read through it: quantified over primitive floats,
    [FR x = B2R (P2B x)] the real value of [x], [FV], [FM] the real vector / matrix, [Ffin3] finiteness of the three
    components ([Ffin x <-> PrimFloat.is_finite x = true]), [Faffine_last m]: bottom row exactly (0,0,0,1);
    [safe_prods], [safe_trans], [within], [inbox], [vle], [first_order], ... as in Properties/C16.v; [uro 53 = 2^-53].
    The (R) statements of Properties/C16.v are over the reals and need no counterpart; what the four ray functions
    return on primitive floats is given in terms of the point / vector functions by [C16_prim_ray_parts].
    Axioms: the primitive float / integer specifications (FloatAxioms, Uint63Axioms) besides the classical reals.
    Statements only, each closed by [exact]. *)
From Coq Require Import ZArith Reals Floats.
From Flocq Require Import Core BinarySingleNaN.
From G3 Require Import Model.Num Model.NumF Model.Base Model.Vec Model.BBox Model.Transform Theory.PrimBridge Proofs.Bridge_model.
From G3 Require Import Proofs.C06_transform Proofs.C16_errbound Proofs.C16_ray Proofs.Bridge_C16.
Local Open Scope R_scope.

(** ** the bridge *)
Theorem C16_prim_run_is_flocq_run : forall (m : M4 prim) (p e : V3 prim),
  mapP pV pV (@pt_with_error _ NumF m p) = @pt_with_error _ NumB64 (pM m) (pV p) /\
  mapP pV pV (@vec_with_error _ NumF m p) = @vec_with_error _ NumB64 (pM m) (pV p) /\
  mapP pV pV (@pt_propagate_error _ NumF m p e) = @pt_propagate_error _ NumB64 (pM m) (pV p) (pV e) /\
  mapP pV pV (@vec_propagate_error _ NumF m p e) = @vec_propagate_error _ NumB64 (pM m) (pV p) (pV e).
Proof.
  exact (fun m p e => conj (prim_pt_with_error m p) (conj (prim_vec_with_error m p)
         (conj (prim_pt_propagate_error m p e) (prim_vec_propagate_error m p e)))).
Qed.

(** the building blocks: matrix-point, matrix-vector, the two absolute-value products, the matrix product, the box *)
Theorem C16_prim_blocks_are_flocq_blocks : forall (m a : M4 prim) (p : V3 prim) (x y z : prim) (b : BBox prim),
  pV (@mul4x4point _ NumF m p) = @mul4x4point _ NumB64 (pM m) (pV p) /\
  pV (@mul4x4vec _ NumF m p) = @mul4x4vec _ NumB64 (pM m) (pV p) /\
  pV (@mul4x4_abs _ NumF m x y z) = @mul4x4_abs _ NumB64 (pM m) (P2B x) (P2B y) (P2B z) /\
  pV (@mul3x3_abs _ NumF m x y z) = @mul3x3_abs _ NumB64 (pM m) (P2B x) (P2B y) (P2B z) /\
  pM (@mul4x4 _ NumF m a) = @mul4x4 _ NumB64 (pM m) (pM a) /\
  pB (@bbox_by _ NumF m b) = @bbox_by _ NumB64 (pM m) (pB b).
Proof.
  exact (fun m a p x y z b => conj (prim_mul4x4point m p) (conj (prim_mul4x4vec m p) (conj (prim_mul4x4_abs m x y z)
         (conj (prim_mul3x3_abs m x y z) (conj (prim_mul4x4 m a) (prim_bbox_by m b)))))).
Qed.

(** the four ray functions ([ray_by m] = transform_ray / inv_transform_ray, [ray_propagate_by m] the propagating pair):
    nudged origin, direction and both reported errors *)
Theorem C16_prim_rays_are_flocq_rays : forall (m : M4 prim) (r : Ray prim) (oe de o d e : V3 prim),
  mapRayRes P2B (@ray_by _ NumF m r) = @ray_by _ NumB64 (pM m) (pR r) /\
  mapRayRes P2B (@ray_propagate_by _ NumF m r oe de) = @ray_propagate_by _ NumB64 (pM m) (pR r) (pV oe) (pV de) /\
  pV (@nudge _ NumF o d e) = @nudge _ NumB64 (pV o) (pV d) (pV e).
Proof. exact (fun m r oe de o d e => conj (prim_ray_by m r) (conj (prim_ray_propagate_by m r oe de) (prim_nudge o d e))). Qed.

Theorem C16_prim_ray_parts : forall (m : M4 prim) (r : Ray prim) (oe de : V3 prim),
  @ray_by _ NumF m r =
    (mkRay (@nudge _ NumF (fst (@pt_with_error _ NumF m (rorigin r))) (fst (@vec_with_error _ NumF m (rdir r)))
                          (snd (@pt_with_error _ NumF m (rorigin r))))
           (fst (@vec_with_error _ NumF m (rdir r))),
     snd (@pt_with_error _ NumF m (rorigin r)), snd (@vec_with_error _ NumF m (rdir r))) /\
  @ray_propagate_by _ NumF m r oe de =
    (mkRay (@nudge _ NumF (fst (@pt_propagate_error _ NumF m (rorigin r) oe)) (fst (@vec_propagate_error _ NumF m (rdir r) de))
                          (snd (@pt_propagate_error _ NumF m (rorigin r) oe)))
           (fst (@vec_propagate_error _ NumF m (rdir r) de)),
     snd (@pt_propagate_error _ NumF m (rorigin r) oe), snd (@vec_propagate_error _ NumF m (rdir r) de)).
Proof. exact (fun m r oe de => conj (prim_ray_by_parts m r) (prim_ray_propagate_by_parts m r oe de)). Qed.

(** ** (S) on primitive floats *)
Theorem C16_prim_S_vec : forall (m : M4 prim) (v : V3 prim),
  let re := @vec_with_error _ NumF m v in
  Ffin3 (snd re) -> safe_prods 53 1024 (FM m) (FV v) ->
  Ffin3 (fst re) /\ within 1 (FV (fst re)) (img_vec (FM m) (FV v)) (FV (snd re)).
Proof. exact prim_S_vec. Qed.

Theorem C16_prim_S_point : forall (m : M4 prim) (p : V3 prim),
  let re := @pt_with_error _ NumF m p in
  Faffine_last m -> Ffin3 (snd re) -> safe_prods 53 1024 (FM m) (FV p) ->
  Ffin3 (fst re) /\ within 1 (FV (fst re)) (img_pt (FM m) (FV p)) (FV (snd re)).
Proof. exact prim_S_point. Qed.

(** with an input error box: the factor (1 + 4u) of [C16_S_vec_box_partial] / [C16_S_point_box_partial] *)
Theorem C16_prim_S_vec_box_partial : forall (m : M4 prim) (v e : V3 prim),
  let re := @vec_propagate_error _ NumF m v e in
  Ffin3 (snd re) -> safe_prods 53 1024 (FM m) (FV v) -> safe_prods 53 1024 (FM m) (FV e) ->
  Ffin3 (fst re) /\
  forall x' : V3 R, inbox (FV v) (FV e) x' -> within (1 + 4 * uro 53) (FV (fst re)) (img_vec (FM m) x') (FV (snd re)).
Proof. exact prim_S_vec_box. Qed.

Theorem C16_prim_S_point_box_partial : forall (m : M4 prim) (p e : V3 prim),
  let re := @pt_propagate_error _ NumF m p e in
  Faffine_last m -> Ffin3 (snd re) -> safe_prods 53 1024 (FM m) (FV p) -> safe_prods 53 1024 (FM m) (FV e) ->
  Ffin3 (fst re) /\
  forall x' : V3 R, inbox (FV p) (FV e) x' -> within (1 + 4 * uro 53) (FV (fst re)) (img_pt (FM m) x') (FV (snd re)).
Proof. exact prim_S_point_box. Qed.

(** ** (M) on primitive floats *)
Theorem C16_prim_M_with_error : forall (m : M4 prim) (p : V3 prim),
  safe_prods 53 1024 (FM m) (FV p) -> safe_trans 53 1024 (FM m) ->
  Ffin3 (snd (@pt_with_error _ NumF m p)) ->
  vle (FV (snd (@pt_with_error _ NumF m p))) (vscaleR 2 (first_order (gamma3 53) (FM m) (FV p) V0)).
Proof. exact prim_M_with_error. Qed.

Theorem C16_prim_M_vec_with_error : forall (m : M4 prim) (v : V3 prim),
  safe_prods 53 1024 (FM m) (FV v) -> Ffin3 (snd (@vec_with_error _ NumF m v)) ->
  vle (FV (snd (@vec_with_error _ NumF m v))) (vscaleR 2 (vscaleR (gamma3 53) (abs_img (FM m) (FV v)))).
Proof. exact prim_M_vec_with_error. Qed.

Theorem C16_prim_M_propagate : forall (m : M4 prim) (p e : V3 prim),
  safe_prods 53 1024 (FM m) (FV p) -> safe_prods 53 1024 (FM m) (FV e) -> safe_trans 53 1024 (FM m) ->
  Ffin3 (snd (@pt_propagate_error _ NumF m p e)) ->
  vle (FV (snd (@pt_propagate_error _ NumF m p e))) (vscaleR 2 (first_order (gamma3 53) (FM m) (FV p) (FV e))).
Proof. exact prim_M_propagate. Qed.

Theorem C16_prim_M_vec_propagate : forall (m : M4 prim) (v e : V3 prim),
  safe_prods 53 1024 (FM m) (FV v) -> safe_prods 53 1024 (FM m) (FV e) ->
  Ffin3 (snd (@vec_propagate_error _ NumF m v e)) ->
  vle (FV (snd (@vec_propagate_error _ NumF m v e))) (vscaleR 2 (first_order_vec (gamma3 53) (FM m) (FV v) (FV e))).
Proof. exact prim_M_vec_propagate. Qed.

(** non-vacuity: the hypotheses all hold on the witness of the former (S) finding
    ([translate(0.1,0,0) . rotate_z(20) . rotate_x(35)], a 1e-9 input box) given as primitive floats *)
Example C16_prim_nonvacuous :
  Faffine_last wF_m /\ Ffin3 (snd (@pt_with_error _ NumF wF_m wF_p)) /\
  Ffin3 (snd (@vec_with_error _ NumF wF_m wF_p)) /\
  Ffin3 (snd (@pt_propagate_error _ NumF wF_m wF_p wF_e)) /\
  Ffin3 (snd (@vec_propagate_error _ NumF wF_m wF_p wF_e)) /\
  safe_prods 53 1024 (FM wF_m) (FV wF_p) /\ safe_prods 53 1024 (FM wF_m) (FV wF_e) /\
  safe_trans 53 1024 (FM wF_m) /\ inbox (FV wF_p) (FV wF_e) (FV wF_p).
Proof. exact prim_C16_nonvacuous. Qed.
