(** * C05 -- point-in-loop and point-in-polygon answers.
    Exact tier: the model of Loop3D::test_point / Polygon3D::test_point read on the real numbers.
    The chain proved here (about the code as it is, i.e. after fix 6f318c4 of the ray length):
      gates (open loop => error; off-plane point => outside; polygon = outer and not in any hole);
      CORE   for a closed, exactly planar loop, a point of its plane that no edge "contains" and a GENERIC cast
             segment, test_point = parity of the number of edges properly crossed by the cast segment
             q -> q + d,  d = (q - m) max(2 reach, 1000) / |q - m|  (m = midpoint of the first stored edge, reach =
             distance from q to the farthest vertex);
      that crossing predicate means "the segment meets the edge at an interior point of the edge";
      the cast segment passes every vertex (proved for the live code), so it is the crossing number of the RAY;
      in 2-D coordinates of the plane the predicate is the planar one;
      planar: the ray's crossing parity = parity of the number of fan triangles containing the point, for ANY apex
      in general position = parity of the winding number (Theory/Winding.v) -- it does not depend on the ray.
    The hypotheses that remain are exactly the recorded findings (known_findings.json):
      "no edge contains q"     <-> C05:on-edge-tolerance / C05:on-edge-parameter (F7 (ii) and its parameter test),
      "generic" (edge_generic) <-> C05:vertex-grazing     (F7 (iii)) and the absolute parallelism tolerance (F11).
    Finding C05:ray-too-short (F7 (i)) is FIXED (6f318c4); its machine-checked record is kept in the C05_pinned_*
    statements about [loop_test_point_pinned] (Model/PinnedLoop.v, the code before the fix), which need the length
    hypothesis [long_enough] that the witness violates.
    Witnesses of each finding are evaluated below on the binary64 instance of the same model text. *)
From Coq Require Import ZArith Reals Bool List Arith Floats.
From G3 Require Import Model.Num Model.NumF Model.Base Model.Vec Model.Segment Model.Loop Model.Polygon Model.PinnedLoop
  Theory.RInst Theory.LoopGeom Proofs.C05_pointtest Proofs.C05_examples Proofs.C05_winding.
From G3 Require Theory.Cyclic Theory.Winding.
Import ListNotations.
Local Open Scope R_scope.

(** ** gates *)
Theorem C05_open_loop_is_error : forall (L : Loop R) (q : V3 R), lclosed L = false -> loop_test_point L q = Err 34%N.
Proof. exact test_point_open. Qed.

(** a point at least 1e-7 off the loop's plane is outside *)
Theorem C05_off_plane_is_outside : forall (L : Loop R) (q v0 : V3 R) (rest : list (V3 R)),
  lclosed L = true -> verts L = v0 :: rest -> vis_zero (lnormal L) = false ->
  / 10000000 <= Rabs (vdot (lnormal L) (vsub v0 q)) -> loop_test_point L q = Ok false.
Proof. exact test_point_off_plane. Qed.

(** polygon = inside the outer loop and inside no hole (whenever the individual loop tests answer) *)
Theorem C05_polygon_is_outer_and_not_hole : forall (P : Poly R) (q : V3 R) (o : bool) (bs : list bool),
  loop_test_point (pouter P) q = Ok o -> Forall2 (fun h b => loop_test_point h q = Ok b) (pinner P) bs ->
  poly_test_point P q = Ok (o && negb (existsb (fun b => b) bs)).
Proof. exact poly_test_point_outer_and_not_hole. Qed.

(** ** the core *)
(** [test_ray L q] = [loop_ray L q], the cast segment of the live code.
    [edge_generic n q d a b] (Proofs/C05_pointtest.v): a and b lie in the plane of q;  |(b - a) x d|^2 >= 1e-5
    (not parallel for [is_same_direction] and for the projection threshold of [get_intersection_pt]);
    the line of the cast segment does not pass through b, nor within EPSILON (in the
    edge's parameter) of a -- i.e. the vertex rules of test_point are not consulted.
    [crossb3 n q d a b]: a and b strictly on opposite sides of the segment's line and q, q + d on opposite sides of
    (or on) the edge's line. *)
Theorem C05_test_point_counts_crossings : forall (L : Loop R) (q : V3 R),
  lclosed L = true -> (2 <= llen L)%nat ->
  let n := lnormal L in let d := test_ray L q in
  vis_zero n = false -> 0 < vdot n n ->
  (forall a b, In (a, b) (cyc_edges (verts L)) -> seg_contains_point (seg_new a b) q = Ok false /\ edge_generic n q d a b) ->
  loop_test_point L q = Ok (Nat.odd (countb (crossb3 n q d) (cyc_edges (verts L)))).
Proof. exact test_point_counts_crossings. Qed.

(** the intersection solve is exact for coplanar segments, and defined under the library's own thresholds *)
Theorem C05_intersection_solve_exact : forall (a b q e : V3 R) (ta tb : R),
  seg_get_intersection_pt (seg_new a b) (seg_new q e) = Some (ta, tb) ->
  vdot (vsub a q) (vcross (vsub b a) (vsub e q)) = 0 ->
  vadd a (vscale (vsub b a) ta) = vadd q (vscale (vsub e q) tb).
Proof. exact gip_solves. Qed.

(** the crossing predicate is geometric: the cast segment meets the edge at a point interior to the edge *)
Theorem C05_crossing_is_geometric : forall n q d a b : V3 R,
  0 < vdot n n -> vdot n d = 0 -> vdot n (vsub b a) = 0 -> vdot n (vsub a q) = 0 ->
  vdot n (vcross (vsub b a) d) <> 0 ->
  (crossb3 n q d a b = true <->
   exists ta tb, 0 < ta < 1 /\ 0 <= tb <= 1 /\ vadd a (vscale (vsub b a) ta) = vadd q (vscale d tb)).
Proof. exact crossb3_meets. Qed.

(** ** segment -> ray.  [long_enough q d vs]: (v - q) . d <= d . d for every vertex, i.e. the cast segment exceeds the
    extent of the loop along the ray (the hypothesis that finding F7 (i) violated) *)
Theorem C05_long_segment_is_ray : forall (n q d : V3 R) (vs : list (V3 R)),
  vdot n d = 0 -> 0 < vdot d d -> long_enough q d vs ->
  countb (crossb3 n q d) (cyc_edges vs) = countb (rayb3 n q d) (cyc_edges vs).
Proof. exact count_long_segment_is_ray. Qed.

(** the cast segment of the live code passes every vertex (and is at least 1000 long) whenever q is not the midpoint m *)
Theorem C05_ray_long_enough : forall (L : Loop R) (q : V3 R),
  0 < vlen2 (vsub q (vscale (vadd (vnth (verts L) O) (vnth (verts L) (S O))) nhalf)) ->
  long_enough q (test_ray L q) (verts L) /\ 1000 * 1000 <= vdot (test_ray L q) (test_ray L q).
Proof. exact loop_ray_long_enough. Qed.
(** hence: the parity of the edges crossed by the RAY, with no length hypothesis *)
Theorem C05_test_point_counts_ray_crossings : forall (L : Loop R) (q : V3 R),
  lclosed L = true -> (2 <= llen L)%nat ->
  let n := lnormal L in let d := test_ray L q in
  vis_zero n = false -> 0 < vdot n n ->
  (forall a b, In (a, b) (cyc_edges (verts L)) -> seg_contains_point (seg_new a b) q = Ok false /\ edge_generic n q d a b) ->
  loop_test_point L q = Ok (Nat.odd (countb (rayb3 n q d) (cyc_edges (verts L)))).
Proof. exact test_point_counts_ray_crossings. Qed.

(** ** the plane: coordinates (e1 . (p - o), e2 . (p - o)) with e1 x e2 = n turn the 3-D predicate into the planar one *)
Theorem C05_plane_coordinates : forall o e1 e2 q d a b : V3 R,
  rayb3 (vcross e1 e2) q d a b = ray_cross2 (plane2 o e1 e2 q) (planev e1 e2 d) (plane2 o e1 e2 a) (plane2 o e1 e2 b).
Proof. exact rayb3_plane. Qed.

(** ** planar: crossing parity of a ray = parity of the number of fan triangles containing q (any apex o in general
    position); the right-hand side does not mention the direction d *)
Theorem C05_ray_parity_is_fan_parity : forall (q d o : P2) (vs : list P2),
  hgt2 q d o <> 0 ->
  (forall v, In v vs -> hgt2 q d v <> 0 /\ orient2 o v q <> 0) ->
  (forall a b, In (a, b) (cyc_edges2 vs) -> orient2 a b q <> 0) ->
  xpar (ray_cross2 q d) (cyc_edges2 vs) = xpar (in_tri2 q o) (cyc_edges2 vs).
Proof. exact ray_parity_fan. Qed.
Theorem C05_ray_parity_direction_independent : forall (q d d' o : P2) (vs : list P2),
  hgt2 q d o <> 0 -> hgt2 q d' o <> 0 ->
  (forall v, In v vs -> hgt2 q d v <> 0 /\ hgt2 q d' v <> 0 /\ orient2 o v q <> 0) ->
  (forall a b, In (a, b) (cyc_edges2 vs) -> orient2 a b q <> 0) ->
  xpar (ray_cross2 q d) (cyc_edges2 vs) = xpar (ray_cross2 q d') (cyc_edges2 vs).
Proof. exact ray_parity_direction_independent. Qed.

(** ** assembled.  PARTIAL with respect to the property: the statements still carry (a) exact planarity, (b) "no edge
    contains q" in the sense of [contains_point] (which is wider than the property's 1e-5: findings on-edge-tolerance /
    on-edge-parameter), (c) genericity of the cast segment (finding vertex-grazing: the vertex rules are NOT proved
    correct -- in floating point they are not, see the witness below).  The length hypothesis is gone (fix 6f318c4).
    Under these, [test_point] = parity of the number of fan triangles containing q (self-contained, Theory/LoopGeom.v)
    = parity of the winding number of Theory/Winding.v about q, along the code's ray or any other generic ray; for an
    outline with winding numbers in {0,1} (the input space of DESIGN D2; that simple polygons are such is the Jordan
    curve theorem, not proved) the answer is [true] iff wn = 1. *)
Theorem C05_test_point_fan_parity_partial : forall (L : Loop R) (q o e1 e2 : V3 R) (apex : P2),
  lclosed L = true -> (2 <= llen L)%nat ->
  let n := lnormal L in let d := test_ray L q in
  let pr := plane2 o e1 e2 in let q' := pr q in let d' := planev e1 e2 d in
  vis_zero n = false -> 0 < vdot n n -> n = vcross e1 e2 ->
  (forall a b, In (a, b) (cyc_edges (verts L)) -> seg_contains_point (seg_new a b) q = Ok false /\ edge_generic n q d a b) ->
  hgt2 q' d' apex <> 0 ->
  (forall v, In v (verts L) -> hgt2 q' d' (pr v) <> 0 /\ orient2 apex (pr v) q' <> 0) ->
  (forall a b, In (a, b) (cyc_edges (verts L)) -> orient2 (pr a) (pr b) q' <> 0) ->
  loop_test_point L q = Ok (xpar (in_tri2 q' apex) (cyc_edges2 (map pr (verts L)))).
Proof. exact test_point_fan_parity. Qed.

Theorem C05_test_point_is_winding_parity_partial : forall (L : Loop R) (q o e1 e2 : V3 R),
  lclosed L = true -> (2 <= llen L)%nat ->
  let n := lnormal L in let d := test_ray L q in
  let pr := plane2 o e1 e2 in let q' := pr q in let d' := planev e1 e2 d in
  vis_zero n = false -> 0 < vdot n n -> n = vcross e1 e2 ->
  (forall a b, In (a, b) (cyc_edges (verts L)) -> seg_contains_point (seg_new a b) q = Ok false /\ edge_generic n q d a b) ->
  (forall a b, In (a, b) (cyc_edges (verts L)) -> orient2 (pr a) (pr b) q' <> 0) ->
  loop_test_point L q = Ok (Z.odd (Winding.wn d' (map pr (verts L)) q')).
Proof. exact test_point_wn_parity. Qed.
Theorem C05_test_point_is_membership_partial : forall (L : Loop R) (q o e1 e2 : V3 R),
  lclosed L = true -> (2 <= llen L)%nat ->
  let n := lnormal L in let d := test_ray L q in
  let pr := plane2 o e1 e2 in let q' := pr q in let d' := planev e1 e2 d in
  vis_zero n = false -> 0 < vdot n n -> n = vcross e1 e2 ->
  (forall a b, In (a, b) (cyc_edges (verts L)) -> seg_contains_point (seg_new a b) q = Ok false /\ edge_generic n q d a b) ->
  (forall a b, In (a, b) (cyc_edges (verts L)) -> orient2 (pr a) (pr b) q' <> 0) ->
  (0 <= Winding.wn d' (map pr (verts L)) q' <= 1)%Z ->
  (loop_test_point L q = Ok true <-> Winding.wn d' (map pr (verts L)) q' = 1%Z).
Proof. exact test_point_is_membership. Qed.
Theorem C05_answer_independent_of_ray_partial : forall (L : Loop R) (q o e1 e2 : V3 R) (d2 : P2),
  lclosed L = true -> (2 <= llen L)%nat ->
  let n := lnormal L in let d := test_ray L q in
  let pr := plane2 o e1 e2 in let q' := pr q in let d' := planev e1 e2 d in
  vis_zero n = false -> 0 < vdot n n -> n = vcross e1 e2 ->
  (forall a b, In (a, b) (cyc_edges (verts L)) -> seg_contains_point (seg_new a b) q = Ok false /\ edge_generic n q d a b) ->
  (forall a b, In (a, b) (cyc_edges (verts L)) -> orient2 (pr a) (pr b) q' <> 0) ->
  Winding.generic d' q' (map pr (verts L)) -> Winding.generic d2 q' (map pr (verts L)) -> Winding.off_edges (map pr (verts L)) q' ->
  loop_test_point L q = Ok (Z.odd (Winding.wn d2 (map pr (verts L)) q')).
Proof. exact test_point_any_ray. Qed.

(** ** the code before fix 6f318c4 ([loop_test_point_pinned], cast segment 1000 (q - m); Model/PinnedLoop.v): record of
    finding C05:ray-too-short.  The same statements hold only under the length hypothesis ... *)
Theorem C05_pinned_test_point_counts_crossings : forall (L : Loop R) (q : V3 R),
  lclosed L = true -> (2 <= llen L)%nat ->
  let n := lnormal L in let d := pinned_ray L q in
  vis_zero n = false -> 0 < vdot n n ->
  (forall a b, In (a, b) (cyc_edges (verts L)) -> seg_contains_point (seg_new a b) q = Ok false /\ edge_generic n q d a b) ->
  loop_test_point_pinned L q = Ok (Nat.odd (countb (crossb3 n q d) (cyc_edges (verts L)))).
Proof. exact pinned_test_point_counts_crossings. Qed.
Theorem C05_pinned_test_point_is_winding_parity_if_long_enough : forall (L : Loop R) (q o e1 e2 : V3 R),
  lclosed L = true -> (2 <= llen L)%nat ->
  let n := lnormal L in let d := pinned_ray L q in
  let pr := plane2 o e1 e2 in let q' := pr q in let d' := planev e1 e2 d in
  vis_zero n = false -> 0 < vdot n n -> n = vcross e1 e2 ->
  (forall a b, In (a, b) (cyc_edges (verts L)) -> seg_contains_point (seg_new a b) q = Ok false /\ edge_generic n q d a b) ->
  0 < vdot d d -> long_enough q d (verts L) ->
  (forall a b, In (a, b) (cyc_edges (verts L)) -> orient2 (pr a) (pr b) q' <> 0) ->
  loop_test_point_pinned L q = Ok (Z.odd (Winding.wn d' (map pr (verts L)) q')).
Proof. exact pinned_test_point_wn_parity. Qed.
(** ... which fails for the witness q = (1/2, 1/10000, 0) of the unit square (the vertex (1,1,0) is not passed) *)
Theorem C05_pinned_length_hypothesis_fails :
  ~ long_enough (mkV3 (1 / 2) (1 / 10000) 0) (pinned_ray usq (mkV3 (1 / 2) (1 / 10000) 0)) (verts usq).
Proof. exact usq_f7_not_long_enough. Qed.

(** ** non-vacuity (rational data, unit square): the hypotheses of the core theorem hold for q = (4/5, 2/5, 0) (its cast
    segment is (600, 800, 0)), and the answer is [true] *)
Example C05_unit_square_hypotheses :
  lclosed usq = true /\ (2 <= llen usq)%nat /\ vis_zero (lnormal usq) = false /\ 0 < vdot (lnormal usq) (lnormal usq) /\
  (forall a b, In (a, b) (cyc_edges (verts usq)) ->
     seg_contains_point (seg_new a b) uq = Ok false /\ edge_generic (lnormal usq) uq (test_ray usq uq) a b) /\
  test_ray usq uq = mkV3 600 800 0 /\
  loop_test_point usq uq = Ok true.
Proof.
  destruct usq_gates as [G1 [G2 [G3 G4]]]. split; [exact G1|]. split; [exact G2|]. split; [exact G3|]. split; [exact G4|].
  split; [exact usq_edges|]. split; [exact test_ray_usq | exact usq_inside].
Qed.
(** ** refutations of the unqualified property on the binary64 instance (each reproduced on the real crate) *)
Local Open Scope float_scope.
(** (i) C05:ray-too-short, FIXED by 6f318c4 -- (0.5, 1e-4, 0) is inside the unit square: the code before the fix
    ([ftest_pinned]) answered [false], the live code ([ftest]) answers [true] *)
Theorem C05_pinned_ray_too_short_refuted : exists (L : Loop float) (q : V3 float),
  L = fsq 1 /\ q = mkV3 0.5 1e-4 0 /\ ftest_pinned L q = Ok false /\ ftest L q = Ok true.
Proof. exists (fsq 1), (mkV3 0.5 1e-4 0). split; [reflexivity|]. split; [reflexivity|]. split; [exact (proj1 f7_ray_too_short_pinned) | exact (proj1 f7_ray_too_short_live)]. Qed.
(** (ii) C05:on-edge-tolerance -- square of side 0.1: the point 5e-5 outside the bottom edge is reported inside *)
Theorem C05_on_edge_tolerance_refuted : exists (L : Loop float) (q : V3 float),
  L = fsq 0.1 /\ q = mkV3 0.05 (-5e-5) 0 /\ ftest L q = Ok true.
Proof. exists (fsq 0.1), (mkV3 0.05 (-5e-5) 0). split; [reflexivity|]. split; [reflexivity|]. exact (proj1 f7_on_edge_tolerance). Qed.
(** (iv) C05:on-edge-parameter -- (1.001, 1.009, 0) lies 0.009 beyond the end of the edge (1,0)-(1.001,1) *)
Theorem C05_on_edge_parameter_refuted : exists (L : Loop float) (q : V3 float),
  L = fquad /\ q = mkV3 1.001 1.009 0 /\ ftest L q = Ok true.
Proof. exists fquad, (mkV3 1.001 1.009 0). split; [reflexivity|]. split; [reflexivity|]. exact (proj1 f7_on_edge_parameter). Qed.
(** (iii) C05:vertex-grazing -- rectangle 0.7 x 0.3: the ray of the interior point (0.175, 0.15, 0) is aimed at the vertex (0, 0.3, 0) *)
Theorem C05_vertex_grazing_refuted : exists (L : Loop float) (q : V3 float),
  L = frect /\ q = mkV3 0.175 0.15 0 /\ ftest L q = Ok false.
Proof. exists frect, (mkV3 0.175 0.15 0). split; [reflexivity|]. split; [reflexivity|]. exact (proj1 f7_vertex_grazing). Qed.
