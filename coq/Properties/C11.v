(** * C11 -- cutting a hole is all-or-nothing and accounts for its area (histories of candidate holes).
    All theorems hold for EVERY number instance of the model (reals, Flocq floats, primitive floats):
    they are structural facts about Polygon3D::cut_hole, by induction over candidate lists of any length.
    The geometric reading of the acceptance condition ("inside", "outside every hole", "does not enclose")
    is the one of Loop3D::test_point (property C05) and is checked on the implementation by the exact
    oracle lib/pC11.py with margins >= 1e-3. *)
From Coq Require Import ZArith List Floats.
From G3 Require Import Model.Num Model.NumF Model.Base Model.Vec Model.Segment Model.Loop Model.Polygon Model.PolyAux Proofs.C11_cut_hole.
Import ListNotations.
Local Open Scope num_scope.

(** on refusal (any error class, or a panic) the polygon is unchanged *)
Theorem C11_refused_unchanged : forall (K : Type) (NK : Num K) (P : Poly K) (h : Loop K),
  snd (poly_step P h) <> Ok tt -> fst (poly_step P h) = P.
Proof. exact (fun K NK => @refused_unchanged K NK). Qed.

(** on success the area decreases by exactly the hole's area, the hole is appended, outer loop and
    normal are unchanged (and the hole was a closed loop) *)
Theorem C11_accepted_accounts : forall (K : Type) (NK : Num K) (P P' : Poly K) (h : Loop K),
  poly_cut_hole P h = Ok P' ->
  parea P' = parea P - larea h /\ pinner P' = pinner P ++ [h] /\ pouter P' = pouter P /\ pnormal P' = pnormal P /\ lclosed h = true.
Proof. exact (fun K NK => @accepted_accounts K NK). Qed.

(** after ANY list of candidate holes: area = area before - the accepted holes' areas, subtracted left
    to right (the expression the code computes), holes = holes before ++ the accepted candidates *)
Theorem C11_history_accounting : forall (K : Type) (NK : Num K) (hs : list (Loop K)) (P : Poly K),
  let r := poly_run P hs in
  parea (fst r) = sub_areas (parea P) (accepted_of hs (snd r)) /\
  pinner (fst r) = pinner P ++ accepted_of hs (snd r) /\
  pouter (fst r) = pouter P /\ pnormal (fst r) = pnormal P /\ length (snd r) = length hs.
Proof. exact (fun K NK => @history_accounting K NK). Qed.

(** from Polygon3D::new: area = outer area - accepted areas; number of holes = number of accepted calls *)
Theorem C11_history_from_new : forall (K : Type) (NK : Num K) (outer : Loop K) (P : Poly K) (hs : list (Loop K)),
  poly_new outer = Ok P ->
  let r := poly_run P hs in
  parea (fst r) = sub_areas (larea outer) (accepted_of hs (snd r)) /\
  pinner (fst r) = accepted_of hs (snd r) /\
  length (pinner (fst r)) = length (filter (@is_ok unit) (snd r)) /\
  pouter (fst r) = outer /\ pnormal (fst r) = lnormal outer.
Proof. exact (fun K NK => @history_from_new K NK). Qed.

(** acceptance <-> normals parallel /\ every hole vertex tests inside the polygon /\ no vertex of an
    existing hole tests inside the new hole /\ the hole is closed *)
Theorem C11_acceptance : forall (K : Type) (NK : Num K) (P : Poly K) (h : Loop K),
  (exists P', poly_cut_hole P h = Ok P') <->
  vis_parallel (pnormal P) (lnormal h) = true /\
  (forall v, In v (verts h) -> poly_test_point P v = Ok true) /\
  (forall g, In g (pinner P) -> forall w, In w (verts g) -> loop_test_point h w = Ok false) /\
  lclosed h = true.
Proof. exact (fun K NK => @acceptance K NK). Qed.

(** never a panic: no panic site of the model (unwrap / expect / index / % 0) is reachable from
    Polygon3D::new, cut_hole or any history of cut_hole calls *)
Theorem C11_no_panic : forall (K : Type) (NK : Num K) (hs : list (Loop K)) (P : Poly K) (s : N),
  ~ In (Panic s) (snd (poly_run P hs)).
Proof. exact (fun K NK => @run_no_panic K NK). Qed.
Theorem C11_cut_hole_no_panic : forall (K : Type) (NK : Num K) (P : Poly K) (h : Loop K) (s : N), poly_cut_hole P h <> Panic s.
Proof. exact (fun K NK => @cut_hole_no_panic K NK). Qed.

(** non-vacuity (binary64 instance): the 4x4 square; a 2x2 hole is accepted (area 16 -> 12), a tilted
    triangle is refused for its plane, a hole enclosing the first one is refused, a point-disjoint second
    hole is accepted (area 12 -> 11.75): outcomes and accounting as the theorems say *)
Definition mk (pts : list (V3 float)) : Loop float := fst (loop_run loop_new (map (fun p => LPush p) pts ++ [LClose])).
Example C11_nonvacuous :
  let sq l := [mkV3 (-l) (-l) 0; mkV3 l (-l) 0; mkV3 l l 0; mkV3 (-l) l 0]%float in
  let tilted := mk [mkV3 (-1) (-1) 0; mkV3 1 (-1) 0; mkV3 0 1 2]%float in
  let small := mk [mkV3 1.25 1.25 0; mkV3 1.75 1.25 0; mkV3 1.75 1.75 0; mkV3 1.25 1.75 0]%float in
  match poly_new (mk (sq 2%float)) with
  | Ok P =>
    let r := poly_run P [mk (sq 1%float); tilted; mk (sq 1.5%float); small] in
    snd r = [Ok tt; Err 50%N; Err 52%N; Ok tt] /\ parea P = 16%float /\ parea (fst r) = 11.75%float /\ length (pinner (fst r)) = 2
  | _ => False
  end.
Proof. vm_compute. repeat split; reflexivity. Qed.
