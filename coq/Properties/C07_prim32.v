(** * C07 (and every float-tier property) on the f32 build: the EXECUTED binary32 instance IS IEEE binary32.
    The f32 build of the crate (`--features float`) is tied to the model instance [NumF32] (Model/NumF32.v; executed as
    [NumF32fast], proved equal in Run/FastNum32Proof.v): primitive binary64 floats that hold binary32 values, every
    arithmetic operation being the binary64 operation followed by the rounding [r32] to binary32.  The float-tier
    theorems are about Flocq's [NumB32 = NumB 24 128].  This file states the link, PROVED in Theory/F32Bridge.v:
    - double rounding through binary64 is innocuous for + - * / sqrt on binary32 values, special values included
      (NaN, infinities, signed zeros, overflow to infinity, binary32 subnormals, x/0, sqrt of negatives):
      [C07_prim32_double_rounding_innocuous] (bit level), [C07_prim32_double_rounding_real] (the real-number content,
      Flocq.Prop.Double_rounding at (24,-149) inside (53,-1074): 53 >= 2*24+2);
    - [of_b32 : b32 -> float] is a TOTAL homomorphism [NumB32 -> NumF32] for every non-libm member of [Num]
      ([C07_prim32_of_b32_is_a_homomorphism]; also into [NumF32fast]), with left inverse [to_b32], image = the
      binary32-valued floats [is32], closed under every operation ([C07_prim32_closure]);
    - [to_b32] commutes with every non-libm member on binary32-valued floats ([C07_prim32_members]);
    - the interval operators of [ApproxFloat] on the f32 instance are the Flocq binary32 run ([C07_prim32_run_is_flocq_run]),
      so each theorem [C07_op] of Properties/C07.v (instance (24,128)) applies to the executed f32 intervals.
    Axioms: the primitive float / integer specifications, the classical reals.  Statements only. *)
From Coq Require Import ZArith Reals Floats.
From Flocq Require Import Core BinarySingleNaN.
From G3 Require Import Model.Num Model.NumF Model.NumF32 Model.Base Model.RoundError Run.FastNum32.
From G3 Require Import Theory.PrimBridge Theory.F32Bridge Proofs.Bridge_interval Proofs.Bridge32_model.

(** the header claim of Model/NumF32.v *)
Theorem C07_prim32_double_rounding_innocuous : forall x y : prim, is32 x -> is32 y ->
  to_b32 (r32 (x + y)%float) = @nadd _ NumB32 (to_b32 x) (to_b32 y) /\
  to_b32 (r32 (x - y)%float) = @nsub _ NumB32 (to_b32 x) (to_b32 y) /\
  to_b32 (r32 (x * y)%float) = @nmul _ NumB32 (to_b32 x) (to_b32 y) /\
  to_b32 (r32 (x / y)%float) = @ndiv _ NumB32 (to_b32 x) (to_b32 y) /\
  to_b32 (r32 (PrimFloat.sqrt x)) = @nsqrt _ NumB32 (to_b32 x).
Proof. exact double_rounding_innocuous. Qed.

Theorem C07_prim32_double_rounding_real : forall a b : b32,
  let r32R := round radix2 (FLT_exp (-149) 24) ZnearestE in let r64R := round radix2 (FLT_exp (-1074) 53) ZnearestE in
  r32R (r64R (B2R a + B2R b)) = r32R (B2R a + B2R b) /\
  r32R (r64R (B2R a - B2R b)) = r32R (B2R a - B2R b) /\
  r32R (r64R (B2R a * B2R b)) = r32R (B2R a * B2R b) /\
  (B2R b <> 0%R -> r32R (r64R (B2R a / B2R b)) = r32R (B2R a / B2R b)) /\
  r32R (r64R (R_sqrt.sqrt (B2R a))) = r32R (R_sqrt.sqrt (B2R a)).
Proof. exact double_rounding_real. Qed.

(** the embedding of binary32 into the executed instance commutes with everything (no side condition) *)
Theorem C07_prim32_of_b32_is_a_homomorphism :
  NumHom NumB32 NumF32 of_b32 /\ NumHom NumB32 NumF32fast of_b32 /\ NumF32fast = NumF32 /\
  (forall b : b32, to_b32 (of_b32 b) = b) /\ (forall x : prim, is32 x <-> exists b : b32, x = of_b32 b).
Proof. exact (conj of_b32_hom (conj of_b32_hom_fast (conj f32_executed_instance (conj to_b32_of_b32 is32_iff)))). Qed.

(** every operation of the executed instance returns a binary32-valued float *)
Theorem C07_prim32_closure : forall x y : prim,
  is32 (@nadd _ NumF32 x y) /\ is32 (@nsub _ NumF32 x y) /\ is32 (@nmul _ NumF32 x y) /\ is32 (@ndiv _ NumF32 x y) /\
  is32 (@nsqrt _ NumF32 x) /\ (is32 x -> is32 (@nneg _ NumF32 x)) /\ (is32 x -> is32 (@nabs _ NumF32 x)) /\
  is32 (@nnext_up _ NumF32 x) /\ is32 (@nnext_dn _ NumF32 x) /\ (forall z, is32 (@nofZ _ NumF32 z)) /\
  is32 (@neps _ NumF32) /\ is32 (@nmaxf _ NumF32) /\ is32 (@ninf _ NumF32) /\
  is32 (@nsin _ NumF32 x) /\ is32 (@ncos _ NumF32 x) /\ is32 (@ntan _ NumF32 x) /\ is32 (@nacos _ NumF32 x) /\
  is32 (@natan2 _ NumF32 y x) /\ is32 (@npi _ NumF32).
Proof.
  exact (fun x y => conj (is32_nadd x y) (conj (is32_nsub x y) (conj (is32_nmul x y) (conj (is32_ndiv x y) (conj (is32_nsqrt x)
    (conj (is32_nneg x) (conj (is32_nabs x) (conj (is32_nnext_up x) (conj (is32_nnext_dn x) (conj is32_nofZ (conj is32_neps
    (conj is32_nmaxf (conj is32_ninf (conj (is32_nsin x) (conj (is32_ncos x) (conj (is32_ntan x) (conj (is32_nacos x)
    (conj (is32_natan2 y x) is32_npi)))))))))))))))))).
Qed.

(** [to_b32] on the remaining members: exact operations, comparisons, next_up/down, literals, constants *)
Theorem C07_prim32_members : forall x y : prim, is32 x -> is32 y ->
  (to_b32 (@nneg _ NumF32 x) = @nneg _ NumB32 (to_b32 x) /\ to_b32 (@nabs _ NumF32 x) = @nabs _ NumB32 (to_b32 x)) /\
  (@nltb _ NumF32 x y = @nltb _ NumB32 (to_b32 x) (to_b32 y) /\ @nleb _ NumF32 x y = @nleb _ NumB32 (to_b32 x) (to_b32 y) /\
   @neqb _ NumF32 x y = @neqb _ NumB32 (to_b32 x) (to_b32 y) /\ @nis_nan _ NumF32 x = @nis_nan _ NumB32 (to_b32 x)) /\
  (to_b32 (@nnext_up _ NumF32 x) = @nnext_up _ NumB32 (to_b32 x) /\ to_b32 (@nnext_dn _ NumF32 x) = @nnext_dn _ NumB32 (to_b32 x)) /\
  (forall z, (Z.abs z < 2 ^ 53)%Z -> to_b32 (@nofZ _ NumF32 z) = @nofZ _ NumB32 z) /\
  (forall p q, (Z.abs p < 2 ^ 53)%Z -> (Z.abs q < 2 ^ 53)%Z -> to_b32 (@nofQ _ NumF32 p q) = @nofQ _ NumB32 p q) /\
  (forall k, (Z.abs k < 2 ^ 53)%Z -> to_b32 (@ngamma _ NumF32 k) = @ngamma _ NumB32 k) /\
  (to_b32 (@neps _ NumF32) = @neps _ NumB32 /\ to_b32 (@nmaxf _ NumF32) = @nmaxf _ NumB32 /\
   to_b32 (@ninf _ NumF32) = @ninf _ NumB32 /\ to_b32 (@ctiny _ NumF32) = @ctiny _ NumB32).
Proof.
  exact (fun x y Hx Hy =>
    conj (conj (to_b32_nneg x Hx) (to_b32_nabs x Hx))
   (conj (conj (to_b32_nltb x y Hx Hy) (conj (to_b32_nleb x y Hx Hy) (conj (to_b32_neqb x y Hx Hy) (to_b32_nis_nan x Hx))))
   (conj (conj (to_b32_nnext_up x) (to_b32_nnext_dn x))
   (conj to_b32_nofZ (conj to_b32_nofQ (conj to_b32_ngamma
   (conj to_b32_neps (conj to_b32_nmaxf (conj to_b32_ninf to_b32_ctiny))))))))).
Qed.

(** the interval arithmetic on the executed f32 instance is the Flocq binary32 run *)
Theorem C07_prim32_run_is_flocq_run : forall (I J : AF b32) (f e : b32),
  (@af_neg _ NumF32 (oI I) = oI (@af_neg _ NumB32 I) /\ @af_sqrt _ NumF32 (oI I) = oI (@af_sqrt _ NumB32 I)) /\
  (@af_add _ NumF32 (oI I) (oI J) = oI (@af_add _ NumB32 I J) /\ @af_sub _ NumF32 (oI I) (oI J) = oI (@af_sub _ NumB32 I J) /\
   @af_mul _ NumF32 (oI I) (oI J) = oI (@af_mul _ NumB32 I J) /\ @af_div _ NumF32 (oI I) (oI J) = oI (@af_div _ NumB32 I J)) /\
  (@af_add_f _ NumF32 (oI I) (of_b32 f) = oI (@af_add_f _ NumB32 I f) /\ @af_sub_f _ NumF32 (oI I) (of_b32 f) = oI (@af_sub_f _ NumB32 I f) /\
   @af_mul_f _ NumF32 (oI I) (of_b32 f) = oI (@af_mul_f _ NumB32 I f) /\ @af_div_f _ NumF32 (oI I) (of_b32 f) = oI (@af_div_f _ NumB32 I f)) /\
  (@af_from _ NumF32 (of_b32 f) = oI (@af_from _ NumB32 f) /\
   @af_from_value_and_error _ NumF32 (of_b32 f) (of_b32 e) = oI (@af_from_value_and_error _ NumB32 f e) /\
   @af_midpoint _ NumF32 (oI I) = of_b32 (@af_midpoint _ NumB32 I) /\
   @af_absolute_error _ NumF32 (oI I) = of_b32 (@af_absolute_error _ NumB32 I)).
Proof. exact f32_af_ops. Qed.

Theorem C07_prim32_solve_quadratic_is_flocq_run : forall a b c : AF b32,
  @af_solve_quadratic _ NumF32 (oI a) (oI b) (oI c) = mapOpt (mapP oI oI) (@af_solve_quadratic _ NumB32 a b c).
Proof. exact f32_af_solve_quadratic. Qed.

(** non-vacuity / sanity on the executed instance: 16777216 + 1 = 16777216 in binary32 (ties to even), 0.1f * 3 and
    1/3 are the binary32 results; all operands are binary32-valued *)
Example C07_prim32_example :
  is32 16777216%float /\ is32 1%float /\ is32 3%float /\
  @nadd _ NumF32fast 16777216%float 1%float = 16777216%float /\
  to_b32 (@ndiv _ NumF32fast 1%float 3%float) = @ndiv _ NumB32 (@nofZ _ NumB32 1) (@nofZ _ NumB32 3).
Proof.
  assert (H1 : is32 1%float) by (unfold is32; apply FP.Prim2B_inj, B2SF_inj; rewrite !FP.B2SF_Prim2B; vm_compute; reflexivity).
  assert (H3 : is32 3%float) by (unfold is32; apply FP.Prim2B_inj, B2SF_inj; rewrite !FP.B2SF_Prim2B; vm_compute; reflexivity).
  split; [unfold is32; apply FP.Prim2B_inj, B2SF_inj; rewrite !FP.B2SF_Prim2B; vm_compute; reflexivity|].
  split; [exact H1|]. split; [exact H3|].
  split; [apply FP.Prim2B_inj, B2SF_inj; rewrite !FP.B2SF_Prim2B; vm_compute; reflexivity|].
  apply B2SF_inj. vm_compute. reflexivity.
Qed.
