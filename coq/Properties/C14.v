(** * C14 -- the ray/box test never loses a ray that enters the box.
    [bbox_intersect b r inv] is the model of [BBox3D::intersect] (Model/BBox.v), [inv] the reciprocal
    direction the caller supplies.  Statements only, each closed by [exact].

    Thm 1 (exact tier, reals, all three direction components non-zero, [inv = 1/d]): the test is
    characterised exactly, is complete for every point of the CLOSED box at a parameter [t > 0]
    (flat boxes and touching rays included), and sound up to the widening factor.
    Thm 2 (float tier, every Flocq binary format): the IEEE special values of axis-parallel rays.
    Thm 3 (float tier, every Flocq binary format, all direction components non-zero, no overflow or
    underflow): a ray whose exact slab parameters clear each other by the relative margin [1 + 2u]
    is accepted (end of the file).
    Two classes of rays are lost: they are genuine defects of the crate, stated as theorems about
    the faithful model and exhibited on binary64 ([..._refuted]). *)
From Coq Require Import ZArith Reals Bool.
From Coq Require Import Floats.SpecFloat.
From Flocq Require Import Core BinarySingleNaN.
From G3 Require Import Model.Num Model.Base Model.Vec Model.BBox Proofs.C14_real Proofs.C14_special Proofs.C14_float Proofs.C14_margin.
Local Open Scope R_scope.

(** ** Thm 1: real instance *)

(** the answer is [true] exactly when the three slab parameter intervals, the far ends widened by
    [wR = 1 + 2 gamma(3)], share a positive parameter *)
Theorem C14_intersect_characterised : forall (b : BBox R) (r : Ray R), generic_dir r ->
  (bbox_intersect b r (inv_dir (rdir r)) = true <->
   exists t, 0 < t /\ forall a, t_near b r a <= t < wR * t_far b r a).
Proof. exact (fun b r _ => intersect_characterised b r). Qed.

(** completeness: a ray with a point [o + t d], [t > 0], in the closed box is never rejected -
    whatever the corner order was, for flat boxes, for origins inside, for any signs of [d] *)
Theorem C14_complete : forall (b : BBox R) (r : Ray R) (t : R),
  generic_dir r -> 0 < t -> In_box b (ray_project r t) -> bbox_intersect b r (inv_dir (rdir r)) = true.
Proof. exact complete. Qed.

(** soundness: an accepted ray passes, ahead of its origin, through the box whose faces are pushed
    outwards by [2 gamma(3) |face - origin|] *)
Theorem C14_sound : forall (b : BBox R) (r : Ray R),
  wellformed b -> generic_dir r -> bbox_intersect b r (inv_dir (rdir r)) = true ->
  exists t, 0 < t /\ In_box (widened b (rorigin r)) (ray_project r t).
Proof. exact sound. Qed.

(** [t > 0] cannot be weakened to [t >= 0]: a ray that meets the box at its origin only is rejected *)
Theorem C14_touching_at_origin_only_is_rejected :
  exists (b : BBox R) (r : Ray R), generic_dir r /\ wellformed b /\ In_box b (ray_project r 0) /\
    bbox_intersect b r (inv_dir (rdir r)) = false.
Proof. exact touching_at_origin_rejected. Qed.

Example C14_nonvacuous :
  let b := mkBBox (mkV3 0 0 0) (mkV3 0 1 1) in let r := mkRay (mkV3 (-1) (/2) (/4)) (mkV3 1 (/8) (/8)) in
  generic_dir r /\ wellformed b /\ 0 < 1 /\ In_box b (ray_project r 1).
Proof. exact nonvacuous. Qed.

(** ** Thm 2: IEEE special values, every binary format [(prec, emax)] *)
Section C14_float.
  Variable prec emax : Z.
  Context (Hprec : FLX.Prec_gt_0 prec) (Hmax : Prec_lt_emax prec emax).
  Notation bf := (binary_float prec emax).
  Local Instance NB : Num bf := NumB prec emax Hprec Hmax.
  Notation finite x := (is_finite x = true).
  Notation ok := (format_ok prec emax Hprec Hmax).   (* 1 and 1 + 2 gamma(3) are positive finite numbers of the format *)
  Notation wok := (widen_ok prec emax Hprec Hmax).

  (** FINDING (recorded, F10): direction.x = +-0 (so [inv.x] = +-inf) and origin.x on the plane of
      either x face: [0 * inf = NaN] in the x slab survives every comparison and the answer is
      [false] - for every box, every other coordinate, every other direction component. *)
  Theorem C14_x_slab_nan_loses_the_ray : forall (b : BBox bf) (r : Ray bf) (i : V3 bf) s,
    vx i = B754_infinity s -> finite (vx (rorigin r)) ->
    (finite (vx (bmin b)) /\ B2R (vx (rorigin r)) = B2R (vx (bmin b))) \/
    (finite (vx (bmax b)) /\ B2R (vx (rorigin r)) = B2R (vx (bmax b))) ->
    bbox_intersect b r i = false.
  Proof. exact (x_face_lost prec emax Hprec Hmax). Qed.

  (** the same class as a decidable predicate on the inputs, with [inv = 1/d] computed by the model *)
  Theorem C14_known_class_is_lost : forall (b : BBox bf) (r : Ray bf), ok ->
    fin3 prec emax (bmin b) -> fin3 prec emax (bmax b) -> fin3 prec emax (rorigin r) ->
    known_x_slab_nan prec emax Hprec Hmax b r = true ->
    bbox_intersect b r (inv_dirB prec emax Hprec Hmax (rdir r)) = false.
  Proof. exact (known_x_slab_nan_lost prec emax Hprec Hmax). Qed.

  (** FINDING (new): direction.y = -0 or direction.z = -0 ([inv] = -inf) and the origin on a face
      plane of that slab, the slab having positive thickness: the NaN blocks the near/far swap that
      a negative reciprocal needs, and the ray is lost. *)
  Theorem C14_neg_zero_face_loses_the_ray : forall (b : BBox bf) (r : Ray bf), ok ->
    fin3 prec emax (bmin b) -> fin3 prec emax (bmax b) -> fin3 prec emax (rorigin r) ->
    B2R (vy (bmin b)) <= B2R (vy (bmax b)) -> B2R (vz (bmin b)) <= B2R (vz (bmax b)) ->
    known_neg_zero_face prec emax Hprec Hmax b r = true ->
    bbox_intersect b r (inv_dirB prec emax Hprec Hmax (rdir r)) = false.
  Proof. exact (known_neg_zero_face_lost prec emax Hprec Hmax). Qed.

  (** harmless NaNs: a zero direction component in y or z, origin inside that slab or ON its faces
      ([+0]: any position in the closed slab; [-0]: strictly inside, or a flat slab): the slab is
      ignored - the answer is the one computed with (-inf, +inf) in its place *)
  Theorem C14_nan_in_y_or_z_slab_is_ignored : forall (b : BBox bf) (r : Ray bf) (i : V3 bf), wok ->
    (finite (vy (rorigin r)) -> finite (vy (bmin b)) -> finite (vy (bmax b)) -> y_slab_inside prec emax b r i ->
     bbox_intersect b r i =
     fst (slab_core (raw (vx (bmin b)) (vx (rorigin r)) (vx i)) (raw (vx (bmax b)) (vx (rorigin r)) (vx i))
                    (B754_infinity true) (B754_infinity false)
                    (raw (vz (bmin b)) (vz (rorigin r)) (vz i)) (raw (vz (bmax b)) (vz (rorigin r)) (vz i)))) /\
    (finite (vz (rorigin r)) -> finite (vz (bmin b)) -> finite (vz (bmax b)) -> z_slab_inside prec emax b r i ->
     bbox_intersect b r i =
     fst (slab_core (raw (vx (bmin b)) (vx (rorigin r)) (vx i)) (raw (vx (bmax b)) (vx (rorigin r)) (vx i))
                    (raw (vy (bmin b)) (vy (rorigin r)) (vy i)) (raw (vy (bmax b)) (vy (rorigin r)) (vy i))
                    (B754_infinity true) (B754_infinity false))).
  Proof.
    exact (fun b r i W => conj (y_inside_ignored prec emax Hprec Hmax b r i W) (z_inside_ignored prec emax Hprec Hmax b r i W)).
  Qed.
  (** x slab, zero component, origin strictly between the faces: ignored as well *)
  Theorem C14_x_slab_strictly_inside_is_ignored : forall (b : BBox bf) (r : Ray bf) (i : V3 bf) s, wok ->
    vx i = B754_infinity s -> finite (vx (rorigin r)) -> finite (vx (bmin b)) -> finite (vx (bmax b)) ->
    B2R (vx (bmin b)) < B2R (vx (rorigin r)) < B2R (vx (bmax b)) ->
    bbox_intersect b r i =
    fst (slab_core (B754_infinity true) (B754_infinity false)
                   (raw (vy (bmin b)) (vy (rorigin r)) (vy i)) (raw (vy (bmax b)) (vy (rorigin r)) (vy i))
                   (raw (vz (bmin b)) (vz (rorigin r)) (vz i)) (raw (vz (bmax b)) (vz (rorigin r)) (vz i))).
  Proof. exact (x_strictly_inside_ignored prec emax Hprec Hmax). Qed.

  (** a zero direction component with the origin outside that slab: rejected, on every axis *)
  Theorem C14_zero_component_outside_slab_is_rejected : forall (b : BBox bf) (r : Ray bf) (i : V3 bf) s, wok ->
    (vx i = B754_infinity s -> finite (vx (rorigin r)) -> finite (vx (bmin b)) -> finite (vx (bmax b)) ->
     B2R (vx (bmin b)) <= B2R (vx (bmax b)) ->
     B2R (vx (rorigin r)) < B2R (vx (bmin b)) \/ B2R (vx (bmax b)) < B2R (vx (rorigin r)) -> bbox_intersect b r i = false) /\
    (vy i = B754_infinity s -> finite (vy (rorigin r)) -> finite (vy (bmin b)) -> finite (vy (bmax b)) ->
     B2R (vy (bmin b)) <= B2R (vy (bmax b)) ->
     B2R (vy (rorigin r)) < B2R (vy (bmin b)) \/ B2R (vy (bmax b)) < B2R (vy (rorigin r)) -> bbox_intersect b r i = false) /\
    (vz i = B754_infinity s -> finite (vz (rorigin r)) -> finite (vz (bmin b)) -> finite (vz (bmax b)) ->
     B2R (vz (bmin b)) <= B2R (vz (bmax b)) ->
     B2R (vz (rorigin r)) < B2R (vz (bmin b)) \/ B2R (vz (bmax b)) < B2R (vz (rorigin r)) -> bbox_intersect b r i = false).
  Proof.
    exact (fun b r i s W => conj (x_outside_rejected prec emax Hprec Hmax b r i s W)
                           (conj (y_outside_rejected prec emax Hprec Hmax b r i s W) (z_outside_rejected prec emax Hprec Hmax b r i s W))).
  Qed.

  (** ** Thm 3 (float-tier completeness with margin), first half: the COMPUTED parameters.
      The full statement - with [inv = RN(1/d)], finite inputs, no overflow/underflow, if the exact
      parameters satisfy [t_far_j >= t_near_i (1 + 2u)] for [i <> j] and [t_far > 0], the float test
      returns [true] - is proved in Section C14_margin below ([C14_float_complete_margin]); it
      supersedes this theorem, which is kept as the intermediate step it was.
      Proved here: the same conclusion from the hypothesis on the COMPUTED parameters
      [(face - origin) * inv] (finite, their widened values finite): their sorted intervals share some
      [t > 0] - with NO margin, equality of the two ends of a slab allowed (a flat slab computes both
      ends by the same operations, hence bit-equal: [C14_flat_slab_bit_equal]) - and the three far
      ends are normal numbers.  (The error analysis of the three roundings - reciprocal, subtraction,
      product - that separates exact from computed parameters is [C14_raw_parameter_error] below.) *)
  Theorem C14_float_complete_partial : forall (b : BBox bf) (r : Ray bf) (i : V3 bf),
    widen_big prec emax Hprec Hmax ->
    let o := rorigin r in
    let x1 := raw (vx (bmin b)) (vx o) (vx i) in let x2 := raw (vx (bmax b)) (vx o) (vx i) in
    let y1 := raw (vy (bmin b)) (vy o) (vy i) in let y2 := raw (vy (bmax b)) (vy o) (vy i) in
    let z1 := raw (vz (bmin b)) (vz o) (vz i) in let z2 := raw (vz (bmax b)) (vz o) (vz i) in
    let W := wfB prec emax Hprec Hmax in
    finite x1 -> finite x2 -> finite y1 -> finite y2 -> finite z1 -> finite z2 ->
    finite (W x1) -> finite (W x2) -> finite (W y1) -> finite (W y2) -> finite (W z1) -> finite (W z2) ->
    (exists t, 0 < t /\ Rmin (B2R x1) (B2R x2) <= t <= Rmax (B2R x1) (B2R x2) /\
                        Rmin (B2R y1) (B2R y2) <= t <= Rmax (B2R y1) (B2R y2) /\
                        Rmin (B2R z1) (B2R z2) <= t <= Rmax (B2R z1) (B2R z2)) ->
    bpow radix2 (3 - emax - prec + prec - 1) <= Rmax (B2R x1) (B2R x2) ->
    bpow radix2 (3 - emax - prec + prec - 1) <= Rmax (B2R y1) (B2R y2) ->
    bpow radix2 (3 - emax - prec + prec - 1) <= Rmax (B2R z1) (B2R z2) ->
    bbox_intersect b r i = true.
  Proof. exact (intersect_complete_on_computed_parameters prec emax Hprec Hmax). Qed.
  Theorem C14_flat_slab_bit_equal : forall lo hi o i : bf, lo = hi -> raw lo o i = raw hi o i.
  Proof. exact (flat_slab_bit_equal prec emax Hprec Hmax). Qed.
End C14_float.

(** binary64 and binary32 meet the format side condition *)
Theorem C14_formats_ok : format_ok 53 1024 Hprec53 Hmax1024 /\ format_ok 24 128 Hprec24 Hmax128 /\
  widen_big 53 1024 Hprec53 Hmax1024 /\ widen_big 24 128 Hprec24 Hmax128.
Proof. exact (conj format_ok_64 (conj format_ok_32 (conj widen_big_64 widen_big_32))). Qed.

(** ** witnesses on the executable binary64 model (vm_compute) *)
(** F10: box {0} x [0,1] x [0,1] and the unit cube, origin (0, 0.5, -1), direction (0, 0, 1): the point
    at t = 1.5 is inside the box, the input is in the recorded class, the answer is [false] *)
Theorem C14_x_slab_nan_refuted :
  (known_x_slab_nan 53 1024 Hprec53 Hmax1024 w_flat w_ray = true /\
   (n0 <? w_t)%num = true /\ bbox_point_inside w_flat (ray_project w_ray w_t) = true /\
   bbox_intersect w_flat w_ray (inv64 (rdir w_ray)) = false) /\
  (known_x_slab_nan 53 1024 Hprec53 Hmax1024 w_cube w_ray = true /\
   bbox_point_inside w_cube (ray_project w_ray w_t) = true /\
   bbox_intersect w_cube w_ray (inv64 (rdir w_ray)) = false).
Proof. exact x_slab_nan_witness. Qed.

(** direction (0, -0, 1) from (0.5, 0, -1), and direction (1, 0, -0) from (-1, 0.5, 1), unit cube:
    outside the recorded class, inside the second one, lost *)
Theorem C14_neg_zero_face_refuted :
  (known_neg_zero_face 53 1024 Hprec53 Hmax1024 w_cube w_ray_y = true /\
   known_x_slab_nan 53 1024 Hprec53 Hmax1024 w_cube w_ray_y = false /\
   bbox_point_inside w_cube (ray_project w_ray_y w_t) = true /\
   bbox_intersect w_cube w_ray_y (inv64 (rdir w_ray_y)) = false) /\
  (known_neg_zero_face 53 1024 Hprec53 Hmax1024 w_cube w_ray_z = true /\
   known_x_slab_nan 53 1024 Hprec53 Hmax1024 w_cube w_ray_z = false /\
   bbox_point_inside w_cube (ray_project w_ray_z w_t) = true /\
   bbox_intersect w_cube w_ray_z (inv64 (rdir w_ray_z)) = false).
Proof. exact neg_zero_face_witness. Qed.

(** the mirror cases of F10 in the y = 0 / y = 1 faces and for boxes flat in y or z are accepted *)
Theorem C14_mirror_cases_accepted :
  bbox_intersect (bbox_new (P zero64 zero64 zero64) (P one64 zero64 one64)) (mkRay (P half64 zero64 mone64) (P zero64 zero64 one64))
                 (inv64 (P zero64 zero64 one64)) = true /\
  bbox_intersect w_cube (mkRay (P half64 zero64 mone64) (P zero64 zero64 one64)) (inv64 (P zero64 zero64 one64)) = true /\
  bbox_intersect w_cube (mkRay (P half64 one64 mone64) (P zero64 zero64 one64)) (inv64 (P zero64 zero64 one64)) = true /\
  bbox_intersect (bbox_new (P zero64 zero64 zero64) (P one64 one64 zero64)) (mkRay (P mone64 half64 zero64) (P one64 zero64 zero64))
                 (inv64 (P one64 zero64 zero64)) = true.
Proof. exact mirror_cases_accepted. Qed.

(** ** Thm 3 (float-tier completeness with a relative margin on the EXACT parameters), every binary format.
    Notation: [u = uR prec = 2^-prec]; [boxR b], [rayR r] = the real values of the float inputs, so
    [t_near], [t_far] are the exact sorted slab parameters [(face - o)/d] of Thm 1; [hi3 u = (1+u)^3],
    [lo3 u = (1-u)^3]; [kmin = 2^(emin+prec-1)] the smallest positive normal number.
    Side conditions ([side b r i], one [axis_side] per axis): the nine input coordinates finite, the
    direction component finite and non-zero, [1/d = i (1 + e)] with [|e| <= u] ([recip_ok]: true of
    [i = 1.0 / d] whenever that quotient is a normal number), both products [(face - o) * i] and their
    widened values finite (no overflow), and no underflow in the product: its result is a normal
    number, or [face = o] (exact zero).  The subtraction needs no condition.  All of it is evaluated
    by the model ([margin_okb], with [i = inv_dirB d = 1.0 / d] computed).
    Format conditions ([margin_format]): [prec >= 5] and the rounded constant [1 + 2 gamma3 >= 1 + 6u]
    (binary32, binary64: equality, [C14_margin_formats_ok]).
    Margin ([clear_by 2]): every far end [t_far a > 0], and for two DIFFERENT axes [a <> a'] with
    [t_near a > 0]: [t_near a * (1 + 2u) <= t_far a'].  Nothing is asked of near and far end of the
    same axis (flat slabs: both ends bit-equal) nor of a near end [<= 0] (origin inside that slab:
    signs survive the roundings).  The constant 2 is the smallest integer the argument supports:
    seven roundings (three per parameter, one in the widening product) against [1 + 6u] leave
    [(1+u)^4 / ((1-u)^3 (1+6u)) = 1 + u + 18u^2 + ...]. *)
Section C14_margin.
  Variable prec emax : Z.
  Context (Hprec : FLX.Prec_gt_0 prec) (Hmax : Prec_lt_emax prec emax).
  Notation bf := (binary_float prec emax).
  Notation finite x := (is_finite x = true).
  Notation u := (uR prec).
  Notation kmin := (bpow radix2 (3 - emax - prec + prec - 1)).
  Notation mfmt := (margin_format prec emax Hprec Hmax).
  Notation sideok := (side prec emax Hprec Hmax).

  (** the error analysis of one plane parameter: three roundings (subtraction, reciprocal, product) *)
  Theorem C14_raw_parameter_error : forall f o d i : bf,
    finite f -> finite o -> recip_ok prec emax d i -> finite (raw f o i) ->
    (kmin <= Rabs (B2R (raw f o i)) \/ B2R f = B2R o) ->
    let T := (B2R f - B2R o) / B2R d in let X := B2R (raw f o i) in
    Rabs (T - X) <= (hi3 u - 1) * Rabs X /\ lo3 u * Rabs X <= Rabs T <= hi3 u * Rabs X.
  Proof. exact (raw_error prec emax Hprec Hmax). Qed.
  Theorem C14_reciprocal_ok : forall d : bf, B2R d <> 0 ->
    finite (Bdiv mode_NE (@n1 bf (NumB prec emax Hprec Hmax)) d) ->
    kmin <= Rabs (B2R (Bdiv mode_NE (@n1 bf (NumB prec emax Hprec Hmax)) d)) ->
    recip_ok prec emax d (Bdiv mode_NE (@n1 bf (NumB prec emax Hprec Hmax)) d).
  Proof. exact (recip_of_div prec emax Hprec Hmax). Qed.

  (** Thm 3 *)
  Theorem C14_float_complete_margin : forall (b : BBox bf) (r : Ray bf) (i : V3 bf),
    mfmt -> sideok b r i -> clear_by prec 2 (boxR prec emax b) (rayR prec emax r) -> bbox_intersect b r i = true.
  Proof. exact (float_complete_margin prec emax Hprec Hmax). Qed.

  (** in terms of [t_enter = max t_near], [t_exit = min t_far] (this form asks the margin of a thin slab's own ends too) *)
  Theorem C14_float_complete_enter_exit : forall (b : BBox bf) (r : Ray bf) (i : V3 bf),
    mfmt -> sideok b r i ->
    let bR := boxR prec emax b in let rR := rayR prec emax r in
    0 < t_exit bR rR -> (0 < t_enter bR rR -> t_enter bR rR * (1 + 2 * u) <= t_exit bR rR) ->
    bbox_intersect b r i = true.
  Proof. exact (float_complete_enter_exit prec emax Hprec Hmax). Qed.

  (** the user-level corollary: a ray with a point [o + t d], [t > 0] (exact arithmetic), inside the box
      whose faces are pulled inwards by [2u |face - o|] is accepted; at most one axis may be flat
      instead, the point lying exactly in that plane *)
  Theorem C14_float_complete_point : forall (b : BBox bf) (r : Ray bf) (i : V3 bf) (t : R),
    mfmt -> sideok b r i -> 0 < t ->
    let p := ray_project (rayR prec emax r) t in let o := rorigin (rayR prec emax r) in
    (forall a, in_margin prec (boxR prec emax b) o p a \/ on_flat (boxR prec emax b) p a) ->
    (forall a a', a <> a' -> in_margin prec (boxR prec emax b) o p a \/ in_margin prec (boxR prec emax b) o p a') ->
    bbox_intersect b r i = true.
  Proof. exact (float_complete_point prec emax Hprec Hmax). Qed.

  (** the side conditions are decided by the model, the reciprocal direction being the computed [1.0 / d] *)
  Theorem C14_margin_side_conditions_checked : forall (b : BBox bf) (r : Ray bf),
    margin_okb prec emax Hprec Hmax b r = true -> sideok b r (inv_dirB prec emax Hprec Hmax (rdir r)).
  Proof. exact (margin_okb_side prec emax Hprec Hmax). Qed.
  Theorem C14_float_complete_checked : forall (b : BBox bf) (r : Ray bf),
    mfmt -> margin_okb prec emax Hprec Hmax b r = true ->
    clear_by prec 2 (boxR prec emax b) (rayR prec emax r) ->
    bbox_intersect b r (inv_dirB prec emax Hprec Hmax (rdir r)) = true.
  Proof. exact (float_complete_okb prec emax Hprec Hmax). Qed.
End C14_margin.

(** binary64 and binary32 meet the format conditions of Thm 3 *)
Theorem C14_margin_formats_ok : margin_format 53 1024 Hprec53 Hmax1024 /\ margin_format 24 128 Hprec24 Hmax128.
Proof. exact (conj margin_format_64 margin_format_32). Qed.

(** Thm 3 on binary64, the format of the crate's default build *)
Theorem C14_float_complete_binary64 : forall (b : BBox b64) (r : Ray b64),
  margin_okb 53 1024 Hprec53 Hmax1024 b r = true -> clear_by 53 2 (boxR 53 1024 b) (rayR 53 1024 r) ->
  bbox_intersect b r (inv64 (rdir r)) = true.
Proof. exact (fun b r => float_complete_okb 53 1024 Hprec53 Hmax1024 b r margin_format_64). Qed.

Theorem C14_float_complete_binary32 : forall (b : BBox b32) (r : Ray b32),
  margin_okb 24 128 Hprec24 Hmax128 b r = true -> clear_by 24 2 (boxR 24 128 b) (rayR 24 128 r) ->
  bbox_intersect b r (inv_dirB 24 128 Hprec24 Hmax128 (rdir r)) = true.
Proof. exact (fun b r => float_complete_okb 24 128 Hprec24 Hmax128 b r margin_format_32). Qed.

(** non-vacuity: unit cube, origin (-1, 1/4, 1/2), direction (3, 1/2, -1/4) in binary64: format and side
    conditions hold (the latter by evaluation), the exact parameters x [1/3, 2/3], y [-1/2, 3/2],
    z [-2, 2] have the margin, and the model answers [true] *)
Example C14_margin_nonvacuous :
  margin_format 53 1024 Hprec53 Hmax1024 /\ margin_okb 53 1024 Hprec53 Hmax1024 m_box m_ray = true /\
  clear_by 53 2 (boxR 53 1024 m_box) (rayR 53 1024 m_ray) /\
  bbox_intersect m_box m_ray (inv64 (rdir m_ray)) = true.
Proof. exact margin_nonvacuous. Qed.
