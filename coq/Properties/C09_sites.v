(** * C09 (panic-site part of from_polygon / mesh_polygon) -- triangulation is total.
    Statements only; proofs in Proofs/Mesh_fp_sites.v.  Every number instance (no property of the arithmetic is used).

    RESULT.  [from_polygon] can panic at ONE site only: 41, the push(..).unwrap() of Polygon3D::get_closed_loop
    (three textual occurrences, one site) -- or at 42 ([% 0] there) if the polygon RECORD carries an empty hole, or at
    21 (`ret_loop[min_ext_vertex_id]` in the attachment search of fix bcb072e) if its OUTLINE is empty, which no
    sequence of API calls produces ([C09_sites_api_*]: a closed Loop3D is never empty).  Everything downstream of
    get_closed_loop -- Loop3D::close, the [len() - 2] capacity, the capped ear-clipping loop with its periodic
    sanitize, is_diagonal, the ear test, push, constrain, remove, mark_neighbourhouds -- is panic free: sites 10, 21,
    22, 25, 60, 62, 63, 64, 92, 93, 95, 96 are UNREACHABLE from from_polygon (and 23, 24 no longer exist: fixes
    bff02e9, 32d90b8).  A polygon without holes never panics in from_polygon.
    [mesh_polygon] adds the sites of [refine] only, and because the initial mesh is well formed ([WF], preserved by
    every step) the neighbour look-ups 67, 73 and the sweep cursors 85, 90 are unreachable: 25 data-dependent sites
    remain ([sites_refine_wf]); 61 (counter underflow) stays because the counter invariant is not proved through
    split_edge (see Properties/C08_mesh.v).
    FINDING.  Site 41 IS reachable from a valid polygon built through the API: [C09_sites_41_reachable] (the nearest
    outline/hole vertex pair is separated by an edge of the hole itself; the bridge crosses it; Loop3D::push refuses the
    rebuilt outline as self-intersecting; get_closed_loop unwraps).  Reproduced on the crate, see NOTES.md. *)
From Coq Require Import ZArith List Bool Floats.
Set Warnings "-inexact-float".
From G3 Require Import Model.Num Model.NumF Model.Base Model.Vec Model.Segment Model.Triangle Model.Loop Model.Polygon Model.Triangulation
  Proofs.C04_loop Proofs.Mesh_base Proofs.Mesh_wf Proofs.Mesh_conf Proofs.Mesh_witness Proofs.Mesh_fp_sites Properties.C09_mesh.
Import ListNotations.

(** ** the Loop3D leaves of the ear clipping *)
Theorem C09_sites_sanitize_no_panic : forall (K : Type) (NK : Num K) (L : Loop K) (s : N), loop_sanitize L <> Panic s.
Proof. exact (fun K NK => @sanitize_no_panic K NK). Qed.
Theorem C09_sites_test_point_no_panic : forall (K : Type) (NK : Num K) (L : Loop K) (p : V3 K) (s : N), loop_test_point L p <> Panic s.
Proof. exact (fun K NK => @test_point_no_panic K NK). Qed.
Theorem C09_sites_push_no_panic : forall (K : Type) (NK : Num K) (L : Loop K) (p : V3 K) (s : N), loop_push L p <> Panic s.
Proof. exact (fun K NK => @push_no_panic K NK). Qed.
Theorem C09_sites_close_no_panic : forall (K : Type) (NK : Num K) (L : Loop K) (s : N), snd (loop_close L) <> Panic s.
Proof. exact (fun K NK => @close_no_panic K NK). Qed.
(** is_diagonal: only the [% 0] of an EMPTY loop *)
Theorem C09_sites_is_diagonal : forall (K : Type) (NK : Num K) (L : Loop K) (sg : Seg K) (s : N),
  loop_is_diagonal L sg = Panic s -> s = 22%N /\ llen L = 0.
Proof. exact (fun K NK => @is_diagonal_panic K NK). Qed.

(** ** mark_neighbourhouds: sites 96, 62, 63, 64, 60 unreachable *)
Theorem C09_sites_mark_neighbourhouds_no_panic : forall (K : Type) (NK : Num K) (M M' : Mesh K) (s : N),
  mark_neighbourhouds M <> (M', Panic s).
Proof. exact (fun K NK => @mark_neighbourhouds_no_panic K NK). Qed.

(** ** the capped ear-clipping loop, entered with a non-empty loop that is open when it has a single vertex *)
Theorem C09_sites_fp_loop_no_panic : forall (K : Type) (NK : Num K) (P : Poly K) (fuel count anchor : nat) (L : Loop K) (t : Mesh K) (s : N),
  1 <= llen L /\ (llen L = 1 -> lclosed L = false) -> fp_loop P fuel count anchor L t <> Panic s.
Proof. exact (fun K NK => @fp_loop_no_panic K NK). Qed.

(** ** get_closed_loop: 41, or 42 with an empty hole, or 21 with an empty outline *)
Theorem C09_sites_get_closed_loop : forall (K : Type) (NK : Num K) (P : Poly K) (s : N),
  poly_get_closed_loop P = Panic s ->
  s = 41%N \/ (s = 42%N /\ exists h, In h (pinner P) /\ llen h = 0) \/ (s = 21%N /\ llen (pouter P) = 0).
Proof. exact (fun K NK => @closed_loop_panic K NK). Qed.

(** ** from_polygon *)
Theorem C09_sites_from_polygon_origin : forall (K : Type) (NK : Num K) (P : Poly K) (s : N),
  from_polygon P = Panic s -> poly_get_closed_loop P = Panic s.
Proof. exact (fun K NK => @from_polygon_panic_origin K NK). Qed.
Theorem C09_sites_from_polygon : forall (K : Type) (NK : Num K) (P : Poly K) (s : N),
  from_polygon P = Panic s ->
  s = 41%N \/ (s = 42%N /\ exists h, In h (pinner P) /\ llen h = 0) \/ (s = 21%N /\ llen (pouter P) = 0).
Proof. exact (fun K NK => @from_polygon_panic_sites K NK). Qed.
Theorem C09_sites_from_polygon_41 : forall (K : Type) (NK : Num K) (P : Poly K) (s : N),
  llen (pouter P) <> 0 -> (forall h, In h (pinner P) -> llen h <> 0) -> from_polygon P = Panic s -> s = 41%N.
Proof. exact (fun K NK => @from_polygon_panic_41 K NK). Qed.
Theorem C09_sites_from_polygon_no_holes : forall (K : Type) (NK : Num K) (P : Poly K),
  pinner P = [] -> forall s, from_polygon P <> Panic s.
Proof. exact (fun K NK => @from_polygon_no_holes_no_panic K NK). Qed.

(** ** refine on a well-formed mesh, and mesh_polygon *)
Theorem C09_sites_refine_wf : forall (K : Type) (NK : Num K) (fuel : nat) (a m : K) (M M' : Mesh K) (s : N),
  WF M -> refine fuel a m M = (M', Panic s) -> in_sites sites_refine_wf s = true.
Proof. exact (fun K NK => @refine_wf_sites K NK). Qed.
(** the list is the one of [C09_panic_sites_refine] minus 67, 73, 85, 90 *)
Theorem C09_sites_refine_wf_list :
  forallb (fun s => inb sites_refine s) sites_refine_wf = true /\
  forallb (fun s => inb (67 :: 73 :: 85 :: 90 :: sites_refine_wf)%N s) sites_refine = true /\
  forallb (fun s => negb (in_sites sites_refine_wf s)) [67; 73; 85; 90; 41; 42; 10; 21; 22; 25; 60; 88; 89; 92; 93; 95; 96]%N = true.
Proof. repeat split; reflexivity. Qed.
Theorem C09_sites_mesh_polygon_origin : forall (K : Type) (NK : Num K) (fuel : nat) (P : Poly K) (a m : K) (s : N),
  mesh_polygon fuel P a m = Panic s ->
  from_polygon P = Panic s \/ exists t t', from_polygon P = Ok t /\ WF t /\ CNT t /\ refine fuel a m t = (t', Panic s).
Proof. exact (fun K NK => @mesh_polygon_panic_origin K NK). Qed.
Theorem C09_sites_mesh_polygon : forall (K : Type) (NK : Num K) (fuel : nat) (P : Poly K) (a m : K) (s : N),
  mesh_polygon fuel P a m = Panic s ->
  s = 41%N \/ (s = 42%N /\ exists h, In h (pinner P) /\ llen h = 0) \/ (s = 21%N /\ llen (pouter P) = 0) \/ in_sites sites_refine_wf s = true.
Proof. exact (fun K NK => @mesh_polygon_panic_sites K NK). Qed.
Theorem C09_sites_mesh_polygon_41 : forall (K : Type) (NK : Num K) (fuel : nat) (P : Poly K) (a m : K) (s : N),
  llen (pouter P) <> 0 -> (forall h, In h (pinner P) -> llen h <> 0) -> mesh_polygon fuel P a m = Panic s -> s = 41%N \/ in_sites sites_refine_wf s = true.
Proof. exact (fun K NK => @mesh_polygon_panic_41 K NK). Qed.
Theorem C09_sites_mesh_polygon_no_holes : forall (K : Type) (NK : Num K) (fuel : nat) (P : Poly K) (a m : K) (s : N),
  pinner P = [] -> mesh_polygon fuel P a m = Panic s -> in_sites sites_refine_wf s = true.
Proof. exact (fun K NK => @mesh_polygon_no_holes_sites K NK). Qed.

(** ** polygons built through the API: a closed Loop3D is never empty, hence neither the outline nor a hole is empty and
    42 and 21 are unreachable *)
Theorem C09_sites_api_closed_loop_nonempty : forall (K : Type) (NK : Num K) (ops : list (lop K)),
  let L := fst (loop_run loop_new ops) in lclosed L = true -> llen L <> 0.
Proof. intros K NK ops. exact (run_closed_nonempty ops loop_new new_closed_nonempty). Qed.
Theorem C09_sites_api_holes_nonempty : forall (K : Type) (NK : Num K) (outer : Loop K) (P : Poly K) (hs : list (Loop K)),
  poly_new outer = Ok P -> (forall h, In h hs -> exists ops, h = fst (loop_run loop_new ops)) ->
  forall h, In h (pinner (fst (poly_run P hs))) -> llen h <> 0.
Proof. exact (fun K NK => @api_holes_nonempty K NK). Qed.
Theorem C09_sites_api_outer_nonempty : forall (K : Type) (NK : Num K) (ops0 : list (lop K)) (P : Poly K) (hs : list (Loop K)),
  poly_new (fst (loop_run loop_new ops0)) = Ok P -> llen (pouter (fst (poly_run P hs))) <> 0.
Proof. exact (fun K NK => @api_outer_nonempty K NK). Qed.
Theorem C09_sites_api_from_polygon : forall (K : Type) (NK : Num K) (ops0 : list (lop K)) (P : Poly K) (hs : list (Loop K)) (s : N),
  poly_new (fst (loop_run loop_new ops0)) = Ok P -> (forall h, In h hs -> exists ops, h = fst (loop_run loop_new ops)) ->
  from_polygon (fst (poly_run P hs)) = Panic s -> s = 41%N.
Proof. exact (fun K NK => @api_from_polygon_panic_41 K NK). Qed.
Theorem C09_sites_api_mesh_polygon : forall (K : Type) (NK : Num K) (ops0 : list (lop K)) (P : Poly K) (hs : list (Loop K)) (fuel : nat) (a m : K) (s : N),
  poly_new (fst (loop_run loop_new ops0)) = Ok P -> (forall h, In h hs -> exists ops, h = fst (loop_run loop_new ops)) ->
  mesh_polygon fuel (fst (poly_run P hs)) a m = Panic s -> s = 41%N \/ in_sites sites_refine_wf s = true.
Proof. exact (fun K NK => @api_mesh_polygon_panic K NK). Qed.

(** ** FINDING: site 41 is reachable from a valid polygon built through the API (push, close, Polygon3D::new, cut_hole):
    outline = the square [-100,100]^2 with a notch whose tip is (0,0); hole = triangle (0,1.5) (-50,0.7) (50,0.7) *)
Theorem C09_sites_41_reachable :
  exists (outer hole : list (V3 float)) (P : Poly float),
    build_poly outer [hole] = Ok P /\ (forall h, In h (pinner P) -> llen h <> 0) /\ length (pinner P) = 1 /\
    from_polygon P = Panic 41%N /\ forall fuel a m, mesh_polygon fuel P a m = Panic 41%N.
Proof. exists w41_outer, w41_hole, w41_poly. exact w41_panics. Qed.
(** the side condition "no empty hole" is necessary (a record that the API cannot produce) *)
Theorem C09_sites_42_needs_empty_hole :
  exists P : Poly float, from_polygon P = Panic 42%N /\ exists h, In h (pinner P) /\ llen h = 0.
Proof. exists w42_poly. split; [exact w42_panics | eexists; split; [left; reflexivity | reflexivity]]. Qed.

(** ... and so is "the outline is not empty" (fix bcb072e; again a record that the API cannot produce) *)
Theorem C09_sites_21_needs_empty_outline :
  exists P : Poly float, from_polygon P = Panic 21%N /\ llen (pouter P) = 0 /\ (forall h, In h (pinner P) -> llen h <> 0) /\ length (pinner P) = 2.
Proof. exists w21_poly. exact w21_panics. Qed.

(** non-vacuity: a hole-free polygon and a polygon with one non-empty hole on which from_polygon returns Ok *)
Example C09_sites_nonvacuous :
  (pinner w4_poly = [] /\ exists M, from_polygon w4_poly = Ok M) /\
  (llen (pouter w5_poly) <> 0 /\ (forall h, In h (pinner w5_poly) -> llen h <> 0) /\ length (pinner w5_poly) = 1 /\ exists M, from_polygon w5_poly = Ok M).
Proof. exact w_sites_nonvacuous. Qed.
