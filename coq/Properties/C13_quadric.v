(** * C13, part pquadric -- surface data at a sphere / cylinder hit is coherent (exact tier, reals).
    Statements only, each closed by [exact].
    Forced hypothesis of the sphere statements = finding F8: [sphere_sin_theta s p <> 0], i.e. the hit is not at a
    pole; there the code divides by sin(theta) = 0.  [radial p] = (x, y, 0), half the gradient of x^2 + y^2. *)
From Coq Require Import ZArith Reals List Floats.
From G3 Require Import Model.Num Model.NumF Model.Base Model.Vec Model.BBox Model.RoundError Model.Transform Model.Hit Model.Sphere Model.Cylinder.
From G3 Require Import Proofs.C06_transform Proofs.Quadric_base Proofs.Quadric_sphere Proofs.Quadric_cylinder Proofs.Quadric_place Proofs.Quadric_hit.
Local Open Scope R_scope.

(** [get_side]: Front keeps the normal, Back negates it; the reported normal always faces the ray *)
Theorem C13_get_side_faces_the_ray : forall n d : V,
  (vdot n d < 0 -> get_side n d = (n, Front)) /\
  (0 < vdot n d -> get_side n d = (vscale n (- 1), Back)) /\
  (vdot n d <> 0 -> vdot (fst (get_side n d)) d < 0).
Proof. exact (fun n d => conj (get_side_front n d) (conj (get_side_back n d) (get_side_faces_ray n d))). Qed.
(** the same surface point approached from the two sides: sides Front / Back, normals opposite *)
Theorem C13_get_side_flips : forall n d d' : V, vdot n d < 0 -> 0 < vdot n d' ->
  snd (get_side n d) = Front /\ snd (get_side n d') = Back /\ fst (get_side n d') = vscale (fst (get_side n d)) (- 1).
Proof. exact get_side_flips. Qed.

(** sphere: for a hit point p on the sphere, away from the poles, of a sphere with r, phi_max, delta_theta > 0:
    both tangents are orthogonal to the gradient (2p); coming from outside (p.d < 0) the side is Front and the
    normal is the outward unit normal p/r, from inside Back and -p/r; the reported normal faces the ray, has
    length 1 and is orthogonal to both tangents *)
Theorem C13_sphere_hit_data : forall (s : S) (p : V) (ray : Ray R) (phi : R),
  0 < sradius s -> on_sphere s p -> sphere_sin_theta s p <> 0 -> 0 < sphi_max s -> 0 < sdelta_theta s ->
  let i := sphere_info s ray p phi in
  let d := rdir ray in
  ip i = p /\ vdot (idpdu i) p = 0 /\ vdot (idpdv i) p = 0 /\
  (vdot p d < 0 -> iside i = Front /\ inormal i = vscale p (1 / sradius s)) /\
  (0 < vdot p d -> iside i = Back /\ inormal i = vscale (vscale p (1 / sradius s)) (- 1)) /\
  (vdot p d <> 0 -> vdot (inormal i) d < 0 /\ vlen2 (inormal i) = 1 /\
                     vdot (inormal i) (idpdu i) = 0 /\ vdot (inormal i) (idpdv i) = 0).
Proof. exact (fun s p ray phi H1 H2 H3 H4 H5 => sphere_info_data s p H1 H2 H3 H4 H5 ray phi). Qed.
(** the normal before [get_side] is the outward unit normal *)
Theorem C13_sphere_normal_is_outward : forall (s : S) (p : V),
  0 < sradius s -> on_sphere s p -> sphere_sin_theta s p <> 0 -> 0 < sphi_max s -> 0 < sdelta_theta s ->
  vnormalize (vcross (sphere_dpdv s p) (sphere_dpdu s p)) = vscale p (1 / sradius s).
Proof. exact sphere_normal_outward. Qed.
(** the excluded set is exactly the two poles: sin(theta), as the code computes it, vanishes iff x = y = 0 *)
Theorem C13_sphere_pole_is_where_sin_theta_vanishes : forall (s : S) (p : V), 0 < sradius s -> on_sphere s p ->
  (sphere_sin_theta s p = 0 <-> vx p = 0 /\ vy p = 0).
Proof. exact sph_sin_theta_zero_iff. Qed.

(** cylinder: tangents orthogonal to the gradient; the normal before [get_side] is radial and points INWARDS,
    -(x,y,0)/r: Front is reported for a ray travelling outwards (origin inside), Back for a ray from outside
    (the property lists the Front convention for spheres, disks and triangles only) *)
Theorem C13_cylinder_hit_data : forall (c : C) (p : V) (ray : Ray R) (phi : R),
  0 < cradius c -> on_cyl c p -> 0 < cphi_max c -> czmin c < czmax c ->
  let i := cyl_info c ray p phi in
  let d := rdir ray in
  ip i = p /\ vdot (idpdu i) (radial p) = 0 /\ vdot (idpdv i) (radial p) = 0 /\
  (0 < vdot (radial p) d -> iside i = Front /\ inormal i = vscale (radial p) (- (1 / cradius c))) /\
  (vdot (radial p) d < 0 -> iside i = Back /\ inormal i = vscale (radial p) (1 / cradius c)) /\
  (vdot (radial p) d <> 0 -> vdot (inormal i) d < 0 /\ vlen2 (inormal i) = 1 /\
                              vdot (inormal i) (idpdu i) = 0 /\ vdot (inormal i) (idpdv i) = 0).
Proof. exact (fun c p ray phi H1 H2 H3 H4 => cyl_info_data c p H1 H2 H3 H4 ray phi). Qed.
Theorem C13_cylinder_normal_is_inward_radial : forall (c : C) (p : V),
  0 < cradius c -> on_cyl c p -> 0 < cphi_max c -> czmin c < czmax c ->
  vnormalize (vcross (cyl_dpdv c p) (cyl_dpdu c p)) = vscale (radial p) (- (1 / cradius c)).
Proof. exact cyl_normal_inward. Qed.

(** hit data carried to world space by [IntersectionInfo::transform], with C06's [Inv t]: the world normal against the
    world ray direction equals the local normal against the local direction (so it still faces the ray), it stays
    perpendicular to the world tangents, the world tangents stay tangent to the transformed surface (whose gradient
    is the inverse-transpose image of the local gradient g), the side is kept, and for a rigid transform lengths are kept *)
Theorem C13_transformed_hit_data : forall (t : T) (i : Info R) (ray : Ray R) (g : V), Inv t ->
  let i' := info_transform i t in
  let dl := rdir (fst (fst (tr_inv_ray t ray))) in
  vdot (inormal i') (rdir ray) = vdot (inormal i) dl /\
  vdot (inormal i') (idpdu i') = vdot (inormal i) (idpdu i) /\
  vdot (inormal i') (idpdv i') = vdot (inormal i) (idpdv i) /\
  vdot (tr_normal t g) (idpdu i') = vdot g (idpdu i) /\ vdot (tr_normal t g) (idpdv i') = vdot g (idpdv i) /\
  iside i' = iside i /\ tr_inv_pt t (ip i') = ip i /\
  (rigid t -> vlen2 (inormal i') = vlen2 (inormal i)).
Proof. exact info_transform_coherent. Qed.
(** translations, rotations and their compositions are rigid *)
Theorem C13_rigid_transforms : forall (x y z deg : R) (a b : T),
  rigid (tr_translate x y z) /\ rigid (tr_rotate_x deg) /\ rigid (tr_rotate_y deg) /\ rigid (tr_rotate_z deg) /\
  (Inv a -> Inv b -> rigid a -> rigid b -> rigid (tr_mul_assign a b)).
Proof.
  exact (fun x y z deg a b => conj (rigid_translate x y z) (conj (proj1 (rigid_rotations deg)) (conj (proj1 (proj2 (rigid_rotations deg)))
          (conj (proj2 (proj2 (rigid_rotations deg))) (rigid_mul_assign a b))))).
Qed.

(** F8 on the executable (binary64) instance of the same model: the unit sphere and the ray down the z axis.
    The hit is (1e-5, 0, 1) (the pole fix-up moved x), sin(theta) = 0, [dpdv] = (inf, NaN, -0), the normalised cross
    product is NaN so [get_side] answers the zero vector and NonApplicable, and the [debug_assert!] of [get_side]
    fails (debug builds panic). *)
Theorem C13_sphere_pole_refuted :
  let s : Sphere float := mkSphere 1%float (-1)%float 1%float (2 * Fpi)%float Fpi 0%float None in
  let ray : Ray float := mkRay (mkV3 0 0 3)%float (mkV3 0 0 (-1))%float in
  match sphere_intersect s ray with
  | Some i => iside i = NonApplicable /\ PrimFloat.eqb (vlen (inormal i)) 0 = true /\
              PrimFloat.is_nan (vy (idpdv i)) = true /\ sphere_info_debug_ok s (ip i) = false
  | None => False
  end.
Proof. exact sphere_pole_witness. Qed.

(** non-vacuity: the unit sphere at (1,0,0), the unit cylinder at (1,0,1), a ray along -x *)
Example C13_quadric_nonvacuous :
  let s := mkSphere 1 (-1) 1 (2 * PI) PI 0 None in
  let c := mkCyl 1 0 2 (2 * PI) None in
  0 < sradius s /\ on_sphere s (mkV3 1 0 0) /\ sphere_sin_theta s (mkV3 1 0 0) <> 0 /\ 0 < sphi_max s /\ 0 < sdelta_theta s /\
  0 < cradius c /\ on_cyl c (mkV3 1 0 1) /\ 0 < cphi_max c /\ czmin c < czmax c.
Proof. exact hit_nonvacuous_proof. Qed.
