(** * C10 -- loop area, perimeter, normal and centroid are geometrically correct.
    Exact tier: the model of loop3d.rs read on the real numbers.  [newell l] is the vector
    S = sum v_i x v_{i+1} over the closed outline (twice the vector area), [perimeter_of l] the sum of
    the edge lengths, [vsum l] the vertex sum (Theory/LoopGeom.v).  The float build is tied to the same
    model text bit for bit (Run/C10.v); float-vs-exact is sampled by lib/pC10.py. *)
From Coq Require Import ZArith Reals Bool List Arith.
From G3 Require Import Model.Num Model.Base Model.Vec Model.Segment Model.Loop Model.Polygon Theory.RInst Theory.LoopGeom
  Proofs.C10_measures Proofs.C10_pipeline.
Import ListNotations.
Local Open Scope R_scope.

(** ** what [set_area] / [close] report *)

(** the accumulation loop of [set_area] computes the Newell vector of the stored vertex list *)
Theorem C10_sum_cross_is_newell : forall vs : list (V3 R), sum_cross vs (vnth vs O) vzero = newell vs.
Proof. exact sum_cross_newell. Qed.

(** area = |n . S| / 2, whatever the normal held before; vertices, closed flag, perimeter untouched *)
Theorem C10_area_is_half_abs_n_dot_S : forall L : Loop R,
  lclosed L = true -> vis_zero (lnormal L) = false -> (3 <= llen L)%nat ->
  exists L', loop_set_area L = Ok L' /\ verts L' = verts L /\ lclosed L' = true /\ lperim L' = lperim L
    /\ larea L' = Rabs (vdot (lnormal L) (newell (verts L))) / 2
    /\ (lnormal L' = lnormal L \/ lnormal L' = vneg (lnormal L))
    /\ 0 <= vdot (lnormal L') (newell (verts L)).
Proof. exact set_area_spec. Qed.

(** right-hand rule w.r.t. the STORED vertex order, whatever the first corner: after a successful [close]
    the normal n' satisfies n' . S >= 0 (the flip branch of [set_area] included), it is the normal of the first
    corner or its opposite, the area is |n . S| / 2 and the perimeter the sum of the edge lengths *)
Theorem C10_normal_right_hand : forall L : Loop R,
  snd (loop_close L) = Ok tt ->
  let L' := fst (loop_close L) in
  lclosed L' = true /\ (3 <= llen L')%nat
  /\ larea L' = Rabs (vdot (lnormal L) (newell (verts L'))) / 2
  /\ (lnormal L' = lnormal L \/ lnormal L' = vneg (lnormal L))
  /\ 0 <= vdot (lnormal L') (newell (verts L'))
  /\ lperim L' = perimeter_of (verts L').
Proof. exact close_measures. Qed.

(** for an exactly planar outline and a unit normal of its plane, |n . S| / 2 is |S| / 2: area^2 = |S|^2 / 4 *)
Theorem C10_area_is_true_area : forall (L L' : Loop R) (v0 : V3 R),
  loop_set_area L = Ok L' -> hd vzero (verts L) = v0 ->
  vdot (lnormal L) (lnormal L) = 1 -> (forall v, In v (verts L) -> vdot (lnormal L) (vsub v v0) = 0) ->
  (larea L' * larea L' = vdot (newell (verts L)) (newell (verts L)) / 4)%R /\ 0 <= larea L'.
Proof. exact set_area_true_area. Qed.

(** ** shoelace algebra (device D3): the Newell vector, hence the area and the orientation *)
Theorem C10_S_shift : forall l1 l2 : list (V3 R), newell (l1 ++ l2) = newell (l2 ++ l1).
Proof. exact newell_rot. Qed.
Theorem C10_S_reverse : forall l : list (V3 R), newell (rev l) = vneg (newell l).
Proof. exact newell_rev. Qed.
Theorem C10_S_translate : forall (t : V3 R) (l : list (V3 R)), newell (map (vadd t) l) = newell l.
Proof. exact newell_translate. Qed.
(** a point exactly on an edge (any position in the list, closing edge included) changes nothing *)
Theorem C10_S_insert_on_edge : forall (l1 l2 : list (V3 R)) (a b : V3 R) (s : R),
  newell (l1 ++ a :: vadd a (vscale (vsub b a) s) :: b :: l2) = newell (l1 ++ a :: b :: l2).
Proof. exact newell_insert_on_edge. Qed.
Theorem C10_S_insert_on_closing_edge : forall (v : V3 R) (l : list (V3 R)) (s : R),
  let a := last (v :: l) vzero in
  newell ((v :: l) ++ [vadd a (vscale (vsub v a) s)]) = newell (v :: l).
Proof. exact newell_insert_on_closing_edge. Qed.
(** removing the ear (v0,v1,v2) removes exactly that triangle's contribution: the signed area is the sum of the
    signed ear areas for ANY ear sequence (this ties "area" to triangle areas rather than restating the formula) *)
Theorem C10_S_ear : forall (v0 v1 v2 : V3 R) (l : list (V3 R)),
  newell (v0 :: v1 :: v2 :: l) = vadd (newell (v0 :: v2 :: l)) (vcross (vsub v1 v0) (vsub v2 v0)).
Proof. exact newell_ear. Qed.
Theorem C10_signed_area_ear : forall (n v0 v1 v2 : V3 R) (l : list (V3 R)),
  (vdot n (newell (v0 :: v1 :: v2 :: l)) / 2 =
   vdot n (newell (v0 :: v2 :: l)) / 2 + vdot n (vcross (vsub v1 v0) (vsub v2 v0)) / 2)%R.
Proof. exact signed_area_ear. Qed.
(** rigid motions p |-> f p + t (f respecting sums and cross products, as rotations do) carry S along: f S.
    With f preserving dot products, n . S -- hence the area and the orientation sign -- is unchanged when the
    normal is carried along as well. *)
Theorem C10_S_rigid_motion : forall (f : V3 R -> V3 R) (t : V3 R),
  (forall a b, f (vadd a b) = vadd (f a) (f b)) -> f vzero = vzero -> (forall a b, f (vcross a b) = vcross (f a) (f b)) ->
  forall l, newell (map (fun p => vadd t (f p)) l) = f (newell l).
Proof. exact newell_rigid. Qed.
(** for a planar outline S is parallel to the plane normal *)
Theorem C10_S_parallel_to_normal : forall (n : V3 R) (l : list (V3 R)) (v0 : V3 R),
  hd vzero l = v0 -> (forall v, In v l -> vdot n (vsub v v0) = 0) -> vcross n (newell l) = vzero.
Proof. exact newell_parallel_normal. Qed.

(** ** perimeter *)
Theorem C10_perimeter_is_sum_of_edges : forall L L' : Loop R,
  loop_set_perimeter L = Ok L' ->
  lperim L' = perimeter_of (verts L) /\ verts L' = verts L /\ lnormal L' = lnormal L /\ larea L' = larea L /\ lclosed L' = lclosed L.
Proof. exact set_perimeter_spec. Qed.
Theorem C10_perimeter_shift : forall l1 l2 : list (V3 R), perimeter_of (l1 ++ l2) = perimeter_of (l2 ++ l1).
Proof. exact perimeter_rot. Qed.
Theorem C10_perimeter_reverse : forall l : list (V3 R), perimeter_of (rev l) = perimeter_of l.
Proof. exact perimeter_rev. Qed.

(** ** centroid *)
Theorem C10_centroid_is_mean : forall L : Loop R,
  lclosed L = true -> loop_centroid L = Ok (vdivs (vsum (verts L)) (INR (llen L))).
Proof. exact centroid_spec. Qed.
Theorem C10_centroid_shift : forall l1 l2 : list (V3 R), vsum (l1 ++ l2) = vsum (l2 ++ l1) /\ length (l1 ++ l2) = length (l2 ++ l1).
Proof. intros l1 l2. split; [apply vsum_rot | rewrite !app_length; apply Nat.add_comm]. Qed.
Theorem C10_centroid_reverse : forall l : list (V3 R), vsum (rev l) = vsum l /\ length (rev l) = length l.
Proof. intros l. split; [apply vsum_rev | apply rev_length]. Qed.

(** ** polygon without holes: area and normal are the outer loop's, outer_centroid is the vertex mean
    (area = outer - sum of holes after cut_hole is C11's concern) *)
Theorem C10_polygon_area_normal : forall (L : Loop R) (P : Poly R),
  poly_new L = Ok P -> pouter P = L /\ pinner P = [] /\ parea P = larea L /\ pnormal P = lnormal L.
Proof. exact poly_new_spec. Qed.
Theorem C10_polygon_outer_centroid_is_mean : forall P : Poly R,
  poly_outer_centroid P = vdivs (vsum (verts (pouter P))) (INR (llen (pouter P))).
Proof. exact poly_outer_centroid_spec. Qed.

(** ** the normal computed from the first three vertices: unit, perpendicular to the first two edges, and
    pointing along (b - a) x (c - b), whenever these edges are not parallel *)
Theorem C10_set_normal_unit_perp : forall (L : Loop R) (a b c : V3 R) (rest : list (V3 R)),
  verts L = a :: b :: c :: rest -> vcross (vsub b a) (vsub c b) <> vzero ->
  exists L', loop_set_normal L = Ok L' /\ verts L' = verts L /\
    vdot (lnormal L') (lnormal L') = 1 /\ vdot (lnormal L') (vsub b a) = 0 /\ vdot (lnormal L') (vsub c b) = 0
    /\ 0 < vdot (lnormal L') (vcross (vsub b a) (vsub c b)).
Proof. exact set_normal_spec. Qed.

(** ** through the pipeline push* / close *)

(** an outline whose corners are all genuine for the library's collinearity test (cyclically) is stored as it
    is given: hence a cyclically shifted input yields the cyclically shifted vertex list -- and by the theorems
    above the same area and perimeter, the same centroid, and a normal fixed by the right-hand rule.
    PARTIAL (only (1) is still missing).  The full statement of DESIGN section 4 ("close (push* pts) and close (push* pts') for pts' a cyclic
    shift or a collinear enrichment of pts yield cyclically equal vertex lists") additionally needs
      (1) that ACCEPTANCE is invariant: [valid_to_add] succeeds for the shifted / enriched sequence whenever it does
          for the original one (the crossing test of every prefix; this is the pairwise non-crossing invariant C04(d),
          itself partial) -- here both constructions are assumed to succeed;
      (2) enrichment in general position of the list (several inserted points per edge, on the first and on the closing
          edge, start at an inserted point): NOW PROVED, for the live push / close (after fix 1ef6368), in
          Properties/C10_pipeline.v -- [C10_pipeline_enrichment] (the stored outline of the enriched input is a cyclic shift
          of l), [C10_enrichment_measures] (same perimeter, centroid, vertex count, Newell vector),
          [C10_enrichment_area_normal] (same area and normal for an exactly planar outline); proofs in
          Proofs/C10_enrich.v.  [C10_pipeline_point_on_edge] below is the one-point special case, kept;
      (3) the hypothesis that genuine corners have |cross| >= 1e-5 also towards every inserted point: it is forced --
          a point m at distance t from a on the edge a -> b with t * |x a| * sin(angle) < 1e-5 REPLACES the vertex a. *)
Theorem C10_pipeline_shift_partial : forall (l1 l2 : list (V3 R)) (L L' : Loop R),
  genuine_cycle (l1 ++ l2) -> genuine_cycle (l2 ++ l1) ->
  push_list loop_new (l1 ++ l2) = Ok L -> snd (loop_close L) = Ok tt ->
  push_list loop_new (l2 ++ l1) = Ok L' -> snd (loop_close L') = Ok tt ->
  verts (fst (loop_close L)) = l1 ++ l2 /\ verts (fst (loop_close L')) = l2 ++ l1.
Proof. intros l1 l2 L L' G1 G2 P1 C1 P2 C2. split; apply build_genuine; assumption. Qed.

(** a redundant point exactly on the edge a -> b being drawn: pushing it and then b gives the vertex list that
    pushing b alone gives *)
Theorem C10_pipeline_point_on_edge : forall (L L1 L2 L2' : Loop R) (l : list (V3 R)) (x a b : V3 R) (s : R),
  let m := vadd a (vscale (vsub b a) s) in
  verts L = l ++ [x; a] ->
  is_collinear x a m = Ok false -> is_collinear x a b = Ok false ->
  vcompare a m && vcompare a b = false ->
  loop_push L m = Ok L1 -> loop_push L1 b = Ok L2 -> loop_push L b = Ok L2' ->
  verts L2 = l ++ [x; a; b] /\ verts L2' = verts L2.
Proof. exact push_via_edge_point. Qed.

(** the hypotheses of [C10_S_rigid_motion] are satisfiable by a genuine rotation (quarter turn about z) *)
Example C10_rigid_motion_nonvacuous :
  (forall a b, quarter_turn_z (vadd a b) = vadd (quarter_turn_z a) (quarter_turn_z b)) /\ quarter_turn_z vzero = vzero /\
  (forall a b, quarter_turn_z (vcross a b) = vcross (quarter_turn_z a) (quarter_turn_z b)) /\
  (forall a b, vdot (quarter_turn_z a) (quarter_turn_z b) = vdot a b).
Proof. exact quarter_turn_z_ok. Qed.

(** ** non-vacuity, on rational data: a convex first corner (unit square: normal kept) and a reflex first corner
    (L-shape started at its reflex vertex: the normal of the first three vertices points down and is flipped) *)
Example C10_convex_first_corner :
  let L := mkLoop square_pts (mkV3 0 0 1) true (-1) (-1) in
  exists L', loop_set_area L = Ok L' /\ lnormal L' = mkV3 0 0 1 /\ larea L' = 1.
Proof. exact convex_first_corner. Qed.
Example C10_reflex_first_corner :
  let L := mkLoop ell_pts (mkV3 0 0 (-1)) true (-1) (-1) in
  vcross (vsub (mkV3 1 1 0) (mkV3 2 1 0)) (vsub (mkV3 1 2 0) (mkV3 1 1 0)) = (mkV3 0 0 (-1) : V3 R) /\
  exists L', loop_set_area L = Ok L' /\ lnormal L' = mkV3 0 0 1 /\ larea L' = 3.
Proof. exact reflex_first_corner. Qed.
