//! Shared geometric generators: planar frames, simple polygons, holes.
use crate::util::*;
use geometry3d::{Point3D, Transform, Vector3D};

#[derive(Clone, Debug)]
pub struct Frame { pub o: [f64; 3], pub e1: [f64; 3], pub e2: [f64; 3], pub kind: u8 }

fn norm(v: [f64; 3]) -> [f64; 3] { let l = (v[0]*v[0]+v[1]*v[1]+v[2]*v[2]).sqrt(); [v[0]/l, v[1]/l, v[2]/l] }
fn cross(a: [f64; 3], b: [f64; 3]) -> [f64; 3] { [a[1]*b[2]-a[2]*b[1], a[2]*b[0]-a[0]*b[2], a[0]*b[1]-a[1]*b[0]] }

impl Frame {
    /// kind 0: coordinate plane, 1: oblique, 2: right-angle rotation through the crate's own Transform (1e-16 noise),
    /// 3: exactly diagonal plane (two normal components tie exactly, the third is zero; not orthonormal: |e1| = 1.06)
    pub fn random(r: &mut Rng, max_offset: f64) -> Frame {
        let kind = match r.below(12) { 0..=3 => 0u8, 4..=7 => 1, 8..=9 => 2, _ => 3 };
        let o = if r.chance(0.3) { [0.0; 3] } else { [r.range(-max_offset, max_offset), r.range(-max_offset, max_offset), r.range(-max_offset, max_offset)] };
        match kind {
            3 => {
                // exactly diagonal plane (x = +-y + c and the like): two components of the normal tie EXACTLY in magnitude, the
                // third is zero; coordinates stay exactly representable (e1 = 0.75 * (1, +-1, 0), tied offsets equal)
                let i = r.below(3) as usize; let j = (i + 1) % 3; let k = (i + 2) % 3;
                let s = if r.chance(0.5) { 0.75 } else { -0.75 };
                let mut e1 = [0.0; 3]; e1[i] = 0.75; e1[j] = s;
                let mut e2 = [0.0; 3]; e2[k] = if r.chance(0.5) { 1.0 } else { -1.0 };
                let mut o2 = o; o2[j] = o2[i] * if s > 0.0 { 1.0 } else { -1.0 };
                if r.chance(0.5) { Frame { o: o2, e1, e2, kind } } else { Frame { o: o2, e1: e2, e2: e1, kind } }
            }
            0 => {
                let axes = [[1.0, 0.0, 0.0], [0.0, 1.0, 0.0], [0.0, 0.0, 1.0]];
                let i = r.below(3) as usize; let j = (i + 1 + r.below(2) as usize) % 3;
                let s1 = if r.chance(0.5) { 1.0 } else { -1.0 }; let s2 = if r.chance(0.5) { 1.0 } else { -1.0 };
                Frame { o, e1: [axes[i][0]*s1, axes[i][1]*s1, axes[i][2]*s1], e2: [axes[j][0]*s2, axes[j][1]*s2, axes[j][2]*s2], kind }
            }
            1 => {
                let n = norm([r.range(-1.0, 1.0), r.range(-1.0, 1.0), r.range(-1.0, 1.0) + 1e-3]);
                let a = if n[0].abs() < 0.8 { [1.0, 0.0, 0.0] } else { [0.0, 1.0, 0.0] };
                let e1 = norm(cross(n, a)); let e2 = cross(n, e1);
                Frame { o, e1, e2, kind }
            }
            _ => {
                let mut t = Transform::new();
                for _ in 0..(1 + r.below(3)) {
                    let ang = *r.pick(&[90.0, -90.0, 180.0, 270.0]) as Float;
                    let rt = match r.below(3) { 0 => Transform::rotate_x(ang), 1 => Transform::rotate_y(ang), _ => Transform::rotate_z(ang) };
                    t *= rt;
                }
                let a = t.transform_vec(Vector3D::new(1.0, 0.0, 0.0)); let b = t.transform_vec(Vector3D::new(0.0, 1.0, 0.0));
                Frame { o, e1: [a.x as f64, a.y as f64, a.z as f64], e2: [b.x as f64, b.y as f64, b.z as f64], kind }
            }
        }
    }
    pub fn xy() -> Frame { Frame { o: [0.0; 3], e1: [1.0, 0.0, 0.0], e2: [0.0, 1.0, 0.0], kind: 0 } }
    pub fn at(&self, u: f64, v: f64) -> Point3D {
        Point3D::new((self.o[0] + u*self.e1[0] + v*self.e2[0]) as Float, (self.o[1] + u*self.e1[1] + v*self.e2[1]) as Float, (self.o[2] + u*self.e1[2] + v*self.e2[2]) as Float)
    }
    pub fn normal(&self) -> [f64; 3] { cross(self.e1, self.e2) }
    pub fn off(&self, u: f64, v: f64, h: f64) -> Point3D {
        let n = self.normal(); let p = self.at(u, v);
        Point3D::new(p.x + (h*n[0]) as Float, p.y + (h*n[1]) as Float, p.z + (h*n[2]) as Float)
    }
}

/// The plane of a generated outline.  f64 build: `Frame::random` as it is (same draws, same cases).  f32 build (finding F15: the
/// crate's absolute 1e-7 coplanarity tolerance is below binary32 rounding noise at metre scale, so oblique outlines are refused by
/// `Loop3D::push`): 75% coordinate planes, 10% exactly diagonal planes, 10% right-angle rotations through the crate's own
/// Transform, 5% oblique (kept to measure the refusal rate); offsets capped at 8 so that the coordinate noise stays near 1e-6.
/// (Same rule as `frame_for` of mesh.rs, for the loop / polygon streams C05 C10 C11 C12 C20.)
#[allow(dead_code)]
pub fn frame_for(r: &mut Rng, offset: f64) -> Frame {
    if !cfg!(feature = "float") { return Frame::random(r, offset); }
    let want: u8 = match r.below(20) { 0..=14 => 0, 15 | 16 => 3, 17 | 18 => 2, _ => 1 };
    loop { let fr = Frame::random(r, offset.min(8.0)); if fr.kind == want { return fr; } }
}

pub type P2 = (f64, f64);

/// a simple polygon in 2-D (counter-clockwise), various families; `size` ~ metre scale
pub fn simple_polygon(r: &mut Rng, nmax: usize) -> (Vec<P2>, &'static str) {
    let n = 3 + r.below((nmax - 2) as u64) as usize;
    let size = (10.0f64).powf(r.range(-0.3, 1.3));
    match r.below(6) {
        5 => { // dart: concave quadrilateral (one reflex vertex), the smallest outline whose first corner can be reflex
            let w = size; let h = size * r.range(0.6, 1.6); let d = r.range(0.15, 0.5);
            (vec![(0.0, 0.0), (w / 2.0, h * d), (w, 0.0), (w / 2.0 + r.range(-0.2, 0.2) * w, h)], "dart")
        }
        0 => { // convex: points on an ellipse
            let a = size; let b = size * r.range(0.3, 1.0);
            let mut angs: Vec<f64> = (0..n).map(|i| (i as f64 + r.range(0.1, 0.9)) / n as f64 * std::f64::consts::TAU).collect();
            angs.sort_by(|x, y| x.partial_cmp(y).unwrap());
            (angs.iter().map(|t| (a * t.cos(), b * t.sin())).collect(), "convex")
        }
        1 => { // star-shaped, concave
            let mut angs: Vec<f64> = (0..n).map(|i| (i as f64 + r.range(0.15, 0.85)) / n as f64 * std::f64::consts::TAU).collect();
            angs.sort_by(|x, y| x.partial_cmp(y).unwrap());
            (angs.iter().map(|t| { let rad = size * r.range(0.35, 1.0); (rad * t.cos(), rad * t.sin()) }).collect(), "star")
        }
        2 => { // rectilinear staircase (monotone), grid coordinates
            let k = 1 + (n.saturating_sub(4)) / 2; // number of steps
            let mut xs = vec![0.0]; let mut ys = vec![0.0];
            for _ in 0..k { let lx = *xs.last().unwrap(); xs.push(lx + (1 + r.below(3)) as f64); let ly = *ys.last().unwrap(); ys.push(ly + (1 + r.below(3)) as f64); }
            let s = size / (k as f64 + 1.0);
            let mut pts = vec![(0.0, 0.0), (xs[k] * s, 0.0)];
            for i in (1..=k).rev() { pts.push((xs[i] * s, ys[k + 1 - i] * s)); pts.push((xs[i - 1] * s, ys[k + 1 - i] * s)); }
            pts.pop(); pts.push((0.0, ys[k] * s));
            // dedupe consecutive duplicates
            let mut out: Vec<P2> = vec![];
            for p in pts { if out.last().map_or(true, |q| (q.0 - p.0).abs() > 1e-9 || (q.1 - p.1).abs() > 1e-9) { out.push(p) } }
            (out, "rectilinear")
        }
        3 => { // L / U shapes
            let w = size; let h = size * r.range(0.5, 1.5); let a = r.range(0.25, 0.6); let b = r.range(0.25, 0.6);
            if r.chance(0.5) { (vec![(0.0, 0.0), (w, 0.0), (w, h * b), (w * a, h * b), (w * a, h), (0.0, h)], "L") }
            else { let c = r.range(0.65, 0.85); (vec![(0.0, 0.0), (w, 0.0), (w, h), (w * c, h), (w * c, h * b), (w * a, h * b), (w * a, h), (0.0, h)], "U") }
        }
        _ => { // axis-aligned rectangle / parallelogram
            let w = size; let h = size * r.range(0.2, 2.0); let sh = if r.chance(0.5) { 0.0 } else { r.range(-0.5, 0.5) * w };
            (vec![(0.0, 0.0), (w, 0.0), (w + sh, h), (sh, h)], "quad")
        }
    }
}
/// insert redundant collinear points on edges
pub fn with_collinear(r: &mut Rng, p: &[P2], prob: f64) -> Vec<P2> {
    let mut out = vec![];
    let n = p.len();
    for i in 0..n {
        out.push(p[i]);
        if r.chance(prob) {
            let q = p[(i + 1) % n]; let k = 1 + r.below(2);
            for j in 1..=k { let t = j as f64 / (k + 1) as f64; out.push((p[i].0 + t * (q.0 - p[i].0), p[i].1 + t * (q.1 - p[i].1))); }
        }
    }
    out
}
pub fn rotate_start(p: &[P2], k: usize) -> Vec<P2> { let n = p.len(); (0..n).map(|i| p[(i + k) % n]).collect() }
pub fn reversed(p: &[P2]) -> Vec<P2> { let mut q = p.to_vec(); q.reverse(); q }
pub fn area2(p: &[P2]) -> f64 { let n = p.len(); (0..n).map(|i| p[i].0 * p[(i + 1) % n].1 - p[(i + 1) % n].0 * p[i].1).sum::<f64>() / 2.0 }
pub fn centroid2(p: &[P2]) -> P2 { let n = p.len() as f64; (p.iter().map(|q| q.0).sum::<f64>() / n, p.iter().map(|q| q.1).sum::<f64>() / n) }
/// even-odd point in polygon (f64; for generation only)
pub fn inside2(p: &[P2], q: P2) -> bool {
    let n = p.len(); let mut c = false;
    for i in 0..n { let (a, b) = (p[i], p[(i + 1) % n]);
        if (a.1 > q.1) != (b.1 > q.1) && q.0 < (b.0 - a.0) * (q.1 - a.1) / (b.1 - a.1) + a.0 { c = !c } }
    c
}
pub fn dist_to_outline(p: &[P2], q: P2) -> f64 {
    let n = p.len(); let mut best = f64::MAX;
    for i in 0..n { let (a, b) = (p[i], p[(i + 1) % n]);
        let (dx, dy) = (b.0 - a.0, b.1 - a.1); let l2 = dx * dx + dy * dy;
        let t = if l2 == 0.0 { 0.0 } else { (((q.0 - a.0) * dx + (q.1 - a.1) * dy) / l2).clamp(0.0, 1.0) };
        let (cx, cy) = (a.0 + t * dx, a.1 + t * dy);
        best = best.min(((q.0 - cx).powi(2) + (q.1 - cy).powi(2)).sqrt()); }
    best
}
/// a small convex hole (k vertices) around centre c with radius rad
pub fn small_hole(r: &mut Rng, c: P2, rad: f64, k: usize, ccw: bool, start: usize) -> Vec<P2> {
    let ph = r.range(0.0, 6.28);
    let mut v: Vec<P2> = (0..k).map(|i| { let t = ph + (i as f64) / (k as f64) * std::f64::consts::TAU; (c.0 + rad * t.cos(), c.1 + rad * t.sin()) }).collect();
    if !ccw { v.reverse(); }
    rotate_start(&v, start % k)
}
pub fn pts_json(v: &[Point3D]) -> String {
    let f: Vec<Float> = v.iter().flat_map(|p| vec![p.x, p.y, p.z]).collect();
    jfs(&f)
}
pub fn pts_coq(v: &[Point3D]) -> String {
    let f: Vec<Float> = v.iter().flat_map(|p| vec![p.x, p.y, p.z]).collect();
    sfs(&f)
}

// ---------------------------------------------------------------------------------------------
// additions for C05 / C10
// ---------------------------------------------------------------------------------------------

pub fn cross2(a: P2, b: P2, c: P2) -> f64 { (b.0 - a.0) * (c.1 - b.1) - (b.1 - a.1) * (c.0 - b.0) }
/// every cyclically consecutive triple is either collinear by construction (|cross| < 1e-9) or a genuine
/// corner (|cross| >= min_cross, well above the library's collinearity tolerance 1e-5); edges not shorter than 1e-3
pub fn corners_ok(p: &[P2], min_cross: f64) -> bool {
    let n = p.len();
    if n < 3 { return false; }
    for i in 0..n {
        let (a, b, c) = (p[i], p[(i + 1) % n], p[(i + 2) % n]);
        let cr = cross2(a, b, c).abs();
        if !(cr < 1e-9 || cr >= min_cross) { return false; }
        if ((b.0 - a.0).powi(2) + (b.1 - a.1).powi(2)).sqrt() < 1e-3 { return false; }
    }
    true
}
/// a rigid motion built from the crate's own constructors: rotations about the three axes by arbitrary angles, then a translation
pub fn rigid_motion(r: &mut Rng, max_shift: f64) -> Transform {
    // f32 build: shifts to 8 and, 70% of the time, right angles only (an arbitrary rotation leaves 1e-6 of coplanarity noise at
    // metre scale, which Loop3D::push refuses: finding F15); the f64 build draws exactly what it always drew
    #[cfg(feature = "float")]
    {
        let ms = max_shift.min(8.0);
        let mut t = Transform::translate(r.range(-ms, ms) as Float, r.range(-ms, ms) as Float, r.range(-ms, ms) as Float);
        let right = r.chance(0.7);
        let mut ang = |r: &mut Rng| if right { *r.pick(&[0.0, 90.0, -90.0, 180.0, 270.0]) as Float } else { r.range(-180.0, 180.0) as Float };
        t *= Transform::rotate_z(ang(r)); t *= Transform::rotate_y(ang(r)); t *= Transform::rotate_x(ang(r));
        return t;
    }
    #[allow(unreachable_code)]
    let mut t = Transform::translate(r.range(-max_shift, max_shift) as Float, r.range(-max_shift, max_shift) as Float, r.range(-max_shift, max_shift) as Float);
    t *= Transform::rotate_z(r.range(-180.0, 180.0) as Float);
    t *= Transform::rotate_y(r.range(-180.0, 180.0) as Float);
    t *= Transform::rotate_x(r.range(-180.0, 180.0) as Float);
    t
}
pub fn bbox2(p: &[P2]) -> (f64, f64, f64, f64) {
    let mut b = (f64::MAX, f64::MAX, f64::MIN, f64::MIN);
    for q in p { b.0 = b.0.min(q.0); b.1 = b.1.min(q.1); b.2 = b.2.max(q.0); b.3 = b.3.max(q.1); }
    b
}
/// a point well inside the polygon (rejection sampling in the bounding box), at least `margin` from the outline
pub fn interior_point(r: &mut Rng, p: &[P2], margin: f64) -> Option<P2> {
    let b = bbox2(p);
    for _ in 0..200 {
        let q = (r.range(b.0, b.2), r.range(b.1, b.3));
        if inside2(p, q) && dist_to_outline(p, q) > margin { return Some(q); }
    }
    None
}
