//! Part `pflat` of C02 / C03 / C13: triangle, plane, disk/annulus/sector (optional transform), distant source.
//!
//! One case = (op, prim, rays, out):
//!   prim = [debug flag] ++ the *constructed object* (vertices / plane coefficients / Disk3D fields read through
//!          the `verif_fields` hook (+ transform matrices) / DistantSource3D public fields),
//!   rays = 6 floats per ray (1 ray, or 2 for the "same point from both sides" pairs of C13),
//!   out  = per ray: [0] = None, [2] = panic, [1, ...] = Some(...).
//! `recipe` = the constructor arguments the object was built from (kept in the JSON for the oracles and the replay).
use crate::c06::{elem_code, elem_tr, from_mats, mats, rand_chain, Elem};
use crate::util::*;
use geometry3d::intersection::{IntersectionInfo, SurfaceSide};
use geometry3d::{Disk3D, DistantSource3D, Plane3D, Point3D, Ray3D, Triangle3D, Vector3D};
use std::panic::AssertUnwindSafe;
use std::rc::Rc;

type A3 = [f64; 3];
fn add(a: A3, b: A3) -> A3 { [a[0] + b[0], a[1] + b[1], a[2] + b[2]] }
fn sub(a: A3, b: A3) -> A3 { [a[0] - b[0], a[1] - b[1], a[2] - b[2]] }
fn scl(a: A3, s: f64) -> A3 { [a[0] * s, a[1] * s, a[2] * s] }
fn dot(a: A3, b: A3) -> f64 { a[0] * b[0] + a[1] * b[1] + a[2] * b[2] }
fn cross(a: A3, b: A3) -> A3 { [a[1] * b[2] - a[2] * b[1], a[2] * b[0] - a[0] * b[2], a[0] * b[1] - a[1] * b[0]] }
fn len(a: A3) -> f64 { dot(a, a).sqrt() }
fn unit(a: A3) -> A3 { let l = len(a); if l > 0.0 { scl(a, 1.0 / l) } else { [1.0, 0.0, 0.0] } }
fn perp(a: A3) -> A3 {
    let b = if a[0].abs() <= a[1].abs() && a[0].abs() <= a[2].abs() { [1.0, 0.0, 0.0] } else if a[1].abs() <= a[2].abs() { [0.0, 1.0, 0.0] } else { [0.0, 0.0, 1.0] };
    unit(cross(a, b))
}
fn p3(v: &[Float]) -> Point3D { Point3D::new(v[0], v[1], v[2]) }
fn v3(v: &[Float]) -> Vector3D { Vector3D::new(v[0], v[1], v[2]) }
fn fl3(a: A3) -> [Float; 3] { [a[0] as Float, a[1] as Float, a[2] as Float] }
fn a3(v: &[Float]) -> A3 { [v[0] as f64, v[1] as f64, v[2] as f64] }
fn ray_of(v: &[Float]) -> Ray3D { Ray3D { origin: p3(&v[0..3]), direction: v3(&v[3..6]) } }

pub const DEBUG: bool = cfg!(debug_assertions);
/// `"f32":true,` in the JSON of a case produced by the f32 build (the bit patterns are then 32-bit ones)
fn f32_json() -> &'static str { if cfg!(feature = "float") { "\"f32\":true," } else { "" } }

fn side_code(s: SurfaceSide) -> Float { match s { SurfaceSide::Front => 0.0, SurfaceSide::Back => 1.0, SurfaceSide::NonApplicable => 2.0 } }
fn enc_pt(o: Option<Point3D>) -> Vec<Float> { match o { None => vec![0.0], Some(p) => vec![1.0, p.x, p.y, p.z] } }
fn enc_info(o: Option<IntersectionInfo>) -> Vec<Float> {
    match o {
        None => vec![0.0],
        Some(i) => vec![1.0, i.p.x, i.p.y, i.p.z, i.normal.x, i.normal.y, i.normal.z, side_code(i.side),
                        i.dpdu.x, i.dpdu.y, i.dpdu.z, i.dpdv.x, i.dpdv.y, i.dpdv.z],
    }
}
fn or_panic(r: Result<Vec<Float>, String>) -> Vec<Float> { match r { Ok(v) => v, Err(_) => vec![2.0] } }

pub fn op_name(op: usize) -> &'static str {
    match op {
        1 => "tri_basic", 2 => "tri_new", 3 => "tri_intersect", 4 => "tri_simple",
        5 => "plane_new", 6 => "plane_intersect", 7 => "plane_raw_intersect", 8 => "plane_test_point", 9 => "ray_advance",
        10 => "disk_new_detailed", 11 => "disk_new", 12 => "disk_basic", 13 => "disk_info", 14 => "disk_local_simple",
        15 => "disk_local", 16 => "disk_intersect", 17 => "disk_simple", 18 => "disk_area",
        20 => "ds_new", 21 => "ds_simple_local", 22 => "ds_local", 23 => "ds_intersect", 24 => "ds_simple", 25 => "ds_area",
        _ => "?",
    }
}

fn zero() -> Point3D { Point3D::new(0.0, 0.0, 0.0) }

fn build_disk(recipe: &[Float]) -> Result<Disk3D, String> {
    // recipe: centre(3) normal(3) radius inner phi_zero(3) phi_max_deg [32 matrix entries]
    let tr = if recipe.len() >= 12 + 32 { Some(Rc::new(from_mats(&recipe[12..44]))) } else { None };
    let r: Vec<Float> = recipe.to_vec();
    catch(AssertUnwindSafe(move || Disk3D::new_detailed(p3(&r[0..3]), v3(&r[3..6]), r[6], r[7], v3(&r[8..11]), r[11], tr)))
}
fn disk_fields(d: &Disk3D) -> Vec<Float> {
    let (c, n, r, ri, pz, pm) = d.verif_fields();
    let mut v = vec![c.x, c.y, c.z, n.x, n.y, n.z, r, ri, pz.x, pz.y, pz.z, pm];
    match d.transform() {
        Some(t) => { v.push(1.0); v.extend(mats(t)); }
        None => v.push(0.0),
    }
    v
}
fn build_ds(recipe: &[Float]) -> DistantSource3D { DistantSource3D::new(v3(&recipe[0..3]), recipe[3]) }
fn ds_fields(s: &DistantSource3D) -> Vec<Float> {
    vec![s.direction.x, s.direction.y, s.direction.z, s.omega, s.angle, s.cos_half_alpha, s.tan_half_alpha]
}

/// Runs operation `op` of the real crate.  Returns (prim, out) or None when the object cannot be built
/// (constructor error/panic for an op that is not about the constructor).
pub fn exec(op: usize, recipe: &[Float], rays: &[Float]) -> Option<(Vec<Float>, Vec<Float>)> {
    let dbg: Float = if DEBUG { 1.0 } else { 0.0 };
    let mut prim = vec![dbg];
    let mut out: Vec<Float> = vec![];
    let nr = rays.len() / 6;
    match op {
        1 | 3 | 4 => {
            let t = match Triangle3D::new(p3(&recipe[0..3]), p3(&recipe[3..6]), p3(&recipe[6..9])) { Ok(t) => t, Err(_) => return None };
            prim.extend_from_slice(&recipe[0..9]);
            for k in 0..nr {
                let ray = ray_of(&rays[6 * k..]);
                out.extend(or_panic(catch(AssertUnwindSafe(|| match op {
                    1 => match t.basic_intersection(&ray, zero(), zero()) { None => vec![0.0], Some((p, u, v)) => vec![1.0, p.x, p.y, p.z, u, v] },
                    3 => enc_info(t.intersect(&ray)),
                    _ => enc_pt(t.simple_intersect(&ray)),
                }))));
            }
        }
        2 => {
            prim.extend_from_slice(&recipe[0..9]);
            let r = catch(AssertUnwindSafe(|| Triangle3D::new(p3(&recipe[0..3]), p3(&recipe[3..6]), p3(&recipe[6..9]))));
            out = match r {
                Err(_) => vec![2.0],
                Ok(Err(m)) => vec![0.0, if m.contains("equal") { 10.0 } else { 11.0 }],
                Ok(Ok(t)) => { let n = t.normal(); vec![1.0, n.x, n.y, n.z, t.area()] }
            };
        }
        5 => {
            prim.extend_from_slice(&recipe[0..6]);
            let pl = Plane3D::new(p3(&recipe[0..3]), v3(&recipe[3..6]));
            out = vec![pl.normal.x, pl.normal.y, pl.normal.z, pl.d];
        }
        6 | 7 => {
            let pl = if op == 6 { Plane3D::new(p3(&recipe[0..3]), v3(&recipe[3..6])) } else { Plane3D { normal: v3(&recipe[0..3]), d: recipe[3] } };
            prim.extend_from_slice(&[pl.normal.x, pl.normal.y, pl.normal.z, pl.d]);
            for k in 0..nr {
                let ray = ray_of(&rays[6 * k..]);
                out.extend(match pl.intersect(&ray) { None => vec![0.0], Some(t) => vec![1.0, t] });
            }
        }
        8 => {
            // Plane3D::test_point: the plane as for ops 6 (recipe = point, normal) / 7 (recipe = raw normal, d); `rays` = the point (3 floats)
            let pl = if recipe.len() >= 6 { Plane3D::new(p3(&recipe[0..3]), v3(&recipe[3..6])) } else { Plane3D { normal: v3(&recipe[0..3]), d: recipe[3] } };
            prim.extend_from_slice(&[pl.normal.x, pl.normal.y, pl.normal.z, pl.d]);
            let q = p3(&rays[0..3]);
            out = or_panic(catch(AssertUnwindSafe(|| vec![if pl.test_point(q) { 1.0 } else { 0.0 }])));
        }
        9 => {
            // Ray3D::advance: `rays` = origin, direction, t (7 floats); out = the advanced ray
            let mut ray = ray_of(&rays[0..6]);
            let t = rays[6];
            ray.advance(t);
            out = vec![ray.origin.x, ray.origin.y, ray.origin.z, ray.direction.x, ray.direction.y, ray.direction.z];
        }
        25 => {
            let s = build_ds(recipe);
            prim.extend(ds_fields(&s));
            out = vec![s.area()];
        }
        10 => {
            prim.extend_from_slice(&recipe[0..12]);
            out = match build_disk(&recipe[0..12]) { Err(_) => vec![2.0], Ok(d) => { let mut v = vec![1.0]; v.extend_from_slice(&disk_fields(&d)[0..12]); v } };
        }
        11 => {
            prim.extend_from_slice(&recipe[0..7]);
            let r: Vec<Float> = recipe.to_vec();
            out = match catch(AssertUnwindSafe(move || Disk3D::new(p3(&r[0..3]), v3(&r[3..6]), r[6]))) {
                Err(_) => vec![2.0],
                Ok(d) => { let mut v = vec![1.0]; v.extend_from_slice(&disk_fields(&d)[0..12]); v }
            };
        }
        12..=18 => {
            let d = match build_disk(recipe) { Ok(d) => d, Err(_) => return None };
            prim.extend(disk_fields(&d));
            if op == 18 { out = vec![d.area()]; }
            if op == 13 {
                // intersection_info(ray, phit, phi): phit, phi travel after the 6 ray floats (10 floats per "ray")
                let n10 = rays.len() / 10;
                for k in 0..n10 {
                    let r = &rays[10 * k..10 * k + 10];
                    let ray = ray_of(r);
                    out.extend(or_panic(catch(AssertUnwindSafe(|| enc_info(d.intersection_info(&ray, p3(&r[6..9]), r[9]))))));
                }
            }
            if op != 13 && op != 18 {
                for k in 0..nr {
                    let ray = ray_of(&rays[6 * k..]);
                    out.extend(or_panic(catch(AssertUnwindSafe(|| match op {
                        12 => match d.basic_intersection(&ray, zero(), zero()) { None => vec![0.0], Some((p, phi)) => vec![1.0, p.x, p.y, p.z, phi] },
                        14 => enc_pt(d.simple_intersect_local_ray(&ray, zero(), zero())),
                        15 => enc_info(d.intersect_local_ray(&ray, zero(), zero())),
                        16 => enc_info(d.intersect(&ray)),
                        _ => enc_pt(d.simple_intersect(&ray)),
                    }))));
                }
            }
        }
        20 => {
            prim.extend_from_slice(&recipe[0..4]);
            out = ds_fields(&build_ds(recipe));
        }
        21..=24 => {
            let s = build_ds(recipe);
            prim.extend(ds_fields(&s));
            for k in 0..nr {
                let ray = ray_of(&rays[6 * k..]);
                out.extend(or_panic(catch(AssertUnwindSafe(|| match op {
                    21 => enc_pt(s.simple_intersect_local_ray(&ray, zero(), zero())),
                    22 => enc_info(s.intersect_local_ray(&ray, zero(), zero())),
                    23 => enc_info(s.intersect(&ray)),
                    _ => enc_pt(s.simple_intersect(&ray)),
                }))));
            }
        }
        _ => return None,
    }
    Some((prim, out))
}

// ---------------------------------------------------------------------------------------------
// generators
// ---------------------------------------------------------------------------------------------
fn coord(r: &mut Rng) -> f64 {
    match r.below(8) {
        0 => *r.pick(&[0.0, 1.0, -1.0, 0.5, 2.0, 10.0, -3.0]),
        1 => r.range(-100.0, 100.0),
        2 => r.range(-1.0, 1.0),
        _ => r.range(-10.0, 10.0),
    }
}
fn rvec(r: &mut Rng) -> A3 { [coord(r), coord(r), coord(r)] }
/// a random direction (unit), sometimes an axis
fn rdir(r: &mut Rng) -> A3 {
    if r.chance(0.15) {
        let k = r.below(3) as usize; let mut v = [0.0; 3]; v[k] = if r.chance(0.5) { 1.0 } else { -1.0 }; return v;
    }
    loop {
        let v = [r.range(-1.0, 1.0), r.range(-1.0, 1.0), r.range(-1.0, 1.0)];
        let l = len(v);
        if l > 0.05 && l <= 1.0 { return scl(v, 1.0 / l); }
    }
}
/// length of a ray direction: unit, or anything in 1e-3..1e3 (occasionally extreme)
fn dlen(r: &mut Rng) -> f64 {
    match r.below(6) { 0 | 1 => 1.0, 2 => (10.0f64).powf(r.range(-6.0, 6.0)), _ => (10.0f64).powf(r.range(-3.0, 3.0)) }
}
fn small_delta(r: &mut Rng) -> f64 {
    let m = *r.pick(&[0.0, 1e-16, 1e-15, 1e-13, 1e-12, 1e-10, 1e-9, 2e-9, 1e-8, 1e-7, 1e-6, 2e-6, 1e-5, 1e-3]);
    if r.chance(0.5) { -m } else { m }
}
/// the crate's `100. * Float::EPSILON` (of the working precision: binary32 under `--features float`)
const FEPS: f64 = Float::EPSILON as f64;
const TINY: f64 = 100.0 * FEPS;
/// rounding-sized offsets of the generators are written for binary64; they are scaled to the working precision (x 1 in the f64 build)
const FSCALE: f64 = FEPS / f64::EPSILON;

/// A ray aimed at the point `q` of a surface with normal `n` (unit).  `mode`: 0 = from a random side towards q,
/// 1 = q is behind the origin, 2 = nearly parallel to the surface, 3 = distance close to the `t` threshold `thr`,
/// 4 = approach direction with |cos| close to `cthr` (the parallel band)
fn aim(r: &mut Rng, q: A3, n: A3, mode: usize, thr: f64, cthr: f64) -> (A3, A3, f64) {
    let mut w = rdir(r); // travel direction
    if dot(w, n).abs() < 1e-3 { w = unit(add(w, scl(n, 0.3))); }
    let mut s = (10.0f64).powf(r.range(-2.0, 2.5)); // distance origin -> q
    let l = dlen(r);
    match mode {
        2 => {
            let t1 = perp(n);
            let t2 = cross(n, t1);
            let a = r.range(0.0, 6.283);
            let tang = add(scl(t1, a.cos()), scl(t2, a.sin()));
            let k = *r.pick(&[0.0, 1e-17, 1e-16, 2e-16, 3e-16, 1e-15, 1e-14, 2e-14, 3e-14, 1e-12, 1e-9, 1e-6]);
            let k = (k * FSCALE).min(1e-3);
            w = add(tang, scl(n, if r.chance(0.5) { k } else { -k }));
        }
        3 => { s = if thr > 0.0 { thr * l * (1.0 + small_delta(r)) * if r.chance(0.2) { 0.0 } else { 1.0 } } else { small_delta(r) * l }; }
        4 => {
            let t1 = perp(n);
            let t2 = cross(n, t1);
            let a = r.range(0.0, 6.283);
            let tang = add(scl(t1, a.cos()), scl(t2, a.sin()));
            let k = cthr / l * (1.0 + small_delta(r));
            w = add(tang, scl(n, if r.chance(0.5) { k } else { -k }));
        }
        _ => {}
    }
    let o = sub(q, scl(w, s));
    let d = scl(w, if mode == 1 { -l } else { l });
    (o, d, s / l)
}
/// a second ray reaching `q` from the other side of the surface
fn aim_other_side(r: &mut Rng, q: A3, n: A3, d1: A3) -> (A3, A3) {
    let mut w = rdir(r);
    if dot(w, n).abs() < 1e-2 { w = unit(add(w, scl(n, 0.5))); }
    if dot(w, n) * dot(d1, n) > 0.0 { w = scl(w, -1.0); }
    let s = (10.0f64).powf(r.range(-2.0, 2.0));
    let l = dlen(r);
    (sub(q, scl(w, s)), scl(w, l))
}

fn tri_recipe(r: &mut Rng) -> Vec<Float> {
    let v: Vec<f64> = match r.below(8) {
        0 => vec![0.0, 0.0, 0.0, 1.0, 0.0, 0.0, 0.0, 1.0, 0.0], // the unit right triangle of the test-suite
        1 => { let o = rvec(r); let s = (10.0f64).powf(r.range(-3.0, 2.0)); let k = r.below(3) as usize; // axis-aligned right triangle
               let mut b = o; b[(k + 1) % 3] += s; let mut c = o; c[(k + 2) % 3] += s * r.range(0.2, 3.0); [o, b, c].concat() }
        2 => { let o = rvec(r); let s = (10.0f64).powf(r.range(-4.0, -1.0)); // small triangle far from the origin
               [o, add(o, scl(rdir(r), s)), add(o, scl(rdir(r), s))].concat() }
        3 => { let o = rvec(r); let e = scl(rdir(r), r.range(0.5, 5.0)); // sliver
               let f = add(scl(e, r.range(0.1, 0.9)), scl(rdir(r), (10.0f64).powf(r.range(-4.0, -1.0)))); [o, add(o, e), add(o, f)].concat() }
        _ => [rvec(r), rvec(r), rvec(r)].concat(),
    };
    v.iter().map(|x| *x as Float).collect()
}

/// barycentric target of a triangle ray, by category
fn tri_uv(r: &mut Rng, cat: usize) -> (f64, f64, &'static str) {
    match cat {
        0 => { let u = r.range(0.02, 0.96); let v = r.range(0.01, 0.98 - u); (u, v, "inside") }
        1 => { let u = r.range(0.05, 0.99); let v = r.range(1.0 - u + 0.01, 1.0).min(0.999); (u, v, "outside:beyond-hypotenuse") } // the other half of the parallelogram
        2 => { let k = r.below(4);
               let (u, v) = match k { 0 => (-r.range(0.01, 2.0), r.range(-1.0, 2.0)), 1 => (r.range(-1.0, 2.0), -r.range(0.01, 2.0)),
                                      2 => (r.range(1.01, 3.0), r.range(0.0, 1.0)), _ => (r.range(0.0, 1.0), r.range(1.01, 3.0)) };
               (u, v, "outside") }
        3 => { let u = r.range(0.0, 1.0); let d = small_delta(r); (u, 1.0 - u + d, "boundary:hypotenuse") }
        4 => { let v = r.range(0.0, 1.0); (small_delta(r), v, "boundary:u=0") }
        5 => { let u = r.range(0.0, 1.0); (u, small_delta(r), "boundary:v=0") }
        _ => { let k = r.below(3); let d = small_delta(r); let e = small_delta(r);
               match k { 0 => (d, e, "boundary:vertex"), 1 => (1.0 + d, e, "boundary:vertex"), _ => (d, 1.0 + e, "boundary:vertex") } }
    }
}

/// `x`: a second generator state for the operations added later (plane test_point, ray advance, distant area), so that the
/// sequence of the other cases does not depend on them
struct Gen<'a> { r: &'a mut Rng, x: Rng, sink: Sink, emph: usize }

impl<'a> Gen<'a> {
    fn push(&mut self, op: usize, recipe: &[Float], rays: &[Float], cat: &str, extra: &str) -> bool {
        let (prim, out) = match exec(op, recipe, rays) { Some(x) => x, None => return false };
        self.sink.push(
            format!("({}%N, {}, {}, {})", op, sfs(&prim), sfs(rays), sfs(&out)),
            format!("{{\"part\":\"pflat\",{}\"op\":{},\"kind\":\"{}\",\"cat\":\"{}\",\"debug\":{},\"recipe\":{},\"prim\":{},\"rays\":{},\"out\":{}{}}}",
                    f32_json(), op, op_name(op), cat, if DEBUG { 1 } else { 0 }, jfs(recipe), jfs(&prim), jfs(rays), jfs(&out), extra),
        );
        true
    }

    fn triangle(&mut self, boundary: bool, pair: bool) {
        let rec = tri_recipe(self.r);
        let (v0, v1, v2) = (a3(&rec[0..3]), a3(&rec[3..6]), a3(&rec[6..9]));
        let (e1, e2) = (sub(v1, v0), sub(v2, v0));
        let nn = cross(e1, e2);
        if self.r.chance(0.1) || len(nn) == 0.0 { self.push(2, &rec, &[], "ctor", ""); if len(nn) == 0.0 { return; } }
        let n = unit(nn);
        let cat = if pair { 0 } else if boundary { 3 + self.r.below(4) as usize } else { *self.r.pick(&[0, 0, 0, 1, 1, 2, 2, 3]) };
        let (u, v, mut cname) = tri_uv(self.r, cat);
        let q = add(v0, add(scl(e1, u), scl(e2, v)));
        let mode = if pair { 0 } else if boundary { *self.r.pick(&[0, 0, 3, 3, 4, 4, 2]) } else { *self.r.pick(&[0, 0, 0, 0, 0, 1, 2]) };
        // the parallel band of the triangle test is on a = -d.(e1 x e2): |cos| threshold = TINY / |e1 x e2|
        let (o, d, _) = aim(self.r, q, n, mode, TINY, TINY / len(nn));
        let cn = match mode { 1 => "behind".to_string(), 2 => "parallel".to_string(), 3 => format!("boundary:t~tiny+{}", cname), 4 => format!("boundary:a~tiny+{}", cname), _ => cname.to_string() };
        cname = "";
        let _ = cname;
        let mut rays: Vec<Float> = [fl3(o), fl3(d)].concat();
        let op = if pair { 3 } else { *self.r.pick(&[1, 1, 3, 3, 4]) };
        if pair {
            let (o2, d2) = aim_other_side(self.r, q, n, d);
            rays.extend([fl3(o2), fl3(d2)].concat());
            self.push(op, &rec, &rays, "pair:inside", "");
        } else {
            self.push(op, &rec, &rays, &cn, "");
        }
    }

    fn plane(&mut self, boundary: bool) {
        let point = rvec(self.r);
        let nl = dlen(self.r);
        let nrm = scl(rdir(self.r), nl);
        let rec: Vec<Float> = [fl3(point), fl3(nrm)].concat();
        if self.r.chance(0.15) { self.push(5, &rec, &[], "ctor", ""); }
        let n = unit(nrm);
        let t1 = perp(n);
        let q = add(point, add(scl(t1, self.r.range(-5.0, 5.0)), scl(cross(n, t1), self.r.range(-5.0, 5.0))));
        let mode = if boundary { *self.r.pick(&[3, 3, 4, 4, 2]) } else { *self.r.pick(&[0, 0, 0, 1, 1, 2]) };
        let (o, d, _) = aim(self.r, q, n, mode, 0.0, FEPS);
        let cn = match mode { 0 => "towards", 1 => "behind", 2 => "parallel", 3 => "boundary:t~0", _ => "boundary:den~eps" };
        let rays: Vec<Float> = [fl3(o), fl3(d)].concat();
        if self.x.chance(0.3) {
            // Plane3D::test_point (|n.p - d| < EPSILON): the defining point, points of the plane up to rounding, points a little / clearly off
            let (tp, tcat): (A3, &str) = match self.x.below(5) {
                0 => (point, "test_point:defining"),
                1 => (q, "test_point:on~rounding"),
                2 | 3 => { let k = *self.x.pick(&[1e-17, 1e-16, 2e-16, 2.3e-16, 4e-16, 1e-15, 1e-14, 1e-12, 1e-9]) * FSCALE; (add(q, scl(n, if self.x.chance(0.5) { k } else { -k })), "test_point:near") }
                _ => (add(q, scl(n, self.x.range(-3.0, 3.0))), "test_point:off"),
            };
            let pt: Vec<Float> = fl3(tp).to_vec();
            if self.x.chance(0.3) {
                let k = self.x.below(3) as usize; let mut nn = [0.0 as Float; 3]; nn[k] = if self.x.chance(0.5) { 1.0 } else { -1.0 };
                let dd = coord(&mut self.x) as Float;
                let mut pp = pt.clone(); if self.x.chance(0.6) { pp[k] = dd * nn[k] + (small_delta(&mut self.x) as Float) * if self.x.chance(0.5) { 1.0 } else { 0.0 }; }
                self.push(8, &[nn[0], nn[1], nn[2], dd], &pp, "test_point:raw", "");
            } else {
                self.push(8, &rec, &pt, tcat, "");
            }
        }
        if self.x.chance(0.15) {
            // Ray3D::advance(t): any t (negative, zero, huge included)
            let t = match self.x.below(5) { 0 => 0.0, 1 => -self.x.range(0.0, 10.0), 2 => (10.0f64).powf(self.x.range(-12.0, 12.0)), _ => self.x.range(0.0, 100.0) };
            let mut rr: Vec<Float> = [fl3(o), fl3(d)].concat(); rr.push(t as Float);
            self.push(9, &[], &rr, "advance", "");
        }
        if self.r.chance(0.25) {
            // raw coefficients (exactly representable normal / d)
            let k = self.r.below(3) as usize; let mut nn = [0.0 as Float; 3]; nn[k] = if self.r.chance(0.5) { 1.0 } else { -1.0 };
            let raw = vec![nn[0], nn[1], nn[2], coord(self.r) as Float];
            self.push(7, &raw, &rays, cn, "");
        } else {
            self.push(6, &rec, &rays, cn, "");
        }
    }

    /// random Disk3D recipe: centre normal radius inner phi_zero phi_max_deg (+ matrices) and the chain
    fn disk_recipe(&mut self, legal: bool) -> (Vec<Float>, Vec<Elem>) {
        let r = &mut *self.r;
        let centre = if r.chance(0.2) { [0.0; 3] } else { rvec(r) };
        let normal = scl(rdir(r), dlen(r).max(1e-3).min(1e3));
        let radius = (10.0f64).powf(r.range(-2.0, 2.0));
        let inner = match r.below(4) { 0 | 1 => 0.0, 2 => radius * r.range(0.05, 0.95), _ => radius * (1.0 - (10.0f64).powf(r.range(-9.0, -2.0))) };
        let n = unit(normal);
        let phi_zero = match r.below(5) {
            0 => perp(n),
            1 => scl(add(perp(n), scl(n, r.range(-3.0, 3.0))), dlen(r).max(1e-2).min(1e2)),
            2 => add(scl(n, 1.0), scl(perp(n), (10.0f64).powf(r.range(-4.0, -1.0)))), // close to the normal
            _ => rvec(r),
        };
        let phi_max = match r.below(8) { 0 | 1 | 2 => 360.0, 3 => *r.pick(&[90.0, 180.0, 270.0, 45.0, 400.0, -10.0, 0.0]), _ => r.range(1.0, 359.0) };
        let mut rec: Vec<Float> = [fl3(centre).to_vec(), fl3(normal).to_vec(), vec![radius as Float, inner as Float], fl3(phi_zero).to_vec(), vec![phi_max as Float]].concat();
        if !legal {
            // illegal arguments: every panic site of the constructor
            match r.below(5) {
                0 => { rec[7] = rec[6] * (r.range(1.0, 2.0) as Float); }
                1 => { rec[6] = -rec[6]; rec[7] = rec[6] * 2.0; }
                2 => { rec[7] = -(r.f01() as Float); }
                3 => { let s = r.range(0.5, 2.0) * if r.chance(0.5) { -1.0 } else { 1.0 }; let pz = scl(n, s); for k in 0..3 { rec[8 + k] = pz[k] as Float; } }
                _ => { rec[7] = rec[6]; }
            }
        }
        let chain: Vec<Elem> = if r.chance(0.45) { vec![] } else if r.chance(0.4) { let c = rand_chain(r); c.into_iter().take(1).collect() } else { rand_chain(r) };
        if !chain.is_empty() {
            let mut t = geometry3d::Transform::new();
            for e in chain.iter() { t *= elem_tr(e); }
            rec.extend(mats(&t));
        }
        (rec, chain)
    }

    fn disk(&mut self, boundary: bool, pair: bool) {
        if !pair && self.r.chance(0.08) {
            let legal = self.r.chance(0.5);
            let (rec, _) = self.disk_recipe(legal);
            self.push(10, &rec[0..12], &[], if legal { "ctor" } else { "ctor:illegal" }, "");
            if self.r.chance(0.5) {
                let z = if self.r.chance(0.1) { 0.0 } else { 1.0 };
                let rr = vec![rec[0], rec[1], rec[2], rec[3] * z, rec[4] * z, rec[5] * z, rec[6] * if self.r.chance(0.1) { -1.0 } else { 1.0 }];
                self.push(11, &rr, &[], "ctor", "");
            }
            return;
        }
        let (rec, chain) = self.disk_recipe(true);
        let d = match build_disk(&rec) { Ok(d) => d, Err(_) => return };
        let f = disk_fields(&d);
        let (c, n, rad, inn, pz, pmax) = (a3(&f[0..3]), a3(&f[3..6]), f[6] as f64, f[7] as f64, a3(&f[8..11]), f[11] as f64);
        if !(len(n) > 0.5 && len(pz) > 0.5) { return; }
        let e2 = cross(n, pz);
        // polar target in the local frame
        let cat = if pair { 0 } else if boundary { 3 + self.r.below(6) as usize } else { *self.r.pick(&[0, 0, 0, 0, 1, 1, 2, 2]) };
        let full = pmax >= 6.28;
        let mut cname = "inside";
        let (mut rho, mut phi) = (rad * self.r.range(0.02, 0.98).max(0.0), self.r.range(0.01, 0.99) * pmax);
        if inn > 0.0 { rho = inn + (rad - inn) * self.r.range(0.02, 0.98); }
        match cat {
            1 => { if inn > 0.0 && self.r.chance(0.5) { rho = inn * self.r.range(0.0, 0.98); cname = "outside:hole"; } else { rho = rad * self.r.range(1.02, 3.0); cname = "outside:radius"; } }
            2 => { if full { rho = rad * self.r.range(1.02, 3.0); cname = "outside:radius"; } else { phi = pmax + (6.283185307179586 - pmax) * self.r.range(0.02, 0.98); cname = "outside:sector"; } }
            3 => { rho = rad * (1.0 + small_delta(self.r)); cname = "boundary:rim"; }
            4 => { if inn > 0.0 { rho = inn * (1.0 + small_delta(self.r)); cname = "boundary:inner-rim"; } else { rho = rad * small_delta(self.r).abs(); cname = "boundary:centre"; } }
            5 => { if !full { phi = pmax + small_delta(self.r); } else { phi = small_delta(self.r); } cname = "boundary:phi_max"; }
            6 => { phi = small_delta(self.r); cname = "boundary:phi=0"; }
            7 => { rho = 0.0; cname = "boundary:centre"; }
            _ => {}
        }
        let ql = add(c, add(scl(pz, rho * phi.cos()), scl(e2, rho * phi.sin())));
        let mode = if pair { 0 } else if boundary && cat == 8 { *self.r.pick(&[3, 4, 2]) } else { *self.r.pick(&[0, 0, 0, 0, 0, 0, 1, 2]) };
        let (ol, dl, _) = aim(self.r, ql, n, mode, 0.0, FEPS);
        let cn = match mode { 1 => "behind".to_string(), 2 => "parallel".to_string(), 3 => "boundary:t~0".to_string(), 4 => "boundary:den~eps".to_string(), _ => cname.to_string() };
        // world ray: image of the local ray under the disk's transform
        let has_tr = rec.len() > 12;
        let to_world = |o: A3, dd: A3| -> Vec<Float> {
            if has_tr {
                let t = d.transform().as_ref().unwrap();
                let ow = t.transform_pt(Point3D::new(o[0] as Float, o[1] as Float, o[2] as Float));
                let dw = t.transform_vec(Vector3D::new(dd[0] as Float, dd[1] as Float, dd[2] as Float));
                vec![ow.x, ow.y, ow.z, dw.x, dw.y, dw.z]
            } else { [fl3(o), fl3(dd)].concat() }
        };
        let rigid = chain.iter().all(|e| !matches!(e, Elem::Sc(..)));
        let chain_js: Vec<String> = chain.iter().map(|e| { let (k, a) = elem_code(e); format!("[{},{}]", k, jfs(&a)) }).collect();
        let extra = format!(",\"rigid\":{},\"chain\":[{}]", if rigid { 1 } else { 0 }, chain_js.join(","));
        if pair {
            let (o2, d2) = aim_other_side(self.r, ql, n, dl);
            let mut rays = to_world(ol, dl); rays.extend(to_world(o2, d2));
            self.push(16, &rec, &rays, "pair:inside", &extra);
            return;
        }
        let op = if has_tr { *self.r.pick(&[16, 16, 17]) } else { *self.r.pick(&[12, 12, 14, 15, 16, 16, 17, 17]) };
        let rays = to_world(ol, dl);
        self.push(op, &rec, &rays, &cn, &extra);
        if self.r.chance(0.05) { self.push(18, &rec, &[], "area", &extra); }
        if self.r.chance(0.05) {
            // intersection_info on its own: any point near the plane, any phi
            let mut rr = [fl3(ol), fl3(dl)].concat(); rr.extend(fl3(ql)); rr.push(phi as Float);
            self.push(13, &rec[0..12], &rr, "info", "");
        }
    }

    fn distant(&mut self, boundary: bool) {
        let dir = scl(rdir(self.r), dlen(self.r).max(1e-3).min(1e3));
        let angle = match self.r.below(10) {
            0 => 0.00925, // the sun
            1 => std::f64::consts::FRAC_PI_2,
            2 => std::f64::consts::PI,
            3 => (10.0f64).powf(self.r.range(-6.0, -2.0)),
            4 => *self.r.pick(&[0.0, 3.5, 6.0, -0.5]), // not legal: zero / more than a hemisphere / negative
            _ => self.r.range(0.01, 3.1),
        };
        let rec: Vec<Float> = vec![dir[0] as Float, dir[1] as Float, dir[2] as Float, angle as Float];
        if self.r.chance(0.1) { self.push(20, &rec, &[], "ctor", ""); }
        if self.x.chance(0.08) { self.push(25, &rec, &[], "area", ""); }
        let s = build_ds(&rec);
        let sd = [s.direction.x as f64, s.direction.y as f64, s.direction.z as f64];
        let half = angle / 2.0;
        let cat = if boundary { 2 } else { *self.r.pick(&[0, 0, 1, 1, 3]) };
        let (theta, cname) = match cat {
            0 => (half * self.r.range(0.0, 0.98), "inside"),
            1 => (half + (3.14159 - half) * self.r.range(0.02, 1.0), "outside"),
            2 => (half + small_delta(self.r) * if self.r.chance(0.5) { 1.0 } else { half }, "boundary:cone-edge"),
            _ => (3.141592653589793, "outside:opposite"),
        };
        let t1 = perp(sd);
        let t2 = cross(sd, t1);
        let a = self.r.range(0.0, 6.283);
        let side = add(scl(t1, a.cos()), scl(t2, a.sin()));
        let l = dlen(self.r);
        let d = scl(add(scl(sd, theta.cos()), scl(side, theta.sin())), l);
        let o = if self.r.chance(0.2) { [0.0; 3] } else { rvec(self.r) };
        let d = if self.r.chance(0.03) { scl(sd, l) } else { d }; // exactly along the source direction
        let rays: Vec<Float> = [fl3(o), fl3(d)].concat();
        let op = *self.r.pick(&[21, 22, 23, 23, 24]);
        self.push(op, &rec, &rays, cname, "");
    }
}

/// corpus: minimised inputs that exposed defects (run first)
fn corpus(g: &mut Gen) {
    // F3: the unit right triangle and the ray through (0.9, 0.9)
    let tri: Vec<Float> = vec![0.0, 0.0, 0.0, 1.0, 0.0, 0.0, 0.0, 1.0, 0.0];
    let ray: Vec<Float> = vec![0.9, 0.9, 1.0, 0.0, 0.0, -1.0];
    for op in [1, 3, 4] { g.push(op, &tri, &ray, "outside:beyond-hypotenuse", ""); }
    let ray: Vec<Float> = vec![0.25, 0.25, 1.0, 0.0, 0.0, -1.0];
    for op in [1, 3, 4] { g.push(op, &tri, &ray, "inside", ""); }
    // both sides of the unit triangle and of a unit disk
    let rays: Vec<Float> = vec![0.25, 0.25, 1.0, 0.0, 0.0, -1.0, 0.25, 0.25, -2.0, 0.0, 0.0, 3.0];
    g.push(3, &tri, &rays, "pair:inside", "");
    let disk: Vec<Float> = vec![0.0, 0.0, 0.0, 0.0, 0.0, 1.0, 1.0, 0.0, 1.0, 0.0, 0.0, 360.0];
    let rays: Vec<Float> = vec![0.25, 0.25, 1.0, 0.0, 0.0, -1.0, 0.25, 0.25, -2.0, 0.0, 0.0, 3.0];
    g.push(16, &disk, &rays, "pair:inside", ",\"rigid\":1,\"chain\":[]");
    // the centre of a disk (tangents divide by the distance to the centre)
    let ray: Vec<Float> = vec![0.0, 0.0, 1.0, 0.0, 0.0, -1.0];
    g.push(16, &disk, &ray, "boundary:centre", ",\"rigid\":1,\"chain\":[]");
    // a ray from the origin straight at a distant source
    let ds: Vec<Float> = vec![0.0, 0.0, 1.0, 0.00925];
    let ray: Vec<Float> = vec![0.0, 0.0, 0.0, 0.0, 0.0, 1.0];
    g.push(23, &ds, &ray, "inside", "");
    // zero distance: the origin lies on the plane / on the disk (the code rejects t < 0 only)
    let ray: Vec<Float> = vec![0.25, 0.25, 0.0, 0.0, 0.0, -1.0];
    g.push(7, &[0.0, 0.0, 1.0, 0.0], &ray, "boundary:t~0", "");
    g.push(14, &disk, &ray, "boundary:t~0", ",\"rigid\":1,\"chain\":[]");
    g.push(1, &tri, &ray, "boundary:t~tiny", "");
    // a ray in the plane of a large triangle: the rounding noise of the determinant exceeds 100 eps
    let big: Vec<Float> = vec![7.259756696363112, 9.285155282231258, -6.304742363648302, -51.50539806866341, 1.09913750598594, 8.91795564912817,
                               4.804450714643085, 0.7075611227839573, -0.20603656470701281];
    let ray: Vec<Float> = vec![3.575616441486293, 18.03415417703283, -11.494036533696253, 0.16452238169609534, -0.8343947760337614, 0.5260396787777638];
    g.push(3, &big, &ray, "parallel", "");
}

pub fn run(seed: u64, n: usize, out: &str, emph: usize) {
    // emph: 2 = C02 (soundness: more outside / beyond-hypotenuse), 3 = C03 (decision boundaries), 13 = C13 (pairs, hit data)
    let mut r = Rng::new(seed ^ (0xF1A7 + emph as u64));
    let mut g = Gen { r: &mut r, x: Rng::new(seed ^ (0xF1A7E + emph as u64)), sink: Sink::new(out, "Flat", 250), emph };
    // the f32 build is evaluated by the same runner text instantiated on the binary32 number instance (Run/Flat.v, module Flatf32)
    #[cfg(feature = "float")]
    { g.sink.runner = "Flatf32".to_string(); }
    corpus(&mut g);
    let mut guard = 0usize;
    while g.sink.len() < n && guard < 50 * n + 1000 {
        guard += 1;
        let pb = match g.emph { 3 => 0.55, 13 => 0.15, _ => 0.3 };
        let pp = match g.emph { 13 => 0.45, 2 => 0.05, _ => 0.05 };
        let boundary = g.r.chance(pb);
        let pair = !boundary && g.r.chance(pp);
        match g.r.below(10) {
            0 | 1 | 2 | 3 => g.triangle(boundary, pair),
            4 => g.plane(boundary),
            5 | 6 | 7 | 8 => g.disk(boundary, pair),
            _ => g.distant(boundary),
        }
    }
    g.sink.flush();
}

/// replay: `flat <op> <n recipe> <recipe bits...> <ray bits...>`: re-runs one case on the crate and prints its JSON
pub fn replay(args: &[String]) {
    let op: usize = args[0].parse().unwrap();
    let nrec: usize = args[1].parse().unwrap();
    let v: Vec<Float> = args[2..].iter().map(|s| Float::from_bits(s.parse().unwrap())).collect();
    let (recipe, rays) = v.split_at(nrec);
    match exec(op, recipe, rays) {
        None => println!("{{\"part\":\"pflat\",{}\"op\":{},\"kind\":\"{}\",\"cat\":\"replay\",\"debug\":{},\"recipe\":{},\"prim\":[],\"rays\":{},\"out\":[],\"unbuildable\":1}}",
                         f32_json(), op, op_name(op), if DEBUG { 1 } else { 0 }, jfs(recipe), jfs(rays)),
        Some((prim, out)) => println!("{{\"part\":\"pflat\",{}\"op\":{},\"kind\":\"{}\",\"cat\":\"replay\",\"debug\":{},\"recipe\":{},\"prim\":{},\"rays\":{},\"out\":{},\"rigid\":0,\"chain\":[]}}",
                                      f32_json(), op, op_name(op), if DEBUG { 1 } else { 0 }, jfs(recipe), jfs(&prim), jfs(rays), jfs(&out)),
    }
}
