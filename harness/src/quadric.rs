//! Part `pquadric` of C02 / C03 / C13: full and clipped spheres, full and partial cylinders.
//!
//! Streams `C02quadric` (everything), `C03quadric` (Some/None and which crossing: origins inside /
//! behind, tangent band, clip edges, clipped shapes), `C13quadric` (hit data: pairs of rays reaching the
//! same surface point from both sides, poles).  One case = one call of the crate:
//!   op 0 constructor, 1 local basic intersection (point + phi), 2 intersect_local_ray (hit data),
//!   3 intersect (world), 4 simple_intersect (world), 5 bounds() and area() (model correspondence only),
//!   6 simple_intersect_local_ray (local ray + error boxes), 7 intersection_info(ray, phit, phi) called directly (phit travels in
//!   the `oe` slot, phi in `de.x`), 8 world_bounds() and, for spheres, centre() (model correspondence only).
//! The Coq side receives the *fields of the constructed object* (read through the `verif_fields` hooks and
//! `Transform::verif_elements`) so that everything after construction is compared bit for bit; the JSON side
//! receives the constructor arguments as well, for the exact oracles.
use crate::c06::{elem_code, elem_tr, mats, Elem};
use crate::util::*;
use geometry3d::intersection::{IntersectionInfo, SurfaceSide};
use geometry3d::{Cylinder3D, Point3D, Ray3D, Sphere3D, Transform, Vector3D};
use std::panic::AssertUnwindSafe;
use std::rc::Rc;

const PI: f64 = std::f64::consts::PI;

#[derive(Clone, Debug)]
pub struct Spec {
    /// 0 sphere, 1 cylinder
    pub shape: usize,
    /// sphere: 0 new(r,c) 1 new_partial(r,c,zmin,zmax,phi) 2 new_transformed(r,T) 3 new_partial_transformed(r,zmin,zmax,phi,T)
    /// cylinder: 0 new(p0,p1,r) 1 new_partial(p0,p1,r,phi) 2 new_transformed(r,zmin,zmax,phi,T)
    pub variant: usize,
    pub args: Vec<Float>,
    pub chain: Vec<Elem>,
}
#[derive(Clone)]
pub enum Obj { S(Sphere3D), C(Cylinder3D) }

fn p3(v: &[Float]) -> Point3D { Point3D::new(v[0], v[1], v[2]) }
fn v3(v: &[Float]) -> Vector3D { Vector3D::new(v[0], v[1], v[2]) }
fn pv(p: Point3D) -> Vec<Float> { vec![p.x, p.y, p.z] }
fn vv(p: Vector3D) -> Vec<Float> { vec![p.x, p.y, p.z] }

fn chain_tr(chain: &[Elem]) -> Option<Rc<Transform>> {
    if chain.is_empty() { return None; }
    let mut t = Transform::new();
    for e in chain { t *= elem_tr(e); }
    Some(Rc::new(t))
}
pub fn build(s: &Spec) -> Result<Obj, String> {
    let a = s.args.clone();
    let chain = s.chain.clone();
    let (shape, variant) = (s.shape, s.variant);
    catch(AssertUnwindSafe(move || match (shape, variant) {
        (0, 0) => Obj::S(Sphere3D::new(a[0], p3(&a[1..]))),
        (0, 1) => Obj::S(Sphere3D::new_partial(a[0], p3(&a[1..]), a[4], a[5], a[6])),
        (0, 2) => Obj::S(Sphere3D::new_transformed(a[0], chain_tr(&chain))),
        (0, _) => Obj::S(Sphere3D::new_partial_transformed(a[0], a[1], a[2], a[3], chain_tr(&chain))),
        (_, 0) => Obj::C(Cylinder3D::new(p3(&a[0..]), p3(&a[3..]), a[6])),
        (_, 1) => Obj::C(Cylinder3D::new_partial(p3(&a[0..]), p3(&a[3..]), a[6], a[7])),
        (_, _) => Obj::C(Cylinder3D::new_transformed(a[0], a[1], a[2], a[3], chain_tr(&chain))),
    }))
}
impl Obj {
    fn transform(&self) -> Option<Rc<Transform>> {
        match self { Obj::S(s) => s.transform().clone(), Obj::C(c) => c.transform().clone() }
    }
    /// sphere: [r zmin zmax phi_max delta_theta theta_min]; cylinder: [r zmin zmax phi_max]
    fn fields(&self) -> Vec<Float> {
        match self {
            Obj::S(s) => { let mut v = vec![s.radius]; v.extend_from_slice(&s.verif_fields()); v }
            Obj::C(c) => c.verif_fields().to_vec(),
        }
    }
    /// fields ++ [hasT] ++ matrices
    fn params(&self) -> Vec<Float> {
        let mut v = self.fields();
        match self.transform() {
            Some(t) => { v.push(1.0); v.extend(mats(&t)); }
            None => v.push(0.0),
        }
        v
    }
}
fn side_code(s: SurfaceSide) -> Float {
    match s { SurfaceSide::Front => 0.0, SurfaceSide::Back => 1.0, SurfaceSide::NonApplicable => 2.0 }
}
fn info_list(i: &IntersectionInfo) -> Vec<Float> {
    let mut o = pv(i.p);
    o.extend(vv(i.normal));
    o.push(side_code(i.side));
    o.extend(vv(i.dpdu));
    o.extend(vv(i.dpdv));
    o
}
/// run one operation; Ok(None) = no hit, Err = panic message
pub fn run_op(obj: &Obj, op: usize, ray: &Ray3D, oe: Point3D, de: Point3D) -> Result<Option<Vec<Float>>, String> {
    catch(AssertUnwindSafe(|| match (obj, op) {
        (Obj::S(s), 1) => s.verif_approx_basic_intersection(ray, oe, de).map(|(p, phi)| { let mut o = pv(p); o.push(phi); o }),
        (Obj::C(c), 1) => c.basic_intersection(ray, oe, de).map(|(p, phi)| { let mut o = pv(p); o.push(phi); o }),
        (Obj::S(s), 2) => s.intersect_local_ray(ray, oe, de).map(|i| info_list(&i)),
        (Obj::C(c), 2) => c.intersect_local_ray(ray, oe, de).map(|i| info_list(&i)),
        (Obj::S(s), 3) => s.intersect(ray).map(|i| info_list(&i)),
        (Obj::C(c), 3) => c.intersect(ray).map(|i| info_list(&i)),
        // op 5: local bounds and area (no ray involved)
        (Obj::S(s), 5) => { let b = s.bounds(); let mut o = pv(b.min); o.extend(pv(b.max)); o.push(s.area()); Some(o) }
        (Obj::C(c), 5) => { let b = c.bounds(); let mut o = pv(b.min); o.extend(pv(b.max)); o.push(c.area()); Some(o) }
        (Obj::S(s), 6) => s.simple_intersect_local_ray(ray, oe, de).map(pv),
        (Obj::C(c), 6) => c.simple_intersect_local_ray(ray, oe, de).map(pv),
        // op 7: intersection_info on its own: phit = oe, phi = de.x
        (Obj::S(s), 7) => s.intersection_info(ray, oe, de.x).map(|i| info_list(&i)),
        (Obj::C(c), 7) => c.intersection_info(ray, oe, de.x).map(|i| info_list(&i)),
        // op 8: world bounds (and the centre of a sphere)
        (Obj::S(s), 8) => { let b = s.world_bounds(); let mut o = pv(b.min); o.extend(pv(b.max)); o.extend(pv(s.centre())); Some(o) }
        (Obj::C(c), 8) => { let b = c.world_bounds(); let mut o = pv(b.min); o.extend(pv(b.max)); Some(o) }
        (Obj::S(s), _) => s.simple_intersect(ray).map(pv),
        (Obj::C(c), _) => c.simple_intersect(ray).map(pv),
    }))
}

// ---------------------------------------------------------------- generators

fn rand_radius(r: &mut Rng) -> f64 {
    match r.below(5) {
        0 => *r.pick(&[1.0, 0.5, 2.0, 0.01, 100.0, 10.0]),
        _ => (10.0f64).powf(r.range(-2.0, 2.0)),
    }
}
fn rand_phi(r: &mut Rng, partial: bool) -> f64 {
    if !partial { return 360.0; }
    match r.below(4) {
        0 => *r.pick(&[180.0, 90.0, 270.0, 45.0, 360.0, 1.0, 359.0]),
        _ => r.range(1e-3, 360.0),
    }
}
fn rand_unit(r: &mut Rng) -> [f64; 3] {
    loop {
        let v = [r.range(-1.0, 1.0), r.range(-1.0, 1.0), r.range(-1.0, 1.0)];
        let l = (v[0] * v[0] + v[1] * v[1] + v[2] * v[2]).sqrt();
        if l > 0.05 && l <= 1.0 { return [v[0] / l, v[1] / l, v[2] / l]; }
    }
}
fn rand_chain_q(r: &mut Rng, scale: f64) -> Vec<Elem> {
    let ang = |r: &mut Rng| -> Float {
        match r.below(3) {
            0 => *r.pick(&[0.0, 90.0, -90.0, 180.0, 270.0, 45.0, 30.0, 360.0, -180.0, -270.0, -360.0, 450.0, -450.0, 135.0]) as Float,
            _ => r.range(-360.0, 360.0) as Float,
        }
    };
    let tr = |r: &mut Rng| -> Float {
        let m = match r.below(4) { 0 => 1e3, 1 => 1.0, _ => 10.0 * scale };
        r.range(-m, m) as Float
    };
    let sc = |r: &mut Rng| -> Float {
        let m = (10.0f64).powf(r.range(-1.0, 1.0));
        (if r.chance(0.25) { -m } else { m }) as Float
    };
    let elem = |r: &mut Rng, k: u64| -> Elem {
        match k {
            0 => Elem::Tr(tr(r), tr(r), tr(r)),
            1 => { if r.chance(0.4) { let s = sc(r); Elem::Sc(s, s, s) } else { Elem::Sc(sc(r), sc(r), sc(r)) } }
            2 => Elem::Rx(ang(r)),
            3 => Elem::Ry(ang(r)),
            _ => Elem::Rz(ang(r)),
        }
    };
    match r.below(8) {
        0 => vec![],
        1 => vec![elem(r, 0)],
        2 => { let k = 2 + r.below(3); vec![elem(r, k)] }
        3 => vec![elem(r, 1)],
        4 => { let k = 2 + r.below(3); vec![elem(r, 0), elem(r, k)] }          // rigid
        5 => { let k = 2 + r.below(3); let k2 = 2 + r.below(3); vec![elem(r, 0), elem(r, k), elem(r, k2)] } // rigid
        _ => { let n = 2 + r.below(4); (0..n).map(|_| { let k = r.below(5); elem(r, k) }).collect() }
    }
}
/// a few constructor calls at and beyond the legal limits (the constructors panic on zmin > zmax, on phi_max
/// outside [-EPSILON, 360 + EPSILON], and -- through f64::clamp -- on a negative or NaN sphere radius)
fn rand_spec(r: &mut Rng, want_shape: Option<usize>, more_partial: bool) -> Spec {
    let mut s = rand_spec_legal(r, want_shape, more_partial);
    if !r.chance(0.04) { return s; }
    let n = s.args.len();
    // index of phi / (zmin, zmax) / radius in the argument list of each constructor
    let (phi_i, z_i, r_i): (Option<usize>, Option<usize>, usize) = match (s.shape, s.variant) {
        (0, 1) => (Some(6), Some(4), 0), (0, 3) => (Some(3), Some(1), 0), (0, _) => (None, None, 0),
        (_, 1) => (Some(7), None, 6), (_, 2) => (Some(3), Some(1), 0), (_, _) => (None, None, 6),
    };
    match r.below(4) {
        0 => if let Some(i) = phi_i {
            s.args[i] = *r.pick(&[400.0, -1.0, 360.00000000000006, -2.2e-16, -2.3e-16, 0.0, 360.0, Float::NAN, 1e-9]);
        },
        1 => if let Some(i) = z_i { if i + 1 < n { s.args.swap(i, i + 1); } },
        2 => { s.args[r_i] = -s.args[r_i]; }
        _ => { s.args[r_i] = *r.pick(&[0.0, Float::NAN, Float::INFINITY]); }
    }
    s
}
fn rand_spec_legal(r: &mut Rng, want_shape: Option<usize>, more_partial: bool) -> Spec {
    let shape = want_shape.unwrap_or(r.below(2) as usize);
    let rad = rand_radius(r);
    let partial = r.chance(if more_partial { 0.8 } else { 0.5 });
    if shape == 0 {
        let centre = |r: &mut Rng| -> Vec<Float> {
            match r.below(4) {
                0 => vec![0.0, 0.0, 0.0],
                1 => vec![r.range(-1e3, 1e3) as Float, r.range(-1e3, 1e3) as Float, r.range(-1e3, 1e3) as Float],
                _ => vec![r.range(-10.0, 10.0) as Float, r.range(-10.0, 10.0) as Float, r.range(-10.0, 10.0) as Float],
            }
        };
        let zs = |r: &mut Rng| -> (f64, f64) {
            // z-clips as fractions of the radius, some beyond +-r (clamped by the constructor), some equal to +-r
            let f = |r: &mut Rng| match r.below(6) { 0 => -1.0, 1 => 1.0, 2 => r.range(-1.5, 1.5), _ => r.range(-1.0, 1.0) };
            let (a, b) = (f(r), f(r));
            // zmin == zmax is a surface of zero area (delta_theta = 0: no normal); keep a proper band
            let (a, b) = if a == b { (a.min(0.5) - 0.4, a.max(-0.5) + 0.4) } else { (a, b) };
            if a <= b { (a * rad, b * rad) } else { (b * rad, a * rad) }
        };
        if !partial {
            if r.chance(0.5) {
                let mut a = vec![rad as Float]; a.extend(centre(r));
                Spec { shape, variant: 0, args: a, chain: vec![] }
            } else {
                Spec { shape, variant: 2, args: vec![rad as Float], chain: rand_chain_q(r, rad) }
            }
        } else {
            let (z0, z1) = if r.chance(0.25) { (-2.0 * rad, 2.0 * rad) } else { zs(r) };
            let pp = r.chance(0.7); let phi = rand_phi(r, pp);
            if r.chance(0.4) {
                let mut a = vec![rad as Float]; a.extend(centre(r)); a.extend([z0 as Float, z1 as Float, phi as Float]);
                Spec { shape, variant: 1, args: a, chain: vec![] }
            } else {
                Spec { shape, variant: 3, args: vec![rad as Float, z0 as Float, z1 as Float, phi as Float], chain: rand_chain_q(r, rad) }
            }
        }
    } else {
        let phi = rand_phi(r, partial);
        if r.chance(0.55) {
            // end points in any direction, including axis-aligned and antiparallel to z
            let len = rad * (10.0f64).powf(r.range(-1.0, 1.5));
            let dir: [f64; 3] = match r.below(4) {
                0 => *r.pick(&[[1.0, 0.0, 0.0], [-1.0, 0.0, 0.0], [0.0, 1.0, 0.0], [0.0, -1.0, 0.0], [0.0, 0.0, 1.0], [0.0, 0.0, -1.0]]),
                1 => { let u = rand_unit(r); *r.pick(&[[u[0], u[1], 0.0], [u[0], 0.0, u[2]], [0.0, u[1], u[2]]]) }
                _ => rand_unit(r),
            };
            let p0: [f64; 3] = match r.below(3) { 0 => [0.0, 0.0, 0.0], _ => [r.range(-10.0, 10.0), r.range(-10.0, 10.0), r.range(-10.0, 10.0)] };
            let p1 = [p0[0] + dir[0] * len, p0[1] + dir[1] * len, p0[2] + dir[2] * len];
            let mut a: Vec<Float> = p0.iter().chain(p1.iter()).map(|x| *x as Float).collect();
            a.push(rad as Float);
            if partial { a.push(phi as Float); Spec { shape, variant: 1, args: a, chain: vec![] } }
            else { Spec { shape, variant: 0, args: a, chain: vec![] } }
        } else {
            let z0 = match r.below(3) { 0 => 0.0, _ => r.range(-3.0, 3.0) * rad };
            let z1 = z0 + rad * (10.0f64).powf(r.range(-1.0, 1.5));
            Spec { shape, variant: 2, args: vec![rad as Float, z0 as Float, z1 as Float, phi as Float], chain: rand_chain_q(r, rad) }
        }
    }
}

/// local geometry of a built object: (radius, zlo, zhi, phi_max[rad])
fn geom(obj: &Obj) -> (f64, f64, f64, f64) {
    let f = obj.fields();
    (f[0] as f64, f[1] as f64, f[2] as f64, f[3] as f64)
}
fn surf_point(shape: usize, rad: f64, z: f64, phi: f64) -> [f64; 3] {
    if shape == 0 {
        let zz = z.clamp(-rad, rad);
        let rho = (rad * rad - zz * zz).max(0.0).sqrt();
        [rho * phi.cos(), rho * phi.sin(), zz]
    } else {
        [rad * phi.cos(), rad * phi.sin(), z]
    }
}
fn outward(shape: usize, p: &[f64; 3]) -> [f64; 3] {
    let v = if shape == 0 { [p[0], p[1], p[2]] } else { [p[0], p[1], 0.0] };
    let l = (v[0] * v[0] + v[1] * v[1] + v[2] * v[2]).sqrt();
    if l > 0.0 { [v[0] / l, v[1] / l, v[2] / l] } else { [0.0, 0.0, 1.0] }
}
fn rand_target(r: &mut Rng, shape: usize, g: (f64, f64, f64, f64), inside_clips: bool) -> [f64; 3] {
    let (rad, zlo, zhi, phimax) = g;
    let (lo, hi) = if shape == 0 { (zlo.max(-rad), zhi.min(rad)) } else { (zlo, zhi) };
    let span = (hi - lo).max(1e-9 * rad);
    let z = if inside_clips { lo + span * r.range(0.02, 0.98) }
            else if shape == 0 { r.range(-rad, rad) } else { lo + span * r.range(-0.4, 1.4) };
    let phi = if inside_clips { phimax.min(2.0 * PI) * r.range(0.02, 0.98) } else { r.range(0.0, 2.0 * PI) };
    surf_point(shape, rad, z, phi)
}
fn add(a: &[f64; 3], b: &[f64; 3], s: f64) -> [f64; 3] { [a[0] + b[0] * s, a[1] + b[1] * s, a[2] + b[2] * s] }
fn dotv(a: &[f64; 3], b: &[f64; 3]) -> f64 { a[0] * b[0] + a[1] * b[1] + a[2] * b[2] }
fn crossv(a: &[f64; 3], b: &[f64; 3]) -> [f64; 3] { [a[1] * b[2] - a[2] * b[1], a[2] * b[0] - a[0] * b[2], a[0] * b[1] - a[1] * b[0]] }
fn normv(a: &[f64; 3]) -> [f64; 3] { let l = dotv(a, a).sqrt(); if l > 0.0 { [a[0] / l, a[1] / l, a[2] / l] } else { *a } }
fn rescale_dir(r: &mut Rng, d: [f64; 3]) -> [f64; 3] {
    match r.below(10) {
        0..=2 => normv(&d),
        3..=5 => { let s = (10.0f64).powf(r.range(-3.0, 3.0)); [d[0] * s, d[1] * s, d[2] * s] }
        _ => d,
    }
}
pub const N_RK: u64 = 9;
/// one local ray of kind `rk`: (origin, direction)
fn rand_local_ray(r: &mut Rng, shape: usize, g: (f64, f64, f64, f64), rk: u64) -> ([f64; 3], [f64; 3]) {
    let (rad, zlo, zhi, phimax) = g;
    let size = if shape == 0 { rad } else { rad.max(zhi - zlo).max(zlo.abs()).max(zhi.abs()) };
    let far_origin = |r: &mut Rng| -> [f64; 3] {
        let u = rand_unit(r);
        let k = match r.below(4) { 0 => r.range(1.05, 1.5), 1 => r.range(10.0, 1000.0), _ => r.range(1.5, 10.0) };
        let c = if shape == 0 { [0.0, 0.0, 0.0] } else { [0.0, 0.0, 0.5 * (zlo + zhi)] };
        add(&c, &u, k * size * 1.8)
    };
    let inside_origin = |r: &mut Rng| -> [f64; 3] {
        let u = rand_unit(r);
        let k = match r.below(3) { 0 => r.range(0.9, 0.999), _ => r.range(0.0, 0.9) };
        if shape == 0 { [u[0] * k * rad, u[1] * k * rad, u[2] * k * rad] }
        else {
            let l = (u[0] * u[0] + u[1] * u[1]).sqrt().max(1e-9);
            [u[0] / l * k * rad, u[1] / l * k * rad, zlo + (zhi - zlo) * r.range(-0.2, 1.2)]
        }
    };
    if rk == 8 {
        // chord through two chosen surface points: every combination of {inside, outside} the z-clips and the
        // angular clip for the first and for the second crossing (the second crossing is only reported when the
        // first is clipped away, and must then pass ALL the clips itself)
        let pick = |r: &mut Rng| -> [f64; 3] {
            let (lo, hi) = if shape == 0 { (zlo.max(-rad), zhi.min(rad)) } else { (zlo, zhi) };
            let span = (hi - lo).max(1e-9 * rad);
            let z_in = r.chance(0.5);
            let z = if z_in { lo + span * r.range(0.05, 0.95) }
                    else if shape == 0 { let c = if r.chance(0.5) { r.range(hi.min(rad * 0.999), rad * 0.999) } else { r.range(-rad * 0.999, lo.max(-rad * 0.999)) }; c }
                    else { if r.chance(0.5) { hi + span * r.range(0.05, 0.6) } else { lo - span * r.range(0.05, 0.6) } };
            let pm = phimax.min(2.0 * PI);
            let phi = if r.chance(0.5) || pm >= 2.0 * PI - 1e-9 { pm * r.range(0.05, 0.95) } else { pm + (2.0 * PI - pm) * r.range(0.05, 0.95) };
            surf_point(shape, rad, z, phi)
        };
        let a = pick(r); let b = pick(r);
        let d = add(&b, &a, -1.0);
        if dotv(&d, &d) > 1e-6 * rad * rad {
            let k = r.range(0.2, 3.0);
            return (add(&a, &d, -k), rescale_dir(r, d));
        }
    }
    match rk {
        0 => { // from outside, aimed at a point of the (unclipped) surface
            let ic = r.chance(0.5); let t = rand_target(r, shape, g, ic);
            let o = far_origin(r);
            (o, rescale_dir(r, add(&t, &o, -1.0)))
        }
        1 => { // origin inside
            let o = inside_origin(r);
            let d = if r.chance(0.5) { rand_unit(r) } else { let ic = r.chance(0.7); let t = rand_target(r, shape, g, ic); add(&t, &o, -1.0) };
            (o, rescale_dir(r, d))
        }
        2 => { // surface entirely behind the origin
            let t = rand_target(r, shape, g, true);
            let o = far_origin(r);
            let d = add(&o, &t, -1.0);
            (o, rescale_dir(r, d))
        }
        3 => { // tangent band: closest approach = rad * (1 +- 10^-k)
            let k = r.range(2.0, 13.0);
            let rho = rad * (1.0 + if r.chance(0.5) { 1.0 } else { -1.0 } * (10.0f64).powf(-k));
            let d = if shape == 0 { rand_unit(r) } else { let u = rand_unit(r); if r.chance(0.3) { normv(&[u[0], u[1], 0.0]) } else { u } };
            let w = if shape == 0 { normv(&crossv(&d, &rand_unit(r))) } else { normv(&[-d[1], d[0], 0.0]) };
            let base = [w[0] * rho, w[1] * rho, if shape == 0 { w[2] * rho } else { zlo + (zhi - zlo) * r.range(0.1, 0.9) }];
            let s = r.range(1.5, 6.0) * size;
            (add(&base, &d, -s), rescale_dir(r, d))
        }
        4 => { // poles / axis
            let eps = |r: &mut Rng| -> f64 { match r.below(3) { 0 => 0.0, _ => (if r.chance(0.5) { 1.0 } else { -1.0 }) * rad * (10.0f64).powf(-r.range(1.0, 12.0)) } };
            let (ex, ey) = (eps(r), eps(r));
            let up = r.chance(0.5);
            if shape == 0 || r.chance(0.5) {
                let zo = if r.chance(0.8) { (if up { 1.0 } else { -1.0 }) * size * r.range(1.5, 5.0) + 0.5 * (zlo + zhi) } else { 0.3 * rad };
                let d = [0.0, 0.0, if (zo > 0.5 * (zlo + zhi)) ^ r.chance(0.1) { -1.0 } else { 1.0 }];
                ([ex, ey, zo], rescale_dir(r, d))
            } else {
                // cylinder: parallel to the axis at various radial distances, or almost parallel
                let rho = rad * *r.pick(&[0.0, 0.5, 1.0, 1.5]);
                let d = [ex / rad * 1e-3, ey / rad * 1e-3, if up { 1.0 } else { -1.0 }];
                ([rho, ey, zlo - 0.5 * (zhi - zlo)], d)
            }
        }
        5 => { // clip edges: aim at z = clip * (1 +- 10^-k) or phi = phi_max +- 10^-k
            let k = r.range(2.0, 13.0);
            let e = (if r.chance(0.5) { 1.0 } else { -1.0 }) * (10.0f64).powf(-k);
            let (lo, hi) = if shape == 0 { (zlo.max(-rad), zhi.min(rad)) } else { (zlo, zhi) };
            let t = match r.below(3) {
                0 => surf_point(shape, rad, lo + e * (hi - lo).max(rad * 1e-3), r.range(0.0, phimax.min(2.0 * PI))),
                1 => surf_point(shape, rad, hi + e * (hi - lo).max(rad * 1e-3), r.range(0.0, phimax.min(2.0 * PI))),
                _ => surf_point(shape, rad, lo + (hi - lo) * r.range(0.05, 0.95), if r.chance(0.7) { phimax + e } else { e.abs() * if r.chance(0.5) { 1.0 } else { -1.0 } }),
            };
            let o = if r.chance(0.7) { far_origin(r) } else { inside_origin(r) };
            (o, rescale_dir(r, add(&t, &o, -1.0)))
        }
        6 => { // anything
            let o = if r.chance(0.5) { far_origin(r) } else { inside_origin(r) };
            let u = rand_unit(r); (o, rescale_dir(r, u))
        }
        _ => { // axis-parallel directions through a point near the centre
            let ax = r.below(3) as usize;
            let sgn = if r.chance(0.5) { 1.0 } else { -1.0 };
            let mut d = [0.0, 0.0, 0.0]; d[ax] = -sgn;
            let mut o = [r.range(-1.2, 1.2) * rad, r.range(-1.2, 1.2) * rad, if shape == 0 { r.range(-1.2, 1.2) * rad } else { zlo + (zhi - zlo) * r.range(-0.2, 1.2) }];
            if r.chance(0.3) { o = [0.0, 0.0, if shape == 0 { 0.0 } else { 0.5 * (zlo + zhi) }]; }
            o[ax] = sgn * size * r.range(1.5, 6.0) * if ax == 2 && shape == 1 { 2.0 } else { 1.0 };
            (o, rescale_dir(r, d))
        }
    }
}
/// two rays reaching the same surface point (inside the clips) from the two sides
fn rand_pair(r: &mut Rng, shape: usize, g: (f64, f64, f64, f64)) -> (([f64; 3], [f64; 3]), ([f64; 3], [f64; 3])) {
    let (rad, _, _, _) = g;
    let p = rand_target(r, shape, g, true);
    let n = outward(shape, &p);
    // direction going inwards at p, not grazing
    let d = loop {
        let u = rand_unit(r);
        let c = dotv(&u, &n);
        if c < -0.05 { break u; }
        if c > 0.05 { break [-u[0], -u[1], -u[2]]; }
    };
    // chord length through the body along d from p
    let chord = if shape == 0 { -2.0 * rad * dotv(&d, &n) } else {
        let dxy2 = d[0] * d[0] + d[1] * d[1];
        -2.0 * rad * dotv(&d, &n) / dxy2.max(1e-12)
    };
    let s_out = rad * r.range(0.2, 5.0);
    let s_in = chord * r.range(0.05, 0.9);
    let a = (add(&p, &d, -s_out), rescale_dir(r, d));
    let b = (add(&p, &d, s_in), rescale_dir(r, [-d[0], -d[1], -d[2]]));
    (a, b)
}

fn to_world(t: &Option<Rc<Transform>>, o: &[f64; 3], d: &[f64; 3]) -> Ray3D {
    let o = Point3D::new(o[0] as Float, o[1] as Float, o[2] as Float);
    let d = Vector3D::new(d[0] as Float, d[1] as Float, d[2] as Float);
    match t {
        Some(t) => Ray3D { origin: t.transform_pt(o), direction: t.transform_vec(d) },
        None => Ray3D { origin: o, direction: d },
    }
}
fn rand_err(r: &mut Rng, rad: f64) -> Point3D {
    if r.chance(0.5) { return Point3D::new(0.0, 0.0, 0.0); }
    let e = |r: &mut Rng| -> Float { if r.chance(0.2) { 0.0 } else { (rad * (10.0f64).powf(-r.range(6.0, 15.0))) as Float } };
    Point3D::new(e(r), e(r), e(r))
}

// ---------------------------------------------------------------- emitters

/// Coq list literal; the empty list carries its type (a shard may consist of a single case)
fn sfl(xs: &[Float]) -> String { if xs.is_empty() { "(@nil spec_float)".to_string() } else { sfs(xs) } }
fn chain_json(c: &[Elem]) -> String {
    let v: Vec<String> = c.iter().map(|e| { let (k, a) = elem_code(e); format!("[{},{}]", k, jfs(&a)) }).collect();
    format!("[{}]", v.join(","))
}
fn esc(s: &str) -> String { s.chars().map(|c| if c == '"' || c == '\\' || c.is_control() { ' ' } else { c }).take(160).collect() }
fn debug_build() -> bool { cfg!(debug_assertions) }

pub struct Outcome { pub res: &'static str, pub out: Vec<Float>, pub msg: String }
fn outcome(x: Result<Option<Vec<Float>>, String>) -> Outcome {
    match x {
        Ok(None) => Outcome { res: "none", out: vec![], msg: String::new() },
        Ok(Some(v)) => Outcome { res: "some", out: v, msg: String::new() },
        Err(m) => Outcome { res: "panic", out: vec![], msg: m },
    }
}
fn flag(res: &str) -> usize {
    (match res { "none" => 0, "some" => 1, _ => 2 }) + if debug_build() { 10 } else { 0 }
}
fn spec_json(s: &Spec) -> String {
    format!("{}\"shape\":{},\"variant\":{},\"args\":{},\"chain\":{}", if cfg!(feature = "float") { "\"f32\":true," } else { "" }, s.shape, s.variant, jfs(&s.args), chain_json(&s.chain))
}
fn rayv(ray: &Ray3D) -> Vec<Float> { let mut v = pv(ray.origin); v.extend(vv(ray.direction)); v }

fn emit_ctor(sink: &mut Sink, s: &Spec, b: &Result<Obj, String>) {
    let code = 100 * s.shape + 10 * s.variant;
    let (res, out, msg) = match b {
        Ok(o) => ("some", o.params(), String::new()),
        Err(m) => ("panic", vec![], m.clone()),
    };
    sink.push(
        format!("({}%N, {}, (@nil spec_float), {}%N, {})", code, sfl(&s.args), flag(res), sfl(&out)),
        format!("{{\"part\":\"pquadric\",{},\"op\":0,\"res\":\"{}\",\"msg\":\"{}\",\"out\":{},\"debug\":{}}}",
                spec_json(s), res, esc(&msg), jfs(&out), debug_build()),
    );
}
#[allow(clippy::too_many_arguments)]
fn emit_hit(sink: &mut Sink, s: &Spec, obj: &Obj, op: usize, rk: u64, ray: &Ray3D, oe: Point3D, de: Point3D, mate: Option<(&Ray3D, &Outcome)>) -> Outcome {
    let o = outcome(run_op(obj, op, ray, oe, de));
    let code = 100 * s.shape + 10 * s.variant + op;
    let mut inp = rayv(ray);
    if op <= 2 || op == 6 || op == 7 { inp.extend(pv(oe)); inp.extend(pv(de)); }
    let params = obj.params();
    let tr = match obj.transform() { Some(t) => jfs(&mats(&t)), None => "null".to_string() };
    let mate_s = match mate {
        Some((mr, mo)) => format!("{{\"ray\":{},\"res\":\"{}\",\"out\":{}}}", jfs(&rayv(mr)), mo.res, jfs(&mo.out)),
        None => "null".to_string(),
    };
    sink.push(
        format!("({}%N, {}, {}, {}%N, {})", code, sfl(&params), sfl(&inp), flag(o.res), sfl(&o.out)),
        format!("{{\"part\":\"pquadric\",{},\"op\":{},\"rk\":{},\"fields\":{},\"tr\":{},\"ray\":{},\"oe\":{},\"de\":{},\"res\":\"{}\",\"msg\":\"{}\",\"out\":{},\"debug\":{},\"mate\":{}}}",
                spec_json(s), op, rk, jfs(&obj.fields()), tr, jfs(&rayv(ray)), jfs(&pv(oe)), jfs(&pv(de)), o.res, esc(&o.msg), jfs(&o.out), debug_build(), mate_s),
    );
    o
}

fn corpus() -> Vec<(Spec, Vec<(usize, [f64; 6])>)> {
    vec![
        // F4: cylinder from (0,0,0) to (0,2,0), r = 0.5; ray from +x at height y = 1 (world)
        (Spec { shape: 1, variant: 0, args: vec![0.0, 0.0, 0.0, 0.0, 2.0, 0.0, 0.5], chain: vec![] },
         vec![(3, [3.0, 1.0, 0.0, -1.0, 0.0, 0.0]), (4, [3.0, 1.0, 0.0, -1.0, 0.0, 0.0]), (4, [0.0, 1.0, 3.0, 0.0, 0.0, -1.0])]),
        // F8: unit sphere, ray down the z axis
        (Spec { shape: 0, variant: 0, args: vec![1.0, 0.0, 0.0, 0.0], chain: vec![] },
         vec![(3, [0.0, 0.0, 3.0, 0.0, 0.0, -1.0]), (4, [0.0, 0.0, 3.0, 0.0, 0.0, -1.0]), (3, [0.0, 0.0, -3.0, 0.0, 0.0, 1.0]), (3, [3.0, 0.0, 0.0, -1.0, 0.0, 0.0])]),
        // cylinders along every axis direction, including antiparallel to z
        (Spec { shape: 1, variant: 0, args: vec![0.0, 0.0, 0.0, 0.0, 0.0, -2.0, 0.5], chain: vec![] },
         vec![(3, [3.0, 0.0, -1.0, -1.0, 0.0, 0.0]), (4, [3.0, 0.0, 1.0, -1.0, 0.0, 0.0])]),
        (Spec { shape: 1, variant: 0, args: vec![0.0, 0.0, 0.0, 2.0, 0.0, 0.0, 0.5], chain: vec![] },
         vec![(3, [1.0, 3.0, 0.0, 0.0, -1.0, 0.0]), (4, [1.0, 0.0, 3.0, 0.0, 0.0, -1.0])]),
        // cylinders along -X whose Y offset is a NEGATIVE zero (an end point obtained as p0 + (1,0,0) * -len): the azimuth of the
        // axis is atan2(-0.0, -len) = -180 degrees exactly (seeded change C02-m5: exact quarter turns through a sign-keeping `%`)
        (Spec { shape: 1, variant: 0, args: vec![1.0, 0.0, 0.5, -1.5, -0.0, 0.5, 0.75], chain: vec![] },
         vec![(3, [-0.2, 3.0, 0.5, 0.0, -1.0, 0.0]), (4, [-0.2, 3.0, 0.7, 0.0, -1.0, 0.0]), (4, [0.3, 0.2, 3.0, 0.0, 0.0, -1.0]), (3, [-1.0, -2.0, -1.0, 0.0, 1.0, 0.7]),
              (4, [3.0, 0.1, 0.6, -1.0, 0.0, 0.0])]),
        (Spec { shape: 1, variant: 1, args: vec![0.0, 0.0, 0.0, -2.0, -0.0, 0.0, 0.5, 200.0], chain: vec![] },
         vec![(3, [-1.0, 3.0, 0.1, 0.0, -1.0, 0.0]), (4, [-0.5, 0.1, 3.0, 0.0, 0.0, -1.0]), (4, [-1.5, -3.0, -0.2, 0.0, 1.0, 0.0])]),
        // half sphere (upper), ray from below: first crossing clipped away, second reported
        (Spec { shape: 0, variant: 1, args: vec![1.0, 0.0, 0.0, 0.0, 0.0, 1.0, 360.0], chain: vec![] },
         vec![(3, [0.1, 0.2, -3.0, 0.0, 0.0, 1.0]), (4, [0.1, 0.2, -3.0, 0.0, 0.0, 1.0]), (4, [0.1, 0.2, 3.0, 0.0, 0.0, -1.0])]),
    ]
}

pub fn run(stream: &str, seed: u64, n: usize, out: &str) {
    let salt = match stream { "C02quadric" => 0xC02, "C03quadric" => 0xC03, _ => 0xC13 };
    // Rng::new(s+1) is Rng::new(s) advanced by one draw: scramble the seed first so that consecutive seeds
    // give unrelated streams (still a pure function of the one VERIF_SEED)
    let mut r0 = Rng::new(seed ^ (salt << 8) ^ 0x51);
    let mut r = Rng(r0.next() ^ r0.next().rotate_left(17));
    let mut x = Rng::new(seed ^ (salt << 12) ^ 0x7A11);
    let mut sink = Sink::new(out, "Quadric", 200);
    // the f32 build is evaluated by the same runner text instantiated on the binary32 number instance (Run/Quadric.v, module Quadricf32)
    #[cfg(feature = "float")]
    { sink.runner = "Quadricf32".to_string(); }
    let zero = Point3D::new(0.0, 0.0, 0.0);
    for (s, rays) in corpus() {
        let b = build(&s);
        emit_ctor(&mut sink, &s, &b);
        if let Ok(obj) = &b {
            for (op, v) in rays {
                let ray = Ray3D { origin: Point3D::new(v[0] as Float, v[1] as Float, v[2] as Float), direction: Vector3D::new(v[3] as Float, v[4] as Float, v[5] as Float) };
                emit_hit(&mut sink, &s, obj, op, 99, &ray, zero, zero, None);
            }
        }
    }
    // aimed families, drawn from a third generator state (the random sequence below is unchanged, only cut at n):
    //  (a) spheres centred within 1e-13 .. 1e-5 of the origin: the centre is not "zero", the translation must be kept (C02-m4);
    //  (b) "seam" rays on untransformed FULL spheres / cylinders: the ray lies in the plane y = -+eps and meets the +x side, so the
    //      longitude of the hit is 2 pi - 1e-17 (rounds to exactly phi_max = 2 pi) or +1e-17: not clipped by phi (C03-m4)
    {
        let mut y = Rng::new(seed ^ (salt << 16) ^ 0xA1ED);
        let nextra = n / 25;
        let mut k = 0;
        while k < nextra && sink.len() < n {
            k += 1;
            let rad = rand_radius(&mut y);
            let fam = y.below(5);
            if fam == 4 {
                // (c) shallow rays in long pipes: within 1e-5 .. 3e-3 rad of the axis of a cylinder that is long enough for the ray to
                //     reach the wall inside [zmin, zmax] (or starting very close to the wall): a clear crossing, far from tangency,
                //     rims and zero distance (seeded change C03-m5: an "along the axis" bail-out built on is_parallel's 1e-5)
                let th = (10.0f64).powf(y.range(-5.0, -2.52));
                let len = rad / th * y.range(2.5, 6.0);
                let z0 = y.range(-1.0, 1.0) * rad;
                let chain = if y.chance(0.5) { vec![] } else { rand_chain_q(&mut y, rad) };
                let s = Spec { shape: 1, variant: 2, args: vec![rad as Float, z0 as Float, (z0 + len) as Float, 360.0], chain };
                let b = build(&s);
                emit_ctor(&mut sink, &s, &b);
                let obj = match &b { Ok(o) => o.clone(), Err(_) => continue };
                let g = geom(&obj);
                if !(g.0 > 0.0) { continue; }
                let t = obj.transform();
                for _ in 0..3 {
                    let psi = y.range(0.0, 2.0 * PI); let up = y.chance(0.5);
                    let rho = if y.chance(0.5) { g.0 * y.range(0.0, 0.9) } else { g.0 * (1.0 - (10.0f64).powf(-y.range(1.0, 4.0))) };
                    let a0 = y.range(0.0, 2.0 * PI);
                    let zs = if up { g.1 + (g.2 - g.1) * y.range(0.02, 0.2) } else { g.2 - (g.2 - g.1) * y.range(0.02, 0.2) };
                    let o = [rho * a0.cos(), rho * a0.sin(), zs];
                    let sc = *y.pick(&[1.0, 1.0, 0.01, 50.0]);
                    let d = [sc * th.sin() * psi.cos(), sc * th.sin() * psi.sin(), sc * th.cos() * if up { 1.0 } else { -1.0 }];
                    let (ray, op) = if y.chance(0.4) { (to_world(&None, &o, &d), 1usize) } else { (to_world(&t, &o, &d), *y.pick(&[3usize, 4])) };
                    emit_hit(&mut sink, &s, &obj, op, 95, &ray, zero, zero, None);
                }
                continue;
            }
            if fam < 2 {
                let c = |y: &mut Rng| -> Float { ((10.0f64).powf(y.range(-13.0, -5.0)) * if y.chance(0.5) { 1.0 } else { -1.0 }) as Float };
                let radius = if y.chance(0.5) { rad } else { (10.0f64).powf(y.range(-5.0, -3.0)) };
                let s = if y.chance(0.6) { Spec { shape: 0, variant: 0, args: vec![radius as Float, c(&mut y), c(&mut y), c(&mut y)], chain: vec![] } }
                        else { let ph = rand_phi(&mut y, true); Spec { shape: 0, variant: 1, args: vec![radius as Float, c(&mut y), c(&mut y), c(&mut y), (-0.6 * radius) as Float, (0.8 * radius) as Float, ph as Float], chain: vec![] } };
                let b = build(&s);
                emit_ctor(&mut sink, &s, &b);
                let obj = match &b { Ok(o) => o.clone(), Err(_) => continue };
                let g = geom(&obj);
                if !(g.0 > 0.0) { continue; }
                let t = obj.transform();
                for _ in 0..3 {
                    let rk = *y.pick(&[0u64, 1, 2, 3, 5]);
                    let (o, d) = rand_local_ray(&mut y, 0, g, rk);
                    let ray = to_world(&t, &o, &d);
                    let op = *y.pick(&[3usize, 4, 4]);
                    emit_hit(&mut sink, &s, &obj, op, 96, &ray, zero, zero, None);
                }
            } else {
                let shape = y.below(2) as usize;
                let s = if shape == 0 {
                    if y.chance(0.5) { Spec { shape, variant: 0, args: vec![rad as Float, 0.0, 0.0, 0.0], chain: vec![] } }
                    else { Spec { shape, variant: 1, args: vec![rad as Float, 0.0, 0.0, 0.0, (-0.7 * rad) as Float, (0.9 * rad) as Float, 360.0], chain: vec![] } }
                } else {
                    let z0 = y.range(-2.0, 1.0) * rad;
                    Spec { shape, variant: 2, args: vec![rad as Float, z0 as Float, (z0 + rad * y.range(0.5, 3.0)) as Float, 360.0], chain: vec![] }
                };
                let b = build(&s);
                emit_ctor(&mut sink, &s, &b);
                let obj = match &b { Ok(o) => o.clone(), Err(_) => continue };
                let g = geom(&obj);
                if !(g.0 > 0.0) || obj.transform().is_some() { continue; }
                let (lo, hi) = if shape == 0 { (g.1.max(-0.8 * g.0), g.2.min(0.8 * g.0)) } else { (g.1, g.2) };
                for _ in 0..3 {
                    let z = lo + (hi - lo) * y.range(0.25, 0.75);
                    let eps = *y.pick(&[1e-300, 1e-100, 1e-30, 1e-17 * g.0, 4e-17 * g.0]) * if y.chance(0.75) { -1.0 } else { 1.0 };
                    let sc = *y.pick(&[1.0, 1.0, 0.25, 8.0]);
                    let (o, d) = if y.chance(0.6) { ([g.0 * y.range(1.5, 5.0), eps, z], [-sc, 0.0, 0.0]) } else { ([g.0 * y.range(-0.5, 0.5), eps, z], [sc, 0.0, 0.0]) };
                    let ray = to_world(&None, &o, &d);
                    let op = *y.pick(&[1usize, 3, 4, 4]);
                    emit_hit(&mut sink, &s, &obj, op, 97, &ray, zero, zero, None);
                }
            }
        }
    }
    while sink.len() < n {
        let s = rand_spec(&mut r, None, stream == "C03quadric");
        let b = build(&s);
        emit_ctor(&mut sink, &s, &b);
        let obj = match &b { Ok(o) => o.clone(), Err(_) => continue };
        if r.chance(0.3) {
            let dummy = Ray3D { origin: zero, direction: Vector3D::new(0.0, 0.0, 1.0) };
            emit_hit(&mut sink, &s, &obj, 5, 98, &dummy, zero, zero, None);
        }
        // the operations added later draw from a second generator state (`x`), so that the other cases do not depend on them
        if x.chance(0.3) {
            let dummy = Ray3D { origin: zero, direction: Vector3D::new(0.0, 0.0, 1.0) };
            emit_hit(&mut sink, &s, &obj, 8, 98, &dummy, zero, zero, None);
        }
        let g = geom(&obj);
        if !(g.0 > 0.0) || !(g.0.is_finite() && g.1.is_finite() && g.2.is_finite() && g.3.is_finite()) { continue; }
        let t = obj.transform();
        {
            // op 6: simple_intersect_local_ray on a local ray with error boxes; op 7: intersection_info called directly at the point the
            // crate itself reports for that ray (or, when it reports none, at a point of the unclipped surface), with the ray of the call
            let rk = match stream { "C03quadric" => *x.pick(&[0, 1, 2, 3, 5, 5, 8]), "C13quadric" => *x.pick(&[0, 1, 4, 4, 7]), _ => x.below(N_RK) };
            let (o, d) = rand_local_ray(&mut x, s.shape, g, rk);
            let ray = to_world(&None, &o, &d);
            let (oe, de) = if x.chance(0.5) { (rand_err(&mut x, g.0), rand_err(&mut x, g.0)) } else { (zero, zero) };
            if x.chance(0.6) { emit_hit(&mut sink, &s, &obj, 6, rk, &ray, oe, de, None); }
            if x.chance(0.6) {
                let hit = run_op(&obj, 1, &ray, zero, zero).ok().flatten();
                let (phit, phi) = match hit {
                    Some(v) if x.chance(0.85) => (Point3D::new(v[0], v[1], v[2]), v[3]),
                    _ => { let q = rand_target(&mut x, s.shape, g, false); (Point3D::new(q[0] as Float, q[1] as Float, q[2] as Float), x.range(0.0, 6.28) as Float) }
                };
                emit_hit(&mut sink, &s, &obj, 7, rk, &ray, phit, Point3D::new(phi, 0.0, 0.0), None);
            }
        }
        let nrays = 6;
        for _ in 0..nrays {
            if stream == "C13quadric" && r.chance(0.7) {
                // paired rays: same surface point from both sides; hit data in world space (op 3) or locally (op 2)
                let (a, bb) = rand_pair(&mut r, s.shape, g);
                let op = if r.chance(0.75) { 3 } else { 2 };
                let (ra, rb) = if op == 3 { (to_world(&t, &a.0, &a.1), to_world(&t, &bb.0, &bb.1)) } else { (to_world(&None, &a.0, &a.1), to_world(&None, &bb.0, &bb.1)) };
                let ob = outcome(run_op(&obj, op, &rb, zero, zero));
                let oa = emit_hit(&mut sink, &s, &obj, op, 50, &ra, zero, zero, Some((&rb, &ob)));
                emit_hit(&mut sink, &s, &obj, op, 51, &rb, zero, zero, Some((&ra, &oa)));
                continue;
            }
            let rk = match stream {
                "C03quadric" => *r.pick(&[0, 1, 1, 2, 2, 3, 3, 5, 5, 5, 6, 7]),
                "C13quadric" => *r.pick(&[0, 1, 4, 4, 7, 6]),
                _ => r.below(N_RK),
            };
            let (o, d) = rand_local_ray(&mut r, s.shape, g, rk);
            let op = match stream {
                "C03quadric" => *r.pick(&[1usize, 1, 3, 4, 4]),
                "C13quadric" => *r.pick(&[2usize, 3, 3]),
                _ => 1 + r.below(4) as usize,
            };
            if op <= 2 {
                let ray = to_world(&None, &o, &d);
                // C03 is about rays: mostly zero-width boxes there; the other streams exercise the boxes
                let boxed = stream != "C03quadric" || r.chance(0.15);
                let (oe, de) = if boxed { (rand_err(&mut r, g.0), rand_err(&mut r, g.0)) } else { (zero, zero) };
                emit_hit(&mut sink, &s, &obj, op, rk, &ray, oe, de, None);
            } else {
                let ray = to_world(&t, &o, &d);
                emit_hit(&mut sink, &s, &obj, op, rk, &ray, zero, zero, None);
            }
        }
    }
    sink.flush();
}

/// replay: shape variant op nargs args.. nchain (k n args..).. ray(6) oe(3) de(3)   (bit patterns)
pub fn replay(a: &[String]) {
    let mut it = a.iter();
    let mut nu = || -> u64 { it.next().unwrap().parse().unwrap() };
    let shape = nu() as usize; let variant = nu() as usize; let op = nu() as usize;
    let na = nu() as usize;
    let args: Vec<Float> = (0..na).map(|_| Float::from_bits(nu() as _)).collect();
    let nc = nu() as usize;
    let mut chain = vec![];
    for _ in 0..nc {
        let k = nu(); let m = nu() as usize;
        let v: Vec<Float> = (0..m).map(|_| Float::from_bits(nu() as _)).collect();
        chain.push(match k { 0 => Elem::Tr(v[0], v[1], v[2]), 1 => Elem::Sc(v[0], v[1], v[2]), 2 => Elem::Rx(v[0]), 3 => Elem::Ry(v[0]), _ => Elem::Rz(v[0]) });
    }
    let s = Spec { shape, variant, args, chain };
    let b = build(&s);
    let mut sink = Sink::new("/dev/null", "Quadric", 1);
    if op == 0 {
        emit_ctor(&mut sink, &s, &b);
    } else {
        let v: Vec<Float> = (0..12).map(|_| Float::from_bits(nu() as _)).collect();
        let ray = Ray3D { origin: p3(&v[0..]), direction: v3(&v[3..]) };
        match &b {
            Ok(obj) => { emit_hit(&mut sink, &s, obj, op, 99, &ray, p3(&v[6..]), p3(&v[9..]), None); }
            Err(m) => { println!("constructor panicked: {}", m); return; }
        }
    }
    println!("{}", sink.json[0]);
}
