//! Shared helpers: PRNG, float <-> Coq/JSON literals, case sink.
use std::fmt::Write as _;
use std::io::Write as _;

#[cfg(not(feature = "float"))]
pub type Float = f64;
#[cfg(feature = "float")]
pub type Float = f32;

/// SplitMix64: every random choice of a run derives from one state seeded by VERIF_SEED.
pub struct Rng(pub u64);
impl Rng {
    pub fn new(seed: u64) -> Self {
        // scramble the seed twice so that neighbouring seeds give unrelated streams
        // (state = seed * golden would make seed s+1 the stream of s shifted by one draw)
        let mut r = Rng(seed ^ 0xD1B54A32D192ED03);
        let a = r.next();
        let mut r2 = Rng(a ^ seed.rotate_left(32));
        Rng(r2.next())
    }
    pub fn next(&mut self) -> u64 {
        self.0 = self.0.wrapping_add(0x9E3779B97F4A7C15);
        let mut z = self.0;
        z = (z ^ (z >> 30)).wrapping_mul(0xBF58476D1CE4E5B9);
        z = (z ^ (z >> 27)).wrapping_mul(0x94D049BB133111EB);
        z ^ (z >> 31)
    }
    pub fn below(&mut self, n: u64) -> u64 {
        if n == 0 { 0 } else { self.next() % n }
    }
    pub fn f01(&mut self) -> f64 {
        (self.next() >> 11) as f64 / (1u64 << 53) as f64
    }
    pub fn range(&mut self, a: f64, b: f64) -> f64 {
        a + (b - a) * self.f01()
    }
    pub fn chance(&mut self, p: f64) -> bool {
        self.f01() < p
    }
    pub fn pick<'a, T>(&mut self, v: &'a [T]) -> &'a T {
        &v[self.below(v.len() as u64) as usize]
    }
    /// log-uniform magnitude in [10^a, 10^b] with random sign
    pub fn logmag(&mut self, a: f64, b: f64) -> f64 {
        let m = (10.0f64).powf(self.range(a, b));
        if self.chance(0.5) { -m } else { m }
    }
}

/// Coq `spec_float` term, bit-exact: `(P <hex float literal>)` (P = Prim2SF; primitive float literals
/// parse ~15x faster than big integer literals), `(Zr s)`, `(Inf s)`, `NaN` (Run/Harness.v).
/// An f32 is widened exactly to f64 first.
pub fn sf(x: Float) -> String {
    let x = x as f64;
    let bits = x.to_bits();
    let neg = bits >> 63 == 1;
    let s = if neg { "true" } else { "false" };
    let e = ((bits >> 52) & 0x7ff) as i64;
    let m = bits & 0x000f_ffff_ffff_ffff;
    if e == 0x7ff {
        if m == 0 { format!("(Inf {})", s) } else { "NaN".to_string() }
    } else if e == 0 && m == 0 {
        format!("(Zr {})", s)
    } else {
        let body = if e == 0 { format!("0x0.{:013x}p-1022", m) } else { format!("0x1.{:013x}p{}", m, e - 1023) };
        if neg { format!("(P (-{}))", body) } else { format!("(P {})", body) }
    }
}
/// `"f32":true,` at the head of the JSON object of a case produced by the f32 build (the bit patterns are then 32-bit ones)
pub fn f32_mark() -> &'static str { if cfg!(feature = "float") { "\"f32\":true," } else { "" } }
/// Float::EPSILON / f64::EPSILON: 1 in the f64 build (constants multiplied by it are unchanged there), 2^29 in the f32 build;
/// scales the generators' "a few ulps / 1e-k relative" offsets to the working precision
#[allow(dead_code)]
pub const FSCALE: f64 = (Float::EPSILON as f64) / f64::EPSILON;
/// JSON: the bit pattern as an integer (exact; the Python side rebuilds the float)
pub fn jf(x: Float) -> String {
    format!("{}", x.to_bits())
}
pub fn jfs(xs: &[Float]) -> String {
    let v: Vec<String> = xs.iter().map(|x| jf(*x)).collect();
    format!("[{}]", v.join(","))
}
pub fn sfs(xs: &[Float]) -> String {
    // an empty list carries its element type: a shard whose every case has an empty list here would otherwise leave the
    // implicit argument of `nil` unresolved in `Definition cases := ...` (seen with a one-case shard, seed 4)
    if xs.is_empty() { return "(@nil spec_float)".to_string(); }
    let v: Vec<String> = xs.iter().map(|x| sf(*x)).collect();
    format!("[{}]", v.join("; "))
}
pub fn coq_bool(b: bool) -> &'static str {
    if b { "true" } else { "false" }
}

/// One generated case: the Coq term (inputs + the implementation's outputs), and a JSON
/// object (same information) for the exact-rational oracles and the evidence samples.
pub struct Sink {
    pub dir: String,
    pub module: String, // Coq file Run/<module>.v
    pub runner: String, // Coq module inside it that has `run`
    pub shard: usize,
    pub coq: Vec<String>,
    pub json: Vec<String>,
}
impl Sink {
    pub fn new(dir: &str, module: &str, shard: usize) -> Self {
        Sink { dir: dir.to_string(), module: module.to_string(), runner: module.to_string(), shard, coq: vec![], json: vec![] }
    }
    /// as `new`; in the f32 build (`--features float`) the cases go to the runner module `<module>f32` of the same file
    /// Run/<module>.v: the same runner text instantiated on the binary32 number instance (NumF32fast, Run/FastNum32.v)
    pub fn new32(dir: &str, module: &str, shard: usize) -> Self {
        #[allow(unused_mut)]
        let mut s = Sink::new(dir, module, shard);
        #[cfg(feature = "float")]
        { s.runner = format!("{}f32", module); }
        s
    }
    pub fn push(&mut self, coq: String, json: String) {
        self.coq.push(coq);
        self.json.push(json);
    }
    pub fn len(&self) -> usize {
        self.coq.len()
    }
    pub fn flush(&self) {
        std::fs::create_dir_all(&self.dir).unwrap();
        let mut k = 0;
        for chunk in self.coq.chunks(self.shard) {
            let mut s = String::new();
            writeln!(s, "From G3 Require Import Run.Harness Run.{}.", self.module).unwrap();
            writeln!(s, "Definition cases := [").unwrap();
            for (i, c) in chunk.iter().enumerate() {
                writeln!(s, "  {}{}", c, if i + 1 < chunk.len() { ";" } else { "" }).unwrap();
            }
            writeln!(s, "].").unwrap();
            writeln!(s, "Eval vm_compute in ({}.run cases).", self.runner).unwrap();
            std::fs::write(format!("{}/cases_{}.v", self.dir, k), s).unwrap();
            k += 1;
        }
        let mut f = std::fs::File::create(format!("{}/cases.jsonl", self.dir)).unwrap();
        for j in &self.json {
            writeln!(f, "{}", j).unwrap();
        }
    }
}

/// run `f` catching panics (the crate's `unwrap`/`panic!`/`debug_assert!` sites)
pub fn catch<T>(f: impl FnOnce() -> T + std::panic::UnwindSafe) -> Result<T, String> {
    match std::panic::catch_unwind(f) {
        Ok(v) => Ok(v),
        Err(e) => {
            let msg = if let Some(s) = e.downcast_ref::<&str>() {
                s.to_string()
            } else if let Some(s) = e.downcast_ref::<String>() {
                s.clone()
            } else {
                "?".to_string()
            };
            Err(msg)
        }
    }
}

/// a library of "interesting" floats
pub fn special_floats() -> Vec<Float> {
    let mut v: Vec<Float> = vec![
        0.0, -0.0, 1.0, -1.0, 2.0, 0.5, 3.0, 0.1, -0.1, 1e-5, 1e-7, 100.0, 1000.0,
        Float::MIN_POSITIVE, -Float::MIN_POSITIVE, Float::MAX, -Float::MAX, Float::EPSILON,
        Float::MIN_POSITIVE / 4.0, -Float::MIN_POSITIVE / 8.0, 1e-30, -1e-30, 1e30, -1e30,
    ];
    v.push(Float::from_bits(1)); // smallest subnormal
    v.push(-Float::from_bits(1));
    let more: Vec<Float> = v.iter().flat_map(|x| {
        let b = x.to_bits();
        vec![Float::from_bits(b.wrapping_add(1)), Float::from_bits(b.wrapping_sub(1))]
    }).filter(|x| x.is_finite()).collect();
    v.extend(more);
    v
}
pub fn rand_float(r: &mut Rng) -> Float {
    match r.below(10) {
        0 => *r.pick(&special_floats()),
        1 => {
            // power of two and neighbours
            let e = r.below(120) as i32 - 60;
            let p = (2.0 as Float).powi(e);
            let p = if r.chance(0.5) { -p } else { p };
            let b = p.to_bits();
            match r.below(3) { 0 => p, 1 => Float::from_bits(b + 1), _ => Float::from_bits(b - 1) }
        }
        2 => r.logmag(-300.0, 300.0) as Float,
        3 => r.logmag(-20.0, 20.0) as Float,
        4 => (r.below(41) as i64 - 20) as Float,
        _ => r.logmag(-6.0, 6.0) as Float,
    }
}
