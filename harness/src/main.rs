//! g3harness: runs the geometry3d crate (built from /repo's working tree with the verification
//! hooks on) on generated cases and writes (a) Coq case files evaluated against the Gallina model
//! and (b) a JSON-lines file for the exact-rational oracles.
mod util;
mod mesh;
mod quadric;
mod c17;
mod polys;
mod c19;
mod flat;
mod c15;
mod c14;
mod c07;
mod c06;
mod gen;
mod loops;

fn main() {
    let args: Vec<String> = std::env::args().collect();
    if args.len() < 3 {
        eprintln!("usage: g3harness gen <prop> <seed> <n> <outdir> | replay <prop> <args..>");
        std::process::exit(2);
    }
    // panics of the crate are caught and classified; keep stderr quiet
    std::panic::set_hook(Box::new(|_| {}));
    match args[1].as_str() {
        "gen" => {
            let prop = args[2].as_str();
            let seed: u64 = args[3].parse().unwrap();
            let n: usize = args[4].parse().unwrap();
            let out = args[5].as_str();
            match prop {
                "C07" => c07::run(seed, n, out),
                "C06" => c06::run(seed, n, out, false),
                "C04" => loops::run_c04(seed, n, out),
                "C16" => c06::run(seed, n, out, true),
                "C14" => c14::run(seed, n, out),
                "C15" => c15::run(seed, n, out),
                "C02flat" => flat::run(seed, n, out, 2),
                "C03flat" => flat::run(seed, n, out, 3),
                "C13flat" => flat::run(seed, n, out, 13),
                "C19" => c19::run(seed, n, out),
                "C11" => polys::run_c11(seed, n, out),
                "C12" => polys::run_c12(seed, n, out, !args[6..].iter().any(|a| a == "--nocoq")),
                "C20" => polys::run_c20(seed, n, out),
                "C17" => c17::run(seed, n, out),
                "C02quadric" | "C03quadric" | "C13quadric" => quadric::run(prop, seed, n, out),
                "C05" => loops::run_c05(seed, n, out),
                "C10" => loops::run_c10(seed, n, out),
                "C01mesh" | "C09mesh" | "C08hist" | "C08rand" | "C01refine" | "C09refine" | "C18refine" => mesh::run(prop, seed, n, out, &args[6..]),
                _ => { eprintln!("unknown property {}", prop); std::process::exit(2) }
            }
        }
        "replay" => match args[2].as_str() {
            "C07" => c07::replay(&args[3..]),
            "C06" | "C16" => c06::replay(&args[3..]),
            "C04" => loops::replay_c04(&args[3..]),
            "C14" => c14::replay(&args[3..]),
            "C15" => c15::replay(&args[3..]),
            // composite properties: the first replay argument names the part
            "C02" | "C03" | "C13" => match args[3].as_str() {
                "flat" => flat::replay(&args[4..]),
                "pquadric" => quadric::replay(&args[4..]),
                _ => { eprintln!("unknown part"); std::process::exit(2) }
            },
            "C19" => c19::replay(&args[3..]),
            "C11" => polys::replay_c11(&args[3..]),
            "C12" => polys::replay_c12(&args[3..]),
            "C20" => polys::replay_c20(&args[3..]),
            "C17" => c17::replay(&args[3..]),
            "C05" => loops::replay_c05(&args[3..]),
            "C10" => loops::replay_c10(&args[3..]),
            "C01" | "C08" | "C09" | "C18" => mesh::replay(&args[3..]),
            _ => { eprintln!("unknown property"); std::process::exit(2) }
        },
        // exhaustive-ish searches used while building a check (not part of any registered command)
        "search" => match args[2].as_str() {
            "C17" => c17::search(args[3].parse().unwrap(), args[4].parse().unwrap(), args.len() > 5 && args[5] == "underflow"),
            _ => std::process::exit(2),
        },
        _ => std::process::exit(2),
    }
}
