//! C15: bounding boxes bound.  BBox3D constructors/predicates, Transform::transform_bbox /
//! inv_transform_bbox, bounds() / world_bounds() of Triangle3D, Sphere3D (full, partial) and
//! Cylinder3D with and without transforms, and ray hits reported by intersect / simple_intersect
//! (world) and intersect_local_ray / simple_intersect_local_ray (local) for the containment oracle.
//!
//! A case = (kind, op, inputs, outputs); an empty output list = the constructor panicked.
//! kind 0: BBox3D function `op` on raw operands          kind 1: (inv_)transform_bbox on hooked matrices
//! kind 2: triangle     kind 3: sphere      kind 4: cylinder   (outputs: bounds then world_bounds)
use crate::c06::{elem_tr, from_mats, mats, rand_chain, Elem};
use crate::util::*;
use geometry3d::{BBox3D, BBoxAxis, Cylinder3D, Point3D, Ray3D, Sphere3D, Transform, Triangle3D, Vector3D};
use std::rc::Rc;

pub const BOX_OPS: [&str; 10] = ["new", "from_point", "from_union", "from_union_point", "from_intersection", "overlaps",
                                  "point_inside", "point_inside_exclusive", "max_extent", "surface_area"];

fn p3(v: &[Float]) -> Point3D { Point3D::new(v[0], v[1], v[2]) }
fn v3(v: &[Float]) -> Vector3D { Vector3D::new(v[0], v[1], v[2]) }
fn pv(p: Point3D) -> Vec<Float> { vec![p.x, p.y, p.z] }
fn bbv(b: &BBox3D) -> Vec<Float> { vec![b.min.x, b.min.y, b.min.z, b.max.x, b.max.y, b.max.z] }
fn raw_box(v: &[Float]) -> BBox3D { BBox3D { min: p3(v), max: p3(&v[3..]) } }
fn bf(b: bool) -> Vec<Float> { vec![if b { 1.0 } else { 0.0 }] }

pub fn box_n_inputs(op: usize) -> usize { match op { 0 => 6, 1 => 3, 2 | 4 | 5 => 12, 3 | 6 | 7 => 9, _ => 6 } }
pub fn box_apply(op: usize, i: &[Float]) -> Vec<Float> {
    match op {
        0 => bbv(&BBox3D::new(p3(i), p3(&i[3..]))),
        1 => bbv(&BBox3D::from_point(p3(i))),
        2 => bbv(&BBox3D::from_union(&raw_box(i), &raw_box(&i[6..]))),
        3 => bbv(&BBox3D::from_union_point(&raw_box(i), p3(&i[6..]))),
        4 => bbv(&BBox3D::from_intersection(&raw_box(i), &raw_box(&i[6..]))),
        5 => vec![bf(raw_box(i).overlaps(&raw_box(&i[6..])))[0], bf(raw_box(&i[6..]).overlaps(&raw_box(i)))[0]],
        6 => bf(raw_box(i).point_inside(p3(&i[6..]))),
        7 => bf(raw_box(i).point_inside_exclusive(p3(&i[6..]))),
        8 => vec![match raw_box(i).max_extent() { BBoxAxis::X => 0.0, BBoxAxis::Y => 1.0, BBoxAxis::Z => 2.0 }],
        9 => vec![raw_box(i).surface_area()],
        _ => unreachable!(),
    }
}

/// coordinates from a small pool (so that ties, shared faces and touching boxes are frequent) or continuous
fn coord(r: &mut Rng) -> Float {
    match r.below(6) {
        0 | 1 => (r.below(9) as i64 - 4) as Float,
        2 => *r.pick(&[0.0, -0.0, 0.5, -0.5, 1.5, 1e3, -1e3, 1e-3]) as Float,
        3 => r.range(-1e3, 1e3) as Float,
        _ => r.range(-5.0, 5.0) as Float,
    }
}
fn rand_wf_box(r: &mut Rng) -> Vec<Float> {
    let a = [coord(r), coord(r), coord(r)];
    let b = [coord(r), coord(r), coord(r)];
    let bb = BBox3D::new(p3(&a), p3(&b));
    bbv(&bb)
}
fn rand_any_box(r: &mut Rng) -> Vec<Float> {
    if r.chance(0.88) { rand_wf_box(r) } else { (0..6).map(|_| coord(r)).collect() } // sometimes ill-formed (raw struct)
}
fn point_near(r: &mut Rng, b: &[Float]) -> Vec<Float> {
    (0..3).map(|k| match r.below(6) {
        0 => b[k], 1 => b[3 + k], 2 => (b[k] + b[3 + k]) / 2.0,
        3 => b[k] + (b[3 + k] - b[k]) * (r.f01() as Float),
        _ => coord(r),
    }).collect()
}
fn box_inputs(r: &mut Rng, op: usize) -> Vec<Float> {
    match op {
        0 => (0..6).map(|_| coord(r)).collect(),
        1 => (0..3).map(|_| coord(r)).collect(),
        2 | 4 | 5 => { let mut a = rand_any_box(r); a.extend(rand_any_box(r)); a }
        3 | 6 | 7 => { let mut a = rand_any_box(r); let p = point_near(r, &a); a.extend(p); a }
        _ => rand_any_box(r),
    }
}

fn rand_affine(r: &mut Rng) -> Vec<Float> {
    // any affine matrix (last row 0 0 0 1); the stored inverse is not used by transform_bbox
    let mut e: Vec<Float> = (0..12).map(|_| match r.below(4) { 0 => 0.0, 1 => (r.below(5) as i64 - 2) as Float, _ => r.range(-3.0, 3.0) as Float }).collect();
    e.extend_from_slice(&[0.0, 0.0, 0.0, 1.0]);
    let mut v = e.clone();
    v.extend_from_slice(&[1.0, 0.0, 0.0, 0.0, 0.0, 1.0, 0.0, 0.0, 0.0, 0.0, 1.0, 0.0, 0.0, 0.0, 0.0, 1.0]);
    v
}
fn chain_tr(chain: &[Elem]) -> Transform {
    let mut t = Transform::new();
    for e in chain { t *= elem_tr(e); }
    t
}
fn rand_tr(r: &mut Rng) -> Transform {
    if r.chance(0.15) { from_mats(&rand_affine(r)) } else { chain_tr(&rand_chain(r)) }
}
/// rigid + uniform scale chains for the primitives (translations to 1e3)
fn rand_opt_tr(r: &mut Rng) -> Option<Transform> {
    if r.chance(0.3) { None } else { Some(chain_tr(&rand_chain(r))) }
}

struct Hit { space: &'static str, via: &'static str, o: Vec<Float>, d: Vec<Float>, p: Vec<Float> }
fn hits_json(h: &[Hit]) -> String {
    let v: Vec<String> = h.iter().map(|x| format!("{{\"space\":\"{}\",\"via\":\"{}\",\"o\":{},\"d\":{},\"p\":{}}}", x.space, x.via, jfs(&x.o), jfs(&x.d), jfs(&x.p))).collect();
    format!("[{}]", v.join(","))
}
/// rays aimed at the neighbourhood of a box (plus some random ones)
fn rays_at(r: &mut Rng, bb: &[Float], n: usize) -> Vec<(Vec<Float>, Vec<Float>)> {
    let mut out = vec![];
    let ext: Float = (0..3).map(|k| (bb[3 + k] - bb[k]).abs()).fold(1e-3, |a: Float, b| a.max(b));
    if !bb.iter().all(|x| x.is_finite()) { return out; }
    for _ in 0..n {
        let mut t: Vec<Float> = (0..3).map(|k| bb[k] + (bb[3 + k] - bb[k]) * (r.range(-0.1, 1.1) as Float)).collect();
        match r.below(10) {
            // the centre of a face of the box (the extreme points of a sphere / cylinder), or a corner (triangle vertices)
            0 | 1 | 2 => { for k in 0..3 { t[k] = (bb[k] + bb[3 + k]) / 2.0; } let k = r.below(3) as usize; t[k] = if r.chance(0.5) { bb[k] } else { bb[3 + k] }; }
            3 => { for k in 0..3 { t[k] = if r.chance(0.5) { bb[k] } else { bb[3 + k] }; } }
            _ => {}
        }
        let o: Vec<Float> = (0..3).map(|k| t[k] + ext * (r.range(-3.0, 3.0) as Float)).collect();
        let mut d: Vec<Float> = (0..3).map(|k| t[k] - o[k]).collect();
        if r.chance(0.5) { let l = (d[0] * d[0] + d[1] * d[1] + d[2] * d[2]).sqrt(); if l > 0.0 { for k in 0..3 { d[k] /= l; } } }
        if d.iter().all(|x| *x == 0.0) { d[0] = 1.0; }
        out.push((o, d));
    }
    out
}
fn zero() -> Point3D { Point3D::new(0., 0., 0.) }

fn push(sink: &mut Sink, kind: usize, op: usize, i: &[Float], o: &[Float], extra: &str) {
    sink.push(
        format!("({}%N, {}%N, {}, {})", kind, op, sfs(i), sfs(o)),
        format!("{{{}\"kind\":{},\"op\":{},\"in\":{},\"out\":{}{}}}", f32_mark(), kind, op, jfs(i), jfs(o), extra),
    );
}

fn tri_case(sink: &mut Sink, r: &mut Rng, v: &[Float]) {
    let tri = match Triangle3D::new(p3(v), p3(&v[3..]), p3(&v[6..])) { Ok(t) => t, Err(_) => return };
    let lb = bbv(&tri.bounds()); let wb = bbv(&tri.world_bounds());
    let mut hits = vec![];
    let mut rays = rays_at(r, &lb, 6);
    // grazing rays: nearly in the plane of the triangle, aimed at a vertex or a point of the triangle
    {
        let e1: Vec<Float> = (0..3).map(|k| v[3 + k] - v[k]).collect();
        let e2: Vec<Float> = (0..3).map(|k| v[6 + k] - v[k]).collect();
        let nrm = [e1[1] * e2[2] - e1[2] * e2[1], e1[2] * e2[0] - e1[0] * e2[2], e1[0] * e2[1] - e1[1] * e2[0]];
        let ln = (nrm[0] * nrm[0] + nrm[1] * nrm[1] + nrm[2] * nrm[2]).sqrt();
        for _ in 0..3 {
            let (a, b) = (r.range(-1.0, 1.0) as Float, r.range(-1.0, 1.0) as Float);
            let inpl: Vec<Float> = (0..3).map(|k| a * e1[k] + b * e2[k]).collect();
            let li = (inpl[0] * inpl[0] + inpl[1] * inpl[1] + inpl[2] * inpl[2]).sqrt();
            if !(ln > 0.0) || !(li > 0.0) { continue; }
            let ang = (10.0f64).powf(r.range(-6.0, -0.5)) as Float;
            let d: Vec<Float> = (0..3).map(|k| inpl[k] / li + ang * nrm[k] / ln).collect();
            let j = r.below(3) as usize;
            let (wa, wb) = if r.chance(0.5) { (0.0, 0.0) } else { let x = r.f01() as Float; (x * 0.5, (1.0 - x) * 0.5) };
            let tgt: Vec<Float> = (0..3).map(|k| v[3 * j + k] + wa * (v[3 * ((j + 1) % 3) + k] - v[3 * j + k]) + wb * (v[3 * ((j + 2) % 3) + k] - v[3 * j + k])).collect();
            let dist = (10.0f64).powf(r.range(-1.0, 2.0)) as Float;
            let o: Vec<Float> = (0..3).map(|k| tgt[k] - d[k] * dist).collect();
            rays.push((o, d));
        }
    }
    for (o, d) in rays {
        let ray = Ray3D { origin: p3(&o), direction: v3(&d) };
        if let Ok(Some(p)) = catch(|| tri.simple_intersect(&ray)) { hits.push(Hit { space: "world", via: "simple_intersect", o: o.clone(), d: d.clone(), p: pv(p) }); }
        if let Ok(Some(info)) = catch(|| tri.intersect(&ray)) { hits.push(Hit { space: "world", via: "intersect", o: o.clone(), d: d.clone(), p: pv(info.p) }); }
        if let Ok(Some(p)) = catch(|| tri.simple_intersect_local_ray(&ray, zero(), zero())) { hits.push(Hit { space: "local", via: "simple_intersect_local_ray", o: o.clone(), d: d.clone(), p: pv(p) }); }
        if let Ok(Some(info)) = catch(|| tri.intersect_local_ray(&ray, zero(), zero())) { hits.push(Hit { space: "local", via: "intersect_local_ray", o: o.clone(), d: d.clone(), p: pv(info.p) }); }
    }
    let mut o = lb.clone(); o.extend(wb);
    push(sink, 2, 0, v, &o, &format!(",\"hits\":{}", hits_json(&hits)));
}

/// inputs: radius, zmin, zmax, phi, has_transform (0/1), 32 matrix entries (identity pair when absent)
fn prim_inputs(radius: Float, zmin: Float, zmax: Float, phi: Float, t: &Option<Transform>) -> Vec<Float> {
    let mut i = vec![radius, zmin, zmax, phi, if t.is_some() { 1.0 } else { 0.0 }];
    i.extend(mats(&t.clone().unwrap_or_else(Transform::new)));
    i
}

fn sphere_hits(r: &mut Rng, s: &Sphere3D, lb: &[Float], wb: &[Float]) -> Vec<Hit> {
    let mut hits = vec![];
    for (o, d) in rays_at(r, wb, 6) {
        let ray = Ray3D { origin: p3(&o), direction: v3(&d) };
        if let Ok(Some(p)) = catch(|| s.simple_intersect(&ray)) { hits.push(Hit { space: "world", via: "simple_intersect", o: o.clone(), d: d.clone(), p: pv(p) }); }
        if let Ok(Some(info)) = catch(|| s.intersect(&ray)) { hits.push(Hit { space: "world", via: "intersect", o: o.clone(), d: d.clone(), p: pv(info.p) }); }
    }
    for (o, d) in rays_at(r, lb, 4) {
        let ray = Ray3D { origin: p3(&o), direction: v3(&d) };
        if let Ok(Some(p)) = catch(|| s.simple_intersect_local_ray(&ray, zero(), zero())) { hits.push(Hit { space: "local", via: "simple_intersect_local_ray", o: o.clone(), d: d.clone(), p: pv(p) }); }
        if let Ok(Some(info)) = catch(|| s.intersect_local_ray(&ray, zero(), zero())) { hits.push(Hit { space: "local", via: "intersect_local_ray", o: o.clone(), d: d.clone(), p: pv(info.p) }); }
    }
    hits
}
fn cyl_hits(r: &mut Rng, s: &Cylinder3D, lb: &[Float], wb: &[Float]) -> Vec<Hit> {
    let mut hits = vec![];
    for (o, d) in rays_at(r, wb, 6) {
        let ray = Ray3D { origin: p3(&o), direction: v3(&d) };
        if let Ok(Some(p)) = catch(|| s.simple_intersect(&ray)) { hits.push(Hit { space: "world", via: "simple_intersect", o: o.clone(), d: d.clone(), p: pv(p) }); }
        if let Ok(Some(info)) = catch(|| s.intersect(&ray)) { hits.push(Hit { space: "world", via: "intersect", o: o.clone(), d: d.clone(), p: pv(info.p) }); }
    }
    for (o, d) in rays_at(r, lb, 4) {
        let ray = Ray3D { origin: p3(&o), direction: v3(&d) };
        if let Ok(Some(p)) = catch(|| s.simple_intersect_local_ray(&ray, zero(), zero())) { hits.push(Hit { space: "local", via: "simple_intersect_local_ray", o: o.clone(), d: d.clone(), p: pv(p) }); }
        if let Ok(Some(info)) = catch(|| s.intersect_local_ray(&ray, zero(), zero())) { hits.push(Hit { space: "local", via: "intersect_local_ray", o: o.clone(), d: d.clone(), p: pv(info.p) }); }
    }
    hits
}

fn rc(t: &Option<Transform>) -> Option<Rc<Transform>> { t.clone().map(Rc::new) }
fn tr_json(t: &Option<Rc<Transform>>) -> String {
    match t { Some(t) => jfs(&mats(t)), None => "null".to_string() }
}

/// op 0: new_partial_transformed(radius, zmin, zmax, phi, T);  op 1: new(radius, centre) (inputs 1..3 = centre)
fn sphere_case(sink: &mut Sink, r: &mut Rng, op: usize, radius: Float, a: Float, b: Float, c: Float, t: Option<Transform>) {
    let built = if op == 0 {
        let tt = rc(&t);
        catch(move || Sphere3D::new_partial_transformed(radius, a, b, c, tt))
    } else {
        catch(move || Sphere3D::new(radius, Point3D::new(a, b, c)))
    };
    let i = if op == 0 { prim_inputs(radius, a, b, c, &t) } else {
        // the transform the constructor attached (a translation, or none) is read back through the hook
        let tr = built.as_ref().ok().and_then(|s| s.transform().as_ref().map(|x| (**x).clone()));
        prim_inputs(radius, a, b, c, &tr)
    };
    match built {
        Err(_) => push(sink, 3, op, &i, &[], ",\"hits\":[],\"tr\":null"),
        Ok(s) => {
            let lb = bbv(&s.bounds()); let wb = bbv(&s.world_bounds());
            let hits = sphere_hits(r, &s, &lb, &wb);
            let mut o = lb.clone(); o.extend(wb);
            push(sink, 3, op, &i, &o, &format!(",\"hits\":{},\"tr\":{}", hits_json(&hits), tr_json(s.transform())));
        }
    }
}
/// op 0: new_transformed(radius, zmin, zmax, phi, T);  op 1: new(p0, p1, radius) with inputs (radius, p0, p1 .. see below)
fn cyl_case(sink: &mut Sink, r: &mut Rng, radius: Float, zmin: Float, zmax: Float, phi: Float, t: Option<Transform>) {
    let tt = rc(&t);
    let built = catch(move || Cylinder3D::new_transformed(radius, zmin, zmax, phi, tt));
    let i = prim_inputs(radius, zmin, zmax, phi, &t);
    match built {
        Err(_) => push(sink, 4, 0, &i, &[], ",\"hits\":[],\"tr\":null"),
        Ok(s) => {
            let lb = bbv(&s.bounds()); let wb = bbv(&s.world_bounds());
            let hits = cyl_hits(r, &s, &lb, &wb);
            let mut o = lb.clone(); o.extend(wb);
            push(sink, 4, 0, &i, &o, &format!(",\"hits\":{},\"tr\":{}", hits_json(&hits), tr_json(s.transform())));
        }
    }
}
fn cyl_axis_case(sink: &mut Sink, r: &mut Rng, p0: &[Float], p1: &[Float], radius: Float) {
    let (a, b) = (p3(p0), p3(p1));
    let built = catch(move || Cylinder3D::new(a, b, radius));
    if let Ok(s) = built {
        // inputs: radius, p0, p1, then the 32 entries of the transform the constructor built (libm inside: read back)
        let mut i = vec![radius]; i.extend_from_slice(p0); i.extend_from_slice(p1);
        let tr = s.transform().as_ref().map(|x| (**x).clone());
        i.extend(mats(&tr.clone().unwrap_or_else(Transform::new)));
        let lb = bbv(&s.bounds()); let wb = bbv(&s.world_bounds());
        let hits = cyl_hits(r, &s, &lb, &wb);
        let mut o = lb.clone(); o.extend(wb);
        push(sink, 4, 1, &i, &o, &format!(",\"hits\":{},\"tr\":{}", hits_json(&hits), tr_json(s.transform())));
    }
}

fn radius(r: &mut Rng) -> Float {
    match r.below(5) { 0 => 1.0, 1 => *r.pick(&[0.5, 2.0, 10.0, 0.1]) as Float, _ => (10.0f64).powf(r.range(-2.0, 2.0)) as Float }
}
fn phi(r: &mut Rng) -> Float {
    match r.below(4) { 0 => 360.0, 1 => *r.pick(&[90.0, 180.0, 270.0, 45.0]) as Float, _ => r.range(1.0, 360.0) as Float }
}

pub fn run(seed: u64, n: usize, out: &str) {
    // util::Rng::new(s) and Rng::new(s+1) are the same SplitMix64 stream one draw apart: take the state from a first
    // draw so that neighbouring seeds give unrelated case sequences
    let mut r = Rng(Rng::new(seed ^ 0xC15).next());
    // f32 build: runner module C15f32 of Run/C15.v (the same text on the binary32 instance)
    let mut sink = Sink::new32(out, "C15", 250);
    // corpus: a rotated unit cube (every corner matters), touching boxes, a partial sphere, an axis cylinder
    {
        let t = chain_tr(&[Elem::Rz(45.0), Elem::Rx(30.0)]);
        let i: Vec<Float> = vec![0., 0., 0., 1., 1., 1.];
        let mut all = mats(&t); all.extend(&i);
        push(&mut sink, 1, 0, &all, &bbv(&t.transform_bbox(BBox3D::new(p3(&i), p3(&i[3..])))), "");
        push(&mut sink, 1, 1, &all, &bbv(&t.inv_transform_bbox(BBox3D::new(p3(&i), p3(&i[3..])))), "");
        let two: Vec<Float> = vec![-3., -5., -7., 0., 0., 0., 0., 0., 0., 3., 5., 7.];
        for op in [2usize, 4, 5] { push(&mut sink, 0, op, &two, &box_apply(op, &two), ""); }
        sphere_case(&mut sink, &mut r, 0, 2.0, -1.0, 1.5, 270.0, Some(chain_tr(&[Elem::Tr(1., 2., 3.), Elem::Ry(40.0)])));
        sphere_case(&mut sink, &mut r, 1, 1.5, 2.1, 1.2, -2.0, None);
        cyl_axis_case(&mut sink, &mut r, &[0., 0., 0.], &[0., 2., 0.], 0.5);
        cyl_case(&mut sink, &mut r, 0.5, -1.0, 2.0, 360.0, Some(chain_tr(&[Elem::Rx(90.0), Elem::Tr(0., 0., 5.)])));
        tri_case(&mut sink, &mut r, &[0., 0., 0., 6., 0., 0., 0., 8., 0.]);
    }
    // overlap of boxes that exactly TOUCH at non-dyadic coordinates (cells of a 0.1 grid share a face, an edge or a corner), that miss
    // each other by one ulp, or whose magnitudes differ by 1e16: any reformulation of `overlaps` that is only equivalent in exact
    // arithmetic (centre / half-size form: seeded change C15-m5) decides these differently.  Fixed list + a few grid cells from an
    // own generator state; the random sequence below is unchanged, only cut at n
    {
        let up = |x: Float| Float::from_bits(x.to_bits() + 1);
        let mut pairs: Vec<[Float; 12]> = vec![
            [0.0, 0.0, 0.0, 0.1, 0.1, 0.1, 0.1, 0.0, 0.0, 0.2, 0.1, 0.1],
            [0.1, 0.2, 0.3, 0.3, 0.5, 0.7, 0.3, 0.5, 0.7, 0.9, 1.1, 1.3],
            [-0.7, -0.7, -0.7, -0.1, -0.1, -0.1, -0.1, -0.7, -0.7, 0.2, -0.1, -0.1],
            [0.0, 0.0, 0.0, 0.1, 1.0, 1.0, up(0.1), 0.0, 0.0, 0.2, 1.0, 1.0],
            [0.0, 0.0, 0.0, 1.0, 0.7, 1.0, 0.0, up(0.7), 0.0, 1.0, 0.9, 1.0],
            [-1e16, 0.0, 0.0, 3.0, 1.0, 1.0, 5.0, 0.0, 0.0, 8.0, 1.0, 1.0],
            [0.0, -1e16, 0.0, 1.0, 3.0, 1.0, 0.0, 5.0, 0.0, 1.0, 8.0, 1.0],
            [-1e16, 0.0, 0.0, 3.0, 1.0, 1.0, 3.0, 0.0, 0.0, 8.0, 1.0, 1.0],
            [0.0, 0.0, -3.0, 1.0, 1.0, 1e15, 0.0, 0.0, -8.0, 1.0, 1.0, -5.0],
        ];
        let mut y = Rng::new(seed ^ 0xC15_7007);
        for _ in 0..(n / 200).max(3) {
            let g = |y: &mut Rng| -> (Float, Float, Float, Float) {
                let i = y.below(40) as i64 - 20; let w = 1 + y.below(3) as i64;
                // the neighbour starts exactly where this cell ends (share), one ulp later (miss) or overlaps
                let a0 = (i as Float) * 0.1; let a1 = ((i + w) as Float) * 0.1;
                let b0 = match y.below(4) { 0 | 1 => a1, 2 => up(a1), _ => ((i + w - 1) as Float) * 0.1 };
                (a0, a1, b0, b0 + 0.1 * (1 + y.below(3)) as Float)
            };
            let (x0, x1, u0, u1) = g(&mut y); let (y0, y1, v0, v1) = g(&mut y); let (z0, z1, w0, w1) = g(&mut y);
            pairs.push([x0, y0, z0, x1, y1, z1, u0, v0, w0, u1, v1, w1]);
        }
        for q in pairs.iter() { if sink.len() < n { let i: Vec<Float> = q.to_vec(); push(&mut sink, 0, 5, &i, &box_apply(5, &i), ""); } }
    }
    while sink.len() < n {
        match r.below(10) {
            0 | 1 | 2 | 3 => {
                let op = r.below(10) as usize;
                let i = box_inputs(&mut r, op);
                push(&mut sink, 0, op, &i, &box_apply(op, &i), "");
            }
            4 | 5 => {
                let t = rand_tr(&mut r);
                let op = r.below(2) as usize;
                let i: Vec<Float> = (0..6).map(|_| coord(&mut r)).collect();
                let bb = BBox3D::new(p3(&i), p3(&i[3..]));
                let o = match catch(|| if op == 0 { t.transform_bbox(bb) } else { t.inv_transform_bbox(bb) }) { Ok(o) => o, Err(_) => continue };
                let mut all = mats(&t); all.extend(&i);
                push(&mut sink, 1, op, &all, &bbv(&o), "");
            }
            6 => {
                let s = (10.0f64).powf(r.range(-1.0, 2.0)) as Float;
                let c = [coord(&mut r), coord(&mut r), coord(&mut r)];
                let v: Vec<Float> = (0..9).map(|k| c[k % 3] + s * (r.range(-1.0, 1.0) as Float)).collect();
                tri_case(&mut sink, &mut r, &v);
            }
            7 => {
                let rad = radius(&mut r);
                if r.chance(0.3) {
                    let c = if r.chance(0.2) { [0.0, 0.0, 0.0] } else { [coord(&mut r), coord(&mut r), coord(&mut r)] };
                    sphere_case(&mut sink, &mut r, 1, rad, c[0], c[1], c[2], None);
                } else {
                    // partial: z clips inside, at, or beyond the radius; rare invalid arguments (panic sites)
                    let mut z1 = rad * (r.range(-1.5, 1.5) as Float); let mut z2 = rad * (r.range(-1.5, 1.5) as Float);
                    if z1 > z2 && !r.chance(0.05) { std::mem::swap(&mut z1, &mut z2); }
                    let rad = if r.chance(0.03) { -rad } else { rad };
                    let ph = if r.chance(0.03) { 400.0 } else { phi(&mut r) };
                    let t = rand_opt_tr(&mut r);
                    sphere_case(&mut sink, &mut r, 0, rad, z1, z2, ph, t);
                }
            }
            _ => {
                let rad = radius(&mut r);
                if r.chance(0.3) {
                    let p0 = [coord(&mut r), coord(&mut r), coord(&mut r)];
                    let mut p1 = [coord(&mut r), coord(&mut r), coord(&mut r)];
                    if p1 == p0 { p1[2] += 1.0; }
                    cyl_axis_case(&mut sink, &mut r, &p0, &p1, rad);
                } else {
                    let mut z1 = r.range(-10.0, 10.0) as Float; let mut z2 = r.range(-10.0, 10.0) as Float;
                    if z1 > z2 && !r.chance(0.05) { std::mem::swap(&mut z1, &mut z2); }
                    let ph = if r.chance(0.03) { -5.0 } else { phi(&mut r) };
                    let t = rand_opt_tr(&mut r);
                    cyl_case(&mut sink, &mut r, rad, z1, z2, ph, t);
                }
            }
        }
    }
    sink.flush();
}

pub fn replay(args: &[String]) {
    // args: kind, op, input bit patterns.  Re-runs the crate on the inputs; hits are regenerated with a fixed seed.
    let kind: usize = args[0].parse().unwrap();
    let op: usize = args[1].parse().unwrap();
    let v: Vec<Float> = args[2..].iter().map(|s| Float::from_bits(s.parse().unwrap())).collect();
    let mut sink = Sink::new32("/dev/null", "C15", 1);
    let mut r = Rng::new(0xC15);
    match kind {
        0 => push(&mut sink, 0, op, &v, &box_apply(op, &v), ""),
        1 => {
            let t = from_mats(&v[0..32]);
            let bb = BBox3D::new(p3(&v[32..]), p3(&v[35..]));
            let o = if op == 0 { t.transform_bbox(bb) } else { t.inv_transform_bbox(bb) };
            push(&mut sink, 1, op, &v, &bbv(&o), "");
        }
        2 => tri_case(&mut sink, &mut r, &v),
        3 => {
            let t = if op == 0 && v[4] != 0.0 { Some(from_mats(&v[5..37])) } else { None };
            sphere_case(&mut sink, &mut r, op, v[0], v[1], v[2], v[3], t);
        }
        _ => {
            if op == 0 {
                let t = if v[4] != 0.0 { Some(from_mats(&v[5..37])) } else { None };
                cyl_case(&mut sink, &mut r, v[0], v[1], v[2], v[3], t);
            } else {
                cyl_axis_case(&mut sink, &mut r, &v[1..4], &v[4..7], v[0]);
            }
        }
    }
    for j in &sink.json { println!("{}", j); }
}
