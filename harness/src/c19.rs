//! C19: segment, triangle, vector/point predicates and operators, closed-form areas.
//!
//! Four case kinds (first component of the Coq tuple):
//!   0 vec   (op, a b c s)                      -> one vector/point function or operator pack
//!   1 seg   (s.start s.end r.start r.end p)    -> every Segment3D function on the pair
//!   2 tri   (a b c p q r a2 b2 c2)             -> Triangle3D::new and every non-ray function
//!   3 area  (op, ctor arguments, debug flag)   -> sphere / cylinder / disk / box areas
//! Outputs are flattened to floats (bool = 1/0, enums = small integers, Option/Result = tag first).
use crate::util::*;
use geometry3d::{BBox3D, BBoxAxis, Cylinder3D, Disk3D, Point3D, PointInTriangle, Segment3D, Sphere3D, Triangle3D, Vector3D};

type F3 = [f64; 3];
fn b2f(b: bool) -> Float { if b { 1.0 } else { 0.0 } }
fn p3(v: &[Float]) -> Point3D { Point3D::new(v[0], v[1], v[2]) }
fn v3(v: &[Float]) -> Vector3D { Vector3D::new(v[0], v[1], v[2]) }
fn pv(p: Point3D) -> Vec<Float> { vec![p.x, p.y, p.z] }
fn vv(p: Vector3D) -> Vec<Float> { vec![p.x, p.y, p.z] }
fn fl3(a: F3) -> Vec<Float> { vec![a[0] as Float, a[1] as Float, a[2] as Float] }

/* ------------------------------------------------------------------ vector / point functions */
pub const N_VEC_OPS: usize = 21;
/// inputs: a(3) b(3) c(3) s(1)
pub fn vec_apply(op: usize, i: &[Float]) -> Vec<Float> {
    let (a, b, s) = (v3(&i[0..3]), v3(&i[3..6]), i[9]);
    let (pa, pb, pc) = (p3(&i[0..3]), p3(&i[3..6]), p3(&i[6..9]));
    match op {
        0 => vv(a + b),
        1 => vv(a - b),
        2 => vv(a * s),
        3 => vv(a / s),
        4 => vec![a * b],
        5 => vv(a.cross(b)),
        6 => vec![a.length()],
        7 => vec![a.length_squared()],
        8 => { let mut n = a; n.normalize(); let mut o = vv(a.get_normalized()); o.extend(vv(n)); o }
        9 => vec![b2f(a.is_zero())],
        10 => vec![b2f(a.compare(b))],
        11 => vec![b2f(a.is_parallel(b))],
        12 => vec![b2f(a.is_same_direction(b))],
        13 => match a.get_perpendicular() { Ok(w) => { let mut o = vec![1.0]; o.extend(vv(w)); o } Err(_) => vec![0.0, 0.0, 0.0, 0.0] },
        14 => vv(-a),
        15 => vv(a.abs()),
        16 => vec![pa.squared_distance(pb)],
        17 => vec![pa.distance(pb)],
        18 => match pa.is_collinear(pb, pc) { Ok(x) => vec![1.0, b2f(x)], Err(_) => vec![0.0, 0.0] },
        19 => {
            // the Point3D forms of the operators and predicates
            let mut o = pv(pa + b);
            o.extend(vv(pa - pb));
            o.extend(pv(pa - b));
            o.extend(pv(pa * s));
            o.extend(pv(pa / s));
            o.extend(pv(pa + pb));
            o.push(pa * pb);
            o.push(pa * b);
            o.push(a * pb);
            o.push(b2f(pa.compare(pb)));
            o.push(b2f(pa.is_zero()));
            o.extend(pv(a.as_point3d()));
            o.extend(vv(Vector3D::from(pa)));
            o.extend(pv(Point3D::from(a)));
            o
        }
        20 => {
            // the in-place forms
            let mut o = vec![];
            let mut x = a; x += b; o.extend(vv(x));
            let mut x = a; x -= b; o.extend(vv(x));
            let mut x = a; x *= s; o.extend(vv(x));
            let mut x = a; x /= s; o.extend(vv(x));
            let mut y = pa; y += pb; o.extend(pv(y));
            let mut y = pa; y += b; o.extend(pv(y));
            let mut y = pa; y -= b; o.extend(pv(y));
            let mut y = pa; y *= s; o.extend(pv(y));
            let mut y = pa; y /= s; o.extend(pv(y));
            o
        }
        _ => unreachable!(),
    }
}

/* ------------------------------------------------------------------ segments */
fn opt2(o: Option<(Float, Float)>) -> Vec<Float> {
    match o { Some((a, b)) => vec![1.0, a, b], None => vec![0.0, 0.0, 0.0] }
}
fn resb(o: Result<bool, String>) -> Vec<Float> {
    match o { Ok(b) => vec![1.0, b2f(b)], Err(_) => vec![0.0, 0.0] }
}
/// inputs: s.start s.end r.start r.end p  (15 floats).
/// layout of the output (offsets): gip 0..3, gip reversed 3..6, intersect 6..10, touches 10..14, contains 14..16,
/// compare 16, contains_point 17..19, midpoint 19..22, length 22, as_vector 23..26, as_reversed 26..29, r.length 29
pub fn seg_apply(i: &[Float]) -> Vec<Float> {
    let s = Segment3D::new(p3(&i[0..3]), p3(&i[3..6]));
    let r = Segment3D::new(p3(&i[6..9]), p3(&i[9..12]));
    let p = p3(&i[12..15]);
    let mut o = opt2(s.get_intersection_pt(&r));
    o.extend(opt2(r.get_intersection_pt(&s)));
    let mut out = Point3D::new(0., 0., 0.);
    let b = s.intersect(&r, &mut out);
    o.push(b2f(b)); o.extend(pv(out));
    let mut out = Point3D::new(0., 0., 0.);
    let b = s.touches(&r, &mut out);
    o.push(b2f(b)); o.extend(pv(out));
    o.extend(resb(s.contains(&r)));
    o.push(b2f(s.compare(&r)));
    o.extend(resb(s.contains_point(p)));
    o.extend(pv(s.midpoint()));
    o.push(s.length());
    o.extend(vv(s.as_vector3d()));
    o.extend(vv(s.as_reversed_vector3d()));
    o.push(r.length);
    debug_assert!(s.start() == s.start && s.end() == s.end);
    o
}

/* ------------------------------------------------------------------ triangles */
fn pit(x: PointInTriangle) -> Float {
    match x {
        PointInTriangle::VertexA => 0.0, PointInTriangle::VertexB => 1.0, PointInTriangle::VertexC => 2.0,
        PointInTriangle::EdgeAB => 3.0, PointInTriangle::EdgeBC => 4.0, PointInTriangle::EdgeAC => 5.0,
        PointInTriangle::Inside => 6.0, PointInTriangle::Outside => 7.0,
    }
}
fn tri_class(r: &Result<Result<Triangle3D, String>, String>) -> Float {
    match r {
        Ok(Ok(_)) => 0.0,
        Ok(Err(m)) => if m.contains("two equal") { 10.0 } else if m.contains("collinear") { 11.0 } else { 12.0 },
        Err(_) => 99.0,
    }
}
fn opti(o: Option<usize>) -> Vec<Float> {
    match o { Some(k) => vec![1.0, k as Float], None => vec![0.0, 0.0] }
}
/// inputs: a b c p q r a2 b2 c2 (27 floats).
/// output: class; then (class = 0 only) area 1, normal 2..5, circumradius 5, circumcenter 6..9, aspect 9, centroid 10..13,
/// test_point 13, edge-from-points 14..16, edge-from-segment 16..18, has_vertex 18, compare 19..21, vertex(0..=3) 21..37,
/// edge lengths 37..40, segment(3) is Err 40, bounds() min / max 41..47
pub fn tri_apply(i: &[Float]) -> Vec<Float> {
    let (a, b, c) = (p3(&i[0..3]), p3(&i[3..6]), p3(&i[6..9]));
    let (p, q, r) = (p3(&i[9..12]), p3(&i[12..15]), p3(&i[15..18]));
    let (a2, b2, c2) = (p3(&i[18..21]), p3(&i[21..24]), p3(&i[24..27]));
    let t = catch(move || Triangle3D::new(a, b, c));
    let mut o = vec![tri_class(&t)];
    let t = match t { Ok(Ok(t)) => t, _ => return o };
    o.push(t.area());
    o.extend(vv(t.normal()));
    o.push(t.circumradius());
    o.extend(pv(t.circumcenter()));
    o.push(t.aspect_ratio());
    o.extend(pv(t.centroid()));
    o.push(pit(t.test_point(p)));
    o.extend(opti(t.get_edge_index_from_points(q, r)));
    o.extend(opti(t.get_edge_index_from_segment(&Segment3D::new(q, r))));
    o.push(b2f(t.has_vertex(p)));
    let t2 = catch(move || Triangle3D::new(a2, b2, c2));
    match t2 { Ok(Ok(t2)) => { o.push(1.0); o.push(b2f(t.compare(&t2))); } _ => { o.push(0.0); o.push(0.0); } }
    for k in 0..4 {
        match t.vertex(k) { Ok(v) => { o.push(1.0); o.extend(pv(v)); } Err(_) => o.extend(vec![0.0; 4]) }
    }
    o.push(t.ab().length()); o.push(t.bc().length()); o.push(t.ca().length());
    o.push(b2f(t.segment(3).is_err() && t.segment(0).unwrap().length() == t.ab().length()
        && t.segment(1).unwrap().length() == t.bc().length() && t.segment(2).unwrap().length() == t.ca().length()
        && t.a() == a && t.b() == b && t.c() == c));
    // Triangle3D::bounds(): min, max (Model/Triangle.v: tri_bounds)
    let bb = t.bounds();
    o.extend(pv(bb.min)); o.extend(pv(bb.max));
    o
}

/* ------------------------------------------------------------------ areas */
pub const N_AREA_OPS: usize = 7;
fn area_res(r: Result<Float, String>) -> Vec<Float> {
    match r { Ok(a) => vec![1.0, a], Err(_) => vec![0.0, 0.0] }
}
/// inputs (14 floats; unused ones 0): see each arm.  The last input is the debug-assertions flag of this build.
pub fn area_apply(op: usize, i: &[Float]) -> Vec<Float> {
    let i: Vec<Float> = i.to_vec();
    match op {
        // sphere: radius, centre(3), zmin, zmax, phi_max(deg)
        0 => area_res(catch(move || Sphere3D::new_partial(i[0], p3(&i[1..4]), i[4], i[5], i[6]).area())),
        1 => area_res(catch(move || Sphere3D::new(i[0], p3(&i[1..4])).area())),
        // cylinder: radius, zmin, zmax, phi_max   |   p0, p1, radius, phi_max
        2 => area_res(catch(move || Cylinder3D::new_transformed(i[0], i[1], i[2], i[3], None).area())),
        3 => area_res(catch(move || Cylinder3D::new_partial(p3(&i[0..3]), p3(&i[3..6]), i[6], i[7]).area())),
        // disk: centre(3), normal(3), radius, inner_radius, phi_zero(3), phi_max
        4 => area_res(catch(move || Disk3D::new_detailed(p3(&i[0..3]), v3(&i[3..6]), i[6], i[7], v3(&i[8..11]), i[11], None).area())),
        5 => area_res(catch(move || Disk3D::new(p3(&i[0..3]), v3(&i[3..6]), i[6]).area())),
        // box: two corners -> surface_area, max_extent, min, max
        6 => {
            let b = BBox3D::new(p3(&i[0..3]), p3(&i[3..6]));
            let mut o = vec![b.surface_area(), match b.max_extent() { BBoxAxis::X => 0.0, BBoxAxis::Y => 1.0, BBoxAxis::Z => 2.0 }];
            o.extend(pv(b.min)); o.extend(pv(b.max));
            o
        }
        _ => unreachable!(),
    }
}

/* ------------------------------------------------------------------ generators */
fn add(a: F3, b: F3) -> F3 { [a[0] + b[0], a[1] + b[1], a[2] + b[2]] }
fn sub(a: F3, b: F3) -> F3 { [a[0] - b[0], a[1] - b[1], a[2] - b[2]] }
fn mul(a: F3, s: f64) -> F3 { [a[0] * s, a[1] * s, a[2] * s] }
fn dot(a: F3, b: F3) -> f64 { a[0] * b[0] + a[1] * b[1] + a[2] * b[2] }
fn cross(a: F3, b: F3) -> F3 { [a[1] * b[2] - a[2] * b[1], a[2] * b[0] - a[0] * b[2], a[0] * b[1] - a[1] * b[0]] }
fn norm(a: F3) -> F3 { let l = dot(a, a).sqrt(); mul(a, 1.0 / l) }

fn unit(r: &mut Rng) -> F3 {
    loop {
        let v = [r.range(-1.0, 1.0), r.range(-1.0, 1.0), r.range(-1.0, 1.0)];
        let l = dot(v, v);
        if l > 0.01 && l <= 1.0 { return norm(v); }
    }
}
/// an orthonormal frame (u, v, n): axis aligned (any permutation and signs) one time in three, else random
/// (f32 build: four times in five -- finding F15: the crate's absolute 1e-7 coplanarity / collinearity tolerances are below the
/// binary32 rounding noise of an oblique metre-scale configuration, which would push nearly every case onto the "not coplanar" paths)
fn frame(r: &mut Rng) -> (F3, F3, F3) {
    if r.chance(if cfg!(feature = "float") { 0.8 } else { 0.34 }) {
        let e = [[1.0, 0.0, 0.0], [0.0, 1.0, 0.0], [0.0, 0.0, 1.0]];
        let k = r.below(3) as usize;
        let sg = |r: &mut Rng| if r.chance(0.5) { 1.0 } else { -1.0 };
        let u = mul(e[k], sg(r));
        let v = mul(e[(k + 1 + r.below(2) as usize) % 3], sg(r));
        (u, v, cross(u, v))
    } else {
        let n = unit(r);
        let mut t = unit(r);
        while dot(t, n).abs() > 0.9 { t = unit(r); }
        let u = norm(cross(n, t));
        let v = cross(n, u);
        (u, v, n)
    }
}
/// metre-scale origin: the origin itself, or up to +-10 / +-1000
fn origin(r: &mut Rng) -> F3 {
    match r.below(4) {
        0 => [0.0, 0.0, 0.0],
        1 => [r.range(-1000.0, 1000.0) * OSC, r.range(-1000.0, 1000.0) * OSC, r.range(-100.0, 100.0) * OSC],
        _ => [r.range(-10.0, 10.0), r.range(-10.0, 10.0), r.range(-10.0, 10.0)],
    }
}
/// far origins: +-1000 in the f64 build, +-10 in the f32 build (coordinate noise near 1e-6 there)
const OSC: f64 = if cfg!(feature = "float") { 0.01 } else { 1.0 };
/// the working precision's EPSILON and unit roundoff as f64 (f64 build: f64::EPSILON, 2^-53 = 1.1102230246251565e-16)
const FEPS: f64 = Float::EPSILON as f64;
const HALF_ULP: f64 = FEPS / 2.0;
fn len(r: &mut Rng) -> f64 {
    match r.below(8) { 0 => r.range(0.01, 0.1), 1 => r.range(10.0, 50.0), _ => r.range(0.1, 10.0) }
}
/// 1e-16-level noise: a few ulps of a metre-scale coordinate
fn noise(r: &mut Rng) -> f64 {
    match r.below(4) { 0 => 0.0, _ => (r.below(41) as f64 - 20.0) * HALF_ULP * *r.pick(&[0.5, 1.0, 2.0, 8.0, 64.0]) }
}
fn noisy(r: &mut Rng, p: F3) -> F3 { [p[0] + noise(r), p[1] + noise(r), p[2] + noise(r)] }
/// k steps to the neighbouring number of the working precision (the value is rounded to `Float` first: identity in the f64 build)
fn nudge(x: f64, k: i64) -> f64 {
    let mut y = x as Float;
    for _ in 0..k.abs() {
        y = if y == 0.0 { if k > 0 { Float::from_bits(1) } else { -Float::from_bits(1) } }
            else if (k > 0) == (y > 0.0) { Float::from_bits(y.to_bits() + 1) } else { Float::from_bits(y.to_bits() - 1) };
    }
    y as f64
}
fn grid(r: &mut Rng) -> F3 {
    [(r.below(65) as f64 - 32.0) / 4.0, (r.below(65) as f64 - 32.0) / 4.0, (r.below(65) as f64 - 32.0) / 4.0]
}

/// a pair of segments; returns (label, [s.start, s.end, r.start, r.end])
fn rand_seg_pair(r: &mut Rng) -> (&'static str, [F3; 4]) {
    let (u, v, n) = frame(r);
    let o = origin(r);
    let inplane = |r: &mut Rng| -> F3 {
        let t = r.range(0.0, 6.283185307179586);
        let l = len(r);
        add(mul(u, l * t.cos()), mul(v, l * t.sin()))
    };
    // the two supporting lines meet at x with parameters ta, tb
    let par = |r: &mut Rng| -> f64 {
        match r.below(12) {
            0 => 0.0, 1 => 1.0, 2 => 0.5,
            3 => *r.pick(&[1e-8, 1.0 - 1e-8, 2e-8, 0.5e-8, 1e-9, 1.0 - 1e-9, -1e-9, 1.0 + 1e-9, 1e-12, -1e-12]),
            4 => r.range(-1.0, 2.0),
            5 => nudge(*r.pick(&[1e-8, 1.0 - 1e-8, 1.0]), r.below(9) as i64 - 4),
            _ => r.range(0.02, 0.98),
        }
    };
    let x = add(o, add(mul(u, r.range(-5.0, 5.0)), mul(v, r.range(-5.0, 5.0))));
    let a = inplane(r);
    let mut b = inplane(r);
    let (ta, tb) = (par(r), par(r));
    let cls = r.below(20);
    let mk = |x: F3, a: F3, b: F3, ta: f64, tb: f64| -> [F3; 4] {
        let s0 = sub(x, mul(a, ta));
        let r0 = sub(x, mul(b, tb));
        [s0, add(s0, a), r0, add(r0, b)]
    };
    match cls {
        0..=4 => ("coplanar", mk(x, a, b, ta, tb)),
        5..=8 => {
            // skew: the second segment lifted off the plane by h along the normal, all distances
            let h = match r.below(6) {
                0 => r.logmag(-17.0, -12.0), 1 => r.logmag(-12.0, -6.0), 2 => r.logmag(-6.0, -2.0),
                3 => r.logmag(-2.0, 0.0), 4 => r.range(-10.0, 10.0), _ => r.logmag(-9.0, 1.0),
            };
            let mut q = mk(x, a, b, ta, tb);
            q[2] = add(q[2], mul(n, h)); q[3] = add(q[3], mul(n, h));
            ("skew", q)
        }
        9 => {
            // skew, generic: the second segment also tilted out of the plane
            let mut q = mk(x, a, b, ta, tb);
            q[2] = add(q[2], mul(n, r.range(-3.0, 3.0))); q[3] = add(q[3], mul(n, r.range(-3.0, 3.0)));
            ("skew-tilted", q)
        }
        10 | 11 => {
            // parallel / antiparallel / nearly parallel, offset sideways or not
            let k = match r.below(3) { 0 => r.range(0.1, 3.0), 1 => -r.range(0.1, 3.0), _ => 1.0 };
            b = mul(a, k);
            if r.chance(0.4) {
                let w = cross(n, norm(a));
                b = add(b, mul(w, r.logmag(-9.0, -1.0)));
            }
            let off = match r.below(3) { 0 => 0.0, 1 => r.logmag(-8.0, 0.5), _ => r.range(-2.0, 2.0) };
            let w = if r.chance(0.5) { cross(n, norm(a)) } else { n };
            let s0 = sub(x, mul(a, ta));
            let r0 = add(add(s0, mul(a, r.range(-1.5, 1.5))), mul(w, off));
            ("parallel", [s0, add(s0, a), r0, add(r0, b)])
        }
        12 | 13 => {
            // collinear, overlapping or not, contained or not (Segment3D::contains)
            let s0 = sub(x, mul(a, ta));
            let (al, be) = (*r.pick(&[0.0, 1.0, 0.25, 0.5, -0.25, 1.25]), if r.chance(0.5) { r.range(-0.5, 1.5) } else { *r.pick(&[0.0, 1.0, 0.75]) });
            let (mut r0, mut r1) = (add(s0, mul(a, al)), add(s0, mul(a, be)));
            if r.chance(0.3) { let w = mul(cross(n, norm(a)), r.logmag(-9.0, -3.0)); r0 = add(r0, w); r1 = sub(r1, w); }
            ("collinear", [s0, add(s0, a), r0, r1])
        }
        14 | 15 => {
            // common end points (bitwise equal), otherwise generic and coplanar by construction
            let p = x;
            let (e1, e2) = (add(p, a), add(p, b));
            match r.below(4) {
                0 => ("common-start", [p, e1, p, e2]),
                1 => ("common-end-start", [e1, p, p, e2]),
                2 => ("common-start-end", [p, e1, e2, p]),
                _ => ("common-end", [e1, p, e2, p]),
            }
        }
        16 => {
            // T contact: an end point of one segment lies inside the other
            let t = r.range(0.05, 0.95);
            if r.chance(0.5) { ("t-contact", mk(x, a, b, t, *r.pick(&[0.0, 1.0]))) } else { ("t-contact", mk(x, a, b, *r.pick(&[0.0, 1.0]), t)) }
        }
        17 => {
            // small-integer grid: every quantity exactly representable
            let (p, q, s, t) = (grid(r), grid(r), grid(r), grid(r));
            if r.chance(0.5) { ("grid", [p, q, s, t]) } else {
                // coplanar grid pair: all four in a coordinate plane
                let k = r.below(3) as usize; let c = (r.below(9) as f64 - 4.0) / 2.0;
                let f = |mut w: F3| { w[k] = c; w };
                ("grid", [f(p), f(q), f(s), f(t)])
            }
        }
        18 => {
            // short edges meeting at a small angle: the absolute parallelism tolerance
            let l1 = r.range(0.01, 0.3); let l2 = r.range(0.01, 0.3);
            let t = r.range(0.0, 6.283185307179586); let dt = r.logmag(-3.0, 0.0);
            let a = add(mul(u, l1 * t.cos()), mul(v, l1 * t.sin()));
            let b = add(mul(u, l2 * (t + dt).cos()), mul(v, l2 * (t + dt).sin()));
            ("short", mk(x, a, b, r.range(0.1, 0.9), r.range(0.1, 0.9)))
        }
        _ => ("random", [add(o, mul(unit(r), len(r))), add(o, mul(unit(r), len(r))), add(o, mul(unit(r), len(r))), add(o, mul(unit(r), len(r)))]),
    }
}
/// decision-boundary pairs: unit segments along two coordinate axes, placed so that the parameters computed by the
/// code are EXACTLY the chosen values (0, 1, 1e-8, 1 - 1e-8 and their neighbours): t_a = x0, t_b = y0
fn boundary_seg_pair(r: &mut Rng) -> [F3; 4] {
    let e8: f64 = 1e-8; let one_m: f64 = 1.0 - 1e-8;
    let ta = nudge(*r.pick(&[0.0, 1.0, 1.0, 0.5, e8, one_m]), r.below(5) as i64 - 2);
    let tb = nudge(*r.pick(&[0.0, 1.0, e8, e8, one_m, one_m, 0.5]), r.below(5) as i64 - 2);
    let ta = if r.chance(0.1) { -0.0 } else { ta };
    let q = [[0.0, tb, 0.0], [1.0, tb, 0.0], [ta, 0.0, 0.0], [ta, 1.0, 0.0]];
    // cyclic permutation of the axes: exercises the three projection branches
    let k = r.below(3) as usize;
    let pm = |v: F3| -> F3 { [v[(3 - k) % 3], v[(4 - k) % 3], v[(5 - k) % 3]] };
    [pm(q[0]), pm(q[1]), pm(q[2]), pm(q[3])]
}
fn seg_inputs(r: &mut Rng) -> (&'static str, Vec<Float>) {
    if r.chance(0.07) {
        let q = boundary_seg_pair(r);
        let mut i = vec![];
        for k in 0..4 { i.extend(fl3(q[k])); }
        i.extend(fl3(q[0]));
        return ("boundary", i);
    }
    let (label, mut q) = rand_seg_pair(r);
    if !label.starts_with("common") && label != "grid" && r.chance(0.5) {
        // 1e-16-level noise in every component (in particular the minor ones of axis-aligned segments)
        for k in 0..4 { q[k] = noisy(r, q[k]); }
    }
    // a query point for contains_point: on the first segment's line (inside, outside, at the ends), near it, or anywhere
    let a = sub(q[1], q[0]);
    let t = match r.below(8) { 0 => 0.0, 1 => 1.0, 2 => r.range(-1.0, 0.0), 3 => r.range(1.0, 2.0), _ => r.range(0.0, 1.0) };
    let mut p = add(q[0], mul(a, t));
    match r.below(6) {
        0 => p = add(p, mul(unit(r), r.logmag(-9.0, -3.0))),
        1 => p = add(p, mul(unit(r), r.range(0.0, 1.0))),
        2 => p = noisy(r, p),
        _ => {}
    }
    let mut i = vec![];
    for k in 0..4 { i.extend(fl3(q[k])); }
    i.extend(fl3(p));
    (label, i)
}

/// decision-boundary triangles: the unit right triangle in a coordinate plane and a query point whose computed
/// barycentric coordinates are EXACTLY +-100 eps (or a neighbour): alpha = x, beta = y, w = 1 - x - y
fn boundary_tri(r: &mut Rng) -> Vec<Float> {
    let tiny = 100.0 * FEPS;
    let b = |r: &mut Rng| nudge(*r.pick(&[tiny, -tiny]), r.below(5) as i64 - 2);
    let (x, y) = match r.below(6) {
        0 => (b(r), 0.25), 1 => (0.25, b(r)), 2 => (0.5, 0.5 - b(r)), 3 => (b(r), b(r)),
        4 => (b(r), 1.0 - b(r)), _ => (1.0 - b(r), b(r)),
    };
    let k = r.below(3) as usize;
    let pm = |v: F3| -> F3 { [v[(3 - k) % 3], v[(4 - k) % 3], v[(5 - k) % 3]] };
    let (a, bb, c, p) = (pm([0.0, 0.0, 0.0]), pm([1.0, 0.0, 0.0]), pm([0.0, 1.0, 0.0]), pm([x, y, 0.0]));
    let mut i = vec![];
    for v in [a, bb, c, p, a, bb, c, a, bb] { i.extend(fl3(v)); }
    i
}
fn tri_inputs(r: &mut Rng) -> (&'static str, Vec<Float>) {
    if r.chance(0.07) { return ("boundary", boundary_tri(r)); }
    let (u, v, n) = frame(r);
    let o = origin(r);
    let pl = |x: f64, y: f64| add(o, add(mul(u, x), mul(v, y)));
    let sc = len(r);
    let (mut a, mut b, mut c) = (pl(r.range(-1.0, 1.0) * sc, r.range(-1.0, 1.0) * sc), pl(r.range(-1.0, 1.0) * sc, r.range(-1.0, 1.0) * sc), pl(r.range(-1.0, 1.0) * sc, r.range(-1.0, 1.0) * sc));
    let mut label = "generic";
    match r.below(16) {
        0 => { b = add(a, mul(unit(r), r.logmag(-7.0, -4.0))); label = "two-equal"; }
        1 => { c = add(add(a, mul(sub(b, a), r.range(-1.0, 2.0))), mul(unit(r), r.logmag(-9.0, -3.0))); label = "collinear"; }
        2 => { a = grid(r); b = grid(r); c = grid(r); label = "grid"; }
        3 => { let k = r.below(3) as usize; let h = (r.below(9) as f64 - 4.0) / 2.0; a = grid(r); b = grid(r); c = grid(r); a[k] = h; b[k] = h; c[k] = h; label = "grid"; }
        4 => { c = add(add(a, mul(sub(b, a), r.range(0.1, 0.9))), mul(cross(n, norm(sub(b, a))), r.logmag(-4.0, -1.0))); label = "needle"; }
        5 => { c = b; label = "two-equal"; }
        _ => {}
    }
    // the query point: barycentric coordinates (al, be) of its projection, then lifted by h off the plane
    let e1 = sub(b, a); let e2 = sub(c, a);
    let tiny = 100.0 * FEPS;
    let band = |r: &mut Rng| -> f64 { (if r.chance(0.5) { tiny } else { -tiny }) + (r.below(21) as f64 - 10.0) * 1e-16 * FSCALE };
    let (al, be, what): (f64, f64, &'static str) = match r.below(16) {
        0 => (0.0, 0.0, "vertex"), 1 => (1.0, 0.0, "vertex"), 2 => (0.0, 1.0, "vertex"),
        3 => (r.range(0.01, 0.99), 0.0, "edge"),
        4 => (0.0, r.range(0.01, 0.99), "edge"),
        5 => { let t = r.range(0.01, 0.99); (t, 1.0 - t, "edge") }
        6 => { let t = *r.pick(&[0.25, 0.5, 0.75]); *r.pick(&[(t, 0.0, "edge"), (0.0, t, "edge"), (t, 1.0 - t, "edge")]) }
        7 => (band(r), r.range(0.1, 0.8), "band"),
        8 => (r.range(0.1, 0.8), band(r), "band"),
        9 => { let t = r.range(0.1, 0.8); (t, 1.0 - t + band(r), "band") }
        10 => (band(r), band(r), "band"),
        11 | 12 => (r.range(-1.0, 2.0), r.range(-1.0, 2.0), "anywhere"),
        _ => { let (s, t) = (r.f01(), r.f01()); if s + t <= 1.0 { (s, t, "inside") } else { (1.0 - s, 1.0 - t, "inside") } }
    };
    // grid triangles: quarter-valued coordinates, so that p is exactly representable and every dot product exact
    let (al, be, what) = if label == "grid" && what != "vertex" {
        let qv = |r: &mut Rng| (r.below(9) as f64 - 2.0) / 4.0;
        let (x, y) = (qv(r), qv(r));
        match r.below(4) { 0 => (x, 0.0, "edge"), 1 => (0.0, y, "edge"), 2 => (x, 1.0 - x, "edge"), _ => (x, y, "anywhere") }
    } else { (al, be, what) };
    let mut p = if what == "vertex" { if al == 1.0 { b } else if be == 1.0 { c } else { a } } else { add(a, add(mul(e1, al), mul(e2, be))) };
    if label != "grid" && r.chance(0.15) { p = add(p, mul(n, r.logmag(-12.0, 0.0))); }
    // q, r: an edge of the triangle (either order, maybe perturbed), or unrelated points
    let vs = [a, b, c];
    let k = r.below(3) as usize;
    let (mut q, mut w) = if r.chance(0.5) { (vs[k], vs[(k + 1) % 3]) } else { (vs[(k + 1) % 3], vs[k]) };
    match r.below(5) { 0 => q = add(q, mul(unit(r), r.logmag(-7.0, -3.0))), 1 => w = p, _ => {} }
    // second triangle: a permutation of the first (maybe perturbed) or another one
    let perm = *r.pick(&[[0, 1, 2], [1, 2, 0], [2, 0, 1], [0, 2, 1], [2, 1, 0], [1, 0, 2]]);
    let (mut a2, b2, mut c2) = (vs[perm[0]], vs[perm[1]], vs[perm[2]]);
    match r.below(4) { 0 => a2 = add(a2, mul(unit(r), r.logmag(-7.0, -3.0))), 1 => c2 = p, _ => {} }
    let mut i = vec![];
    for x in [a, b, c, p, q, w, a2, b2, c2] { i.extend(fl3(x)); }
    let _ = what;
    (label, i)
}

fn vec_inputs(r: &mut Rng, op: usize) -> Vec<Float> {
    let tiny = 100.0 * FEPS;
    let comp = |r: &mut Rng| -> f64 {
        match r.below(12) {
            0 => 0.0, 1 => *r.pick(&[1.0, -1.0, 0.5, 2.0, -0.0]),
            2 => nudge(*r.pick(&[tiny, -tiny, FEPS, -FEPS, 1e-5, -1e-5]), r.below(7) as i64 - 3),
            3 => r.logmag(-17.0, -12.0), 4 => r.logmag(-8.0, -3.0), 5 => r.logmag(0.0, 3.0),
            _ => r.range(-10.0, 10.0),
        }
    };
    let mut a = [comp(r), comp(r), comp(r)];
    let mut b = [comp(r), comp(r), comp(r)];
    let mut c = [comp(r), comp(r), comp(r)];
    let s = match r.below(6) { 0 => 0.0, 1 => *r.pick(&[1.0, -1.0, 0.5, 2.0]), _ => comp(r) };
    match op {
        10 | 16 | 17 => if r.chance(0.6) {
            // compare: differences around the 1e-5 threshold
            for k in 0..3 { b[k] = a[k] + match r.below(4) { 0 => 0.0, 1 => nudge(1e-5, r.below(5) as i64 - 2), 2 => r.logmag(-7.0, -4.0), _ => r.logmag(-6.0, -4.5) }; }
        },
        11 | 12 => match r.below(5) {
            0 => { let k = r.logmag(-2.0, 2.0); b = mul(a, k); }
            1 => {
                // |a x b|^2 around 1e-5
                let (u, v, _) = frame(r); let (la, lb) = (r.range(0.05, 5.0), r.range(0.05, 5.0));
                let sin = (1e-5f64).sqrt() / (la * lb) * r.range(0.9, 1.1);
                if sin < 1.0 { a = mul(u, la); let cs = (1.0 - sin * sin).sqrt() * if r.chance(0.5) { 1.0 } else { -1.0 }; b = add(mul(u, lb * cs), mul(v, lb * sin)); }
            }
            2 => { let (u, v, _) = frame(r); a = mul(u, len(r)); let t = r.logmag(-6.0, 0.5); b = mul(add(mul(u, t.cos()), mul(v, t.sin())), len(r) * if r.chance(0.5) { 1.0 } else { -1.0 }); }
            _ => {}
        },
        13 => if r.chance(0.3) { a = mul(unit(r), len(r)); },
        18 => match r.below(6) {
            0 => { b = add(a, mul(unit(r), r.logmag(-7.0, -4.0))); c = add(a, mul(unit(r), r.logmag(-7.0, -4.0))); }
            1 => { b = add(a, mul(unit(r), r.logmag(-7.0, -4.0))); }
            2 | 3 => {
                // |ab x bc| = distance x length around 1e-5
                let (u, v, _) = frame(r); let o = origin(r); let l = len(r);
                let d = 1e-5 / l * r.range(0.5, 1.5);
                a = o; b = add(o, mul(u, l));
                c = add(add(b, mul(u, r.range(-2.0, 2.0) * l)), mul(v, d));
            }
            4 => { let o = origin(r); let w = mul(unit(r), len(r)); a = o; b = add(o, w); c = add(o, mul(w, r.range(-2.0, 3.0))); }
            _ => {}
        },
        _ => {}
    }
    let mut i = fl3(a); i.extend(fl3(b)); i.extend(fl3(c)); i.push(s as Float);
    i
}

fn area_inputs(r: &mut Rng, op: usize) -> Vec<Float> {
    let rad = |r: &mut Rng| -> f64 { match r.below(10) { 0 => 0.0, 1 => -r.range(0.1, 2.0), 2 => 1.0, _ => r.range(0.05, 10.0) } };
    let phi = |r: &mut Rng| -> f64 {
        match r.below(10) {
            0 => 360.0, 1 => 0.0, 2 => *r.pick(&[90.0, 180.0, 270.0, 45.0]),
            #[cfg(not(feature = "float"))]
            3 => *r.pick(&[360.0 + 1e-13, -1e-17, -1e-13, 361.0, -1.0, 360.00000000000006, -2.220446049250313e-16, -2.3e-16]),
            // (f32 build: the same ladder in binary32 terms: 360 + 1 ulp32, 360 + 2 ulp32, -EPSILON)
            #[cfg(feature = "float")]
            3 => *r.pick(&[360.00003, -1e-9, -1e-6, 361.0, -1.0, 360.00006, -1.1920929e-7, -1.3e-7]),
            _ => r.range(0.0, 360.0),
        }
    };
    let pt = |r: &mut Rng| -> F3 { if r.chance(0.3) { [0.0, 0.0, 0.0] } else { origin(r) } };
    let mut i: Vec<f64> = vec![];
    match op {
        0 => { let ra = rad(r); i.push(ra); i.extend(pt(r)); let z0 = r.range(-1.5, 1.5) * ra.abs().max(0.1); let z1 = if r.chance(0.1) { z0 - r.range(0.0, 0.5) } else { z0 + r.range(0.0, 2.0) * ra.abs().max(0.1) }; i.push(z0); i.push(z1); i.push(phi(r)); }
        1 => { i.push(rad(r)); i.extend(pt(r)); }
        2 => { i.push(rad(r)); let z0 = r.range(-5.0, 5.0); i.push(z0); i.push(match r.below(8) { 0 => z0, 1 => z0 - r.range(0.0, 1.0), _ => z0 + r.range(0.0, 10.0) }); i.push(phi(r)); }
        3 => { let p0 = pt(r); i.extend(p0); let p1 = match r.below(8) { 0 => p0, 1 => add(p0, [0.0, 0.0, r.range(-3.0, 3.0)]), 2 => add(p0, [r.range(-3.0, 3.0), 0.0, 0.0]), _ => add(p0, mul(unit(r), len(r))) }; i.extend(p1); i.push(rad(r)); i.push(phi(r)); }
        4 => {
            i.extend(pt(r));
            let (u, _, n) = frame(r);
            let nn = mul(n, if r.chance(0.5) { 1.0 } else { r.range(0.1, 5.0) });
            i.extend(nn);
            let ra = rad(r); i.push(ra);
            i.push(match r.below(6) { 0 => 0.0, 1 => ra, 2 => ra + 0.1, 3 => -0.1, _ => r.range(0.0, 1.0) * ra.abs() });
            let pz = match r.below(6) { 0 => nn, 1 => mul(nn, -2.0), 2 => add(u, mul(n, r.range(-1.0, 1.0))), 3 => unit(r), _ => u };
            i.extend(pz);
            i.push(phi(r));
        }
        5 => { i.extend(pt(r)); i.extend(match r.below(6) { 0 => [0.0, 0.0, 0.0], 1 => [0.0, 0.0, 1.0], 2 => [0.0, 1e-14, 0.0], _ => mul(unit(r), len(r)) }); i.push(rad(r)); }
        _ => { let a = origin(r); i.extend(a); let d = [r.range(-3.0, 3.0), match r.below(4) { 0 => 0.0, _ => r.range(-3.0, 3.0) }, r.range(-3.0, 3.0)]; i.extend(if r.chance(0.2) { let e = r.range(0.1, 3.0); add(a, [e, e, if r.chance(0.5) { e } else { r.range(0.0, 3.0) }]) } else { add(a, d) }); }
    }
    while i.len() < 13 { i.push(0.0); }
    i.push(if cfg!(debug_assertions) { 1.0 } else { 0.0 });
    i.iter().map(|x| *x as Float).collect()
}

/* ------------------------------------------------------------------ corpus: the recorded findings, first */
fn corpus_seg() -> Vec<(&'static str, Vec<Float>)> {
    let f = |v: [f64; 15]| -> Vec<Float> { v.iter().map(|x| *x as Float).collect() };
    vec![
        // F5 (fixed by ec384e6; regression witness): one unit apart, was reported as crossing at (0.5, 0, 0)
        ("corpus-skew", f([0., 0., 0., 1., 0., 0., 0.5, -1., 1., 0.5, 1., 1., 0.5, 0., 0.])),
        // F5 (fixed by ec384e6; regression witness): common start point, was None
        ("corpus-common-start", f([0., 0., 0., 1., 0., 0., 0., 0., 0., 0., 1., 0., 0., 0., 0.])),
        // contains_point parametrised on a noise component
        ("corpus-noise-axis", f([0., 0., 0., 1e-15, 1., 0., 5., 5., 5., 6., 6., 5., 0., 2., 0.])),
        // sub-epsilon noise in the x extent (cos(pi/2) = 6.1e-17): the axis guard must skip x and parametrise on y
        ("corpus-subeps-axis", f([0., 0., 0., 6.123233995736766e-17, 1., 0., 5., 5., 5., 6., 6., 5., 0., 2., 0.])),
        ("corpus-subeps-axis", f([0., 0., 0., 6.123233995736766e-17, 1., 0., 5., 5., 5., 6., 6., 5., 3.0616169978683830e-17, 0.5, 0.])),
        ("corpus-subeps-axis", f([1., 0., 2., 1., -1.2246467991473532e-16, 5., 5., 5., 5., 6., 6., 5., 1., 0., 7.])),
        // F11: short edges at 17 degrees are "parallel"
        ("corpus-short", f([0., 0., 0., 0.05, 0., 0., 0., -0.01, 0., 0.04, 0.01, 0., 0.02, 0., 0.])),
        // degenerate first segment (coverage of the Err exits of contains / contains_point: zero, sub-1e-6 and sub-epsilon length)
        ("corpus-zero-length", f([1., 2., 3., 1., 2., 3., 0., 0., 0., 1., 0., 0., 1., 2., 3.])),
        ("corpus-zero-length", f([1., 2., 3., 1., 2., 3., 0., 0., 0., 1., 0., 0., 2., 2., 3.])),
        ("corpus-zero-length", f([0., 0., 0., 5e-7, 0., 0., 0., 0., 0., 1., 0., 0., 1e-7, 0., 0.])),
        ("corpus-zero-length", f([0., 0., 0., 1e-16, 1e-16, 0., 5., 5., 5., 6., 6., 5., 5e-17, 5e-17, 0.])),
        ("corpus-zero-length", f([0., 0., 0., 1e-16, 1e-16, 0., 5., 5., 5., 6., 6., 5., 0.5, 0.5, 0.])),
        // the unit tests' own fixtures
        ("corpus-unit", f([-1., 0., 0., 1., 0., 0., 0., 0., -1., 0., 0., 1., 0., 0., 0.])),
        ("corpus-unit", f([-1., 0., 1., 1., 0., 1., 0., 0., -1., 0., 0., 1., 0., 0., 1.])),
    ]
}

pub fn run(seed: u64, n: usize, out: &str) {
    // Rng::new(s) and Rng::new(s + k) are the same SplitMix64 stream shifted by k draws: re-seed from one mixed output
    // so that different VERIF_SEEDs give unrelated case sets
    let mut r = Rng::new(Rng::new(seed ^ 0xC19).next());
    // f32 build: runner module C19f32 of Run/C19.v (the same text on the binary32 instance)
    let mut sink = Sink::new32(out, "C19", 250);
    let push_seg = |sink: &mut Sink, label: &str, i: Vec<Float>| {
        let o = seg_apply(&i);
        sink.push(format!("(1%N, 0%N, {}, {})", sfs(&i), sfs(&o)),
                  format!("{{{}\"kind\":\"seg\",\"cls\":\"{}\",\"in\":{},\"out\":{}}}", f32_mark(), label, jfs(&i), jfs(&o)));
    };
    for (label, i) in corpus_seg() { if sink.len() < n { push_seg(&mut sink, label, i); } }
    let mut k = 0usize;
    while sink.len() < n {
        k += 1;
        match k % 10 {
            0 | 1 | 2 | 3 => { let (label, i) = seg_inputs(&mut r); push_seg(&mut sink, label, i); }
            4 | 5 | 6 => {
                let (label, i) = tri_inputs(&mut r);
                let o = tri_apply(&i);
                sink.push(format!("(2%N, 0%N, {}, {})", sfs(&i), sfs(&o)),
                          format!("{{{}\"kind\":\"tri\",\"cls\":\"{}\",\"in\":{},\"out\":{}}}", f32_mark(), label, jfs(&i), jfs(&o)));
            }
            7 | 8 => {
                let op = r.below(N_VEC_OPS as u64) as usize;
                let i = vec_inputs(&mut r, op);
                let o = vec_apply(op, &i);
                sink.push(format!("(0%N, {}%N, {}, {})", op, sfs(&i), sfs(&o)),
                          format!("{{{}\"kind\":\"vec\",\"op\":{},\"in\":{},\"out\":{}}}", f32_mark(), op, jfs(&i), jfs(&o)));
            }
            _ => {
                let op = r.below(N_AREA_OPS as u64) as usize;
                let i = area_inputs(&mut r, op);
                let o = area_apply(op, &i);
                sink.push(format!("(3%N, {}%N, {}, {})", op, sfs(&i), sfs(&o)),
                          format!("{{{}\"kind\":\"area\",\"op\":{},\"in\":{},\"out\":{}}}", f32_mark(), op, jfs(&i), jfs(&o)));
            }
        }
    }
    sink.flush();
}

pub fn replay(args: &[String]) {
    // args: kind, op, input bit patterns
    let kind = args[0].as_str();
    let op: usize = args[1].parse().unwrap();
    let i: Vec<Float> = args[2..].iter().map(|s| Float::from_bits(s.parse().unwrap())).collect();
    let o = match kind { "vec" => vec_apply(op, &i), "seg" => seg_apply(&i), "tri" => tri_apply(&i), _ => area_apply(op, &i) };
    if kind == "vec" || kind == "area" {
        println!("{{{}\"kind\":\"{}\",\"op\":{},\"in\":{},\"out\":{}}}", f32_mark(), kind, op, jfs(&i), jfs(&o));
    } else {
        println!("{{{}\"kind\":\"{}\",\"cls\":\"replay\",\"in\":{},\"out\":{}}}", f32_mark(), kind, jfs(&i), jfs(&o));
    }
}
