//! C17: ApproxFloat::solve_quadratic on coefficient intervals in isolation and as they arise
//! from sphere / cylinder intersection (the a, b, c of sphere3d.rs::approx_basic_intersection and
//! cylinder3d.rs::basic_intersection are recomputed here with the public ApproxFloat API, line for
//! line as those functions do it).
use crate::util::*;
use geometry3d::round_error::ApproxFloat;

pub const KINDS: [&str; 3] = ["iso", "sphere", "cylinder"];

fn af(l: Float, h: Float) -> ApproxFloat {
    ApproxFloat { low: l, high: h }
}

/// the implementation on six bounds; `None` or the four returned bounds
pub fn solve(v: &[Float; 6]) -> Option<[Float; 4]> {
    ApproxFloat::solve_quadratic(af(v[0], v[1]), af(v[2], v[3]), af(v[4], v[5]))
        .map(|(x1, x2)| [x1.low, x1.high, x2.low, x2.high])
}

/// the intermediates of solve_quadratic (bb, ac, ac4, disc, sqrt, b -+ sqrt, q), recomputed with the
/// crate's own operators in the crate's order; used by the oracle to classify (never compared with the
/// model).  Like the crate, nothing is computed after the rejection `disc.low < 0.` (NaN placeholders).
pub fn steps(v: &[Float; 6]) -> [Float; 14] {
    let (a, b, c) = (af(v[0], v[1]), af(v[2], v[3]), af(v[4], v[5]));
    let bb = b * b;
    let ac = a * c;
    let ac4 = ac * 4.;
    let disc = bb - ac4;
    let n = Float::NAN;
    if disc.low < 0. {
        return [bb.low, bb.high, ac.low, ac.high, ac4.low, ac4.high, disc.low, disc.high, n, n, n, n, n, n];
    }
    let sq = disc.sqrt();
    let pm = if b.as_float() < 0. { b - sq } else { b + sq };
    let q = -pm * 0.5;
    [bb.low, bb.high, ac.low, ac.high, ac4.low, ac4.high, disc.low, disc.high, sq.low, sq.high, pm.low, pm.high, q.low, q.high]
}

/// NaN bounds are outside every hypothesis and outside the model's reach: the crate's
/// next_float_up/down do integer arithmetic on NaN payloads (0xFFFF_FFFF_FFFF_FFFF + 1 panics in a debug
/// build and wraps to +0.0 in a release build), Flocq has a single NaN.  Such cases are not emitted.
fn nan_free(v: &[Float; 6]) -> Option<(Option<[Float; 4]>, [Float; 14])> {
    let vv = *v;
    let res = catch(move || (solve(&vv), steps(&vv))).ok()?;
    let (out, st) = res;
    let upto = if st[6] < 0. { 8 } else { 14 };
    if st[..upto].iter().any(|x| x.is_nan()) { return None; }
    if let Some(x) = out { if x.iter().any(|y| y.is_nan()) { return None; } }
    Some((out, st))
}

fn up(x: Float, n: u64) -> Float {
    let mut h = x;
    for _ in 0..n { h = crate::c07::next_up(h); }
    h
}
fn dn(x: Float, n: u64) -> Float {
    -up(-x, n)
}

/// relative half-width classes of the property: 0 (exact point) .. 1e-6
fn widen(r: &mut Rng, c: Float) -> (Float, Float) {
    let m = c.abs();
    match r.below(8) {
        0 | 1 => (c, c),
        2 => (c, up(c, r.below(4) + 1)),
        3 => { let w = m * 1e-6; (c - w, c + w) }
        4 => { let w = m * (10.0f64).powf(r.range(-15.0, -6.0)) as Float; (c - w, c + w) }
        5 => { let w = m * 1e-12; (c - w, c + w) }
        6 => { let w = m * (10.0f64).powf(r.range(-9.0, -6.0)) as Float; if r.chance(0.5) { (c, c + w) } else { (c - w, c) } }
        _ => { let w = m * 1e-6 * (r.f01() as Float); (c - w, c + w) }
    }
}
fn widen_rel(c: Float, w: Float) -> (Float, Float) {
    let e = c.abs() * w;
    (c - e, c + e)
}

fn mag(r: &mut Rng, lo: f64, hi: f64) -> Float {
    r.logmag(lo, hi) as Float
}

/// fixed textbook problems and the committed witness of the (fixed) finding on Sub/Neg
fn classic(i: u64) -> [Float; 6] {
    let p = |a: Float, b: Float, c: Float| [a, a, b, b, c, c];
    match i % 8 {
        0 => p(1., -1., -6.),
        1 => p(-6., 15., 36.),
        2 => p(6., 5., -6.),
        3 => p(1., -3., 2.),
        4 => [1., 1.000001, -3.000003, -3., 2., 2.000002],
        5 => [-1.000001, -1., 3., 3.000003, -2.000002, -2.],
        6 => p(1., 0., -4.),
        _ => p(2., 4., 0.),
    }
}

/// one isolated coefficient triple; returns (generator label, six bounds)
fn iso(r: &mut Rng, k: u64) -> (&'static str, [Float; 6]) {
    match k % 16 {
        0 | 1 | 2 => {
            let (a, b, c) = (mag(r, -6., 6.), mag(r, -6., 6.), mag(r, -6., 6.));
            let (al, ah) = widen(r, a); let (bl, bh) = widen(r, b); let (cl, ch) = widen(r, c);
            ("random", [al, ah, bl, bh, cl, ch])
        }
        3 | 4 | 5 => {
            // near-double roots: b = -2 a r, c = a r^2 (1 + delta): D = -4 a^2 r^2 delta
            let a = mag(r, -3., 3.); let rt = mag(r, -3., 3.);
            let delta = match r.below(6) { 0 => 0.0, 1 => -1e-3, 2 => 1e-9, _ => r.logmag(-16., -3.) } as Float;
            let b = -2. * a * rt; let c = a * rt * rt * (1. + delta);
            let (al, ah) = widen(r, a); let (bl, bh) = widen(r, b); let (cl, ch) = widen(r, c);
            ("near-double", [al, ah, bl, bh, cl, ch])
        }
        6 | 7 => {
            // discriminant within a few ulps of the rejection threshold, point or ulp-wide coefficients
            let a = mag(r, -6., 6.); let c = a.signum() * mag(r, -6., 6.).abs();
            let s = (a * c).sqrt() * 2.;
            let k = r.below(41) as i64 - 20;
            let b0 = if k >= 0 { up(s, k as u64) } else { dn(s, (-k) as u64) };
            let b = if r.chance(0.5) { -b0 } else { b0 };
            let w = |r: &mut Rng, x: Float| if r.chance(0.6) { (x, x) } else { (x, up(x, 1)) };
            let (al, ah) = w(r, a); let (bl, bh) = w(r, b); let (cl, ch) = w(r, c);
            ("disc-boundary", [al, ah, bl, bh, cl, ch])
        }
        8 => {
            // b exactly zero, +-0, tiny against sqrt(|ac|) (inside the magnitude range when possible), or
            // straddling zero (the mid(b) < 0 decision; outside the property's width range); c of either sign
            let a = mag(r, 0., 6.); let c = mag(r, 0., 6.);
            let t = if r.chance(0.6) { (1e-6 * r.range(1.0, 10.0)) as Float } else { (mag(r, -12., -6.).abs()) * (a.abs() * c.abs()).sqrt() };
            let (bl, bh) = match r.below(7) {
                0 => (0.0, 0.0), 1 => (-0.0, -0.0), 2 => (-0.0, 0.0), 3 => (t, t), 4 => (-t, -t),
                5 => (-t, up(t, r.below(3))), _ => (-up(t, r.below(3)), t),
            };
            let (al, ah) = widen(r, a); let (cl, ch) = widen(r, c);
            ("b-zero", [al, ah, bl, bh, cl, ch])
        }
        9 => {
            // c zero or tiny against b^2/a: one root at / near zero
            let a = mag(r, -3., 0.); let b = mag(r, 0., 3.);
            let c: Float = match r.below(4) { 0 => 0.0, 1 => -0.0, _ => mag(r, -6., -3.) * b * b / a };
            let (al, ah) = widen(r, a); let (bl, bh) = widen(r, b); let (cl, ch) = widen(r, c);
            ("c-zero", [al, ah, bl, bh, cl, ch])
        }
        10 => {
            // the same relative width on all three coefficients, discriminant a small multiple of it
            let w = (10.0f64).powf(r.range(-15.0, -6.0)) as Float;
            let a = mag(r, -3., 3.); let rt = mag(r, -3., 3.);
            let f = r.range(0.5, 40.0) as Float;
            let b = -2. * a * rt; let c = a * rt * rt * (1. - f * w);
            let (al, ah) = widen_rel(a, w); let (bl, bh) = widen_rel(b, w); let (cl, ch) = widen_rel(c, w);
            ("width-vs-disc", [al, ah, bl, bh, cl, ch])
        }
        11 => ("classic", classic(r.below(8))),
        12 => {
            // integer roots, all sign patterns: a (x - r1)(x - r2)
            let a = (r.below(9) as i64 - 4) as Float; let a = if a == 0. { 1. } else { a };
            let r1 = (r.below(21) as i64 - 10) as Float; let r2 = (r.below(21) as i64 - 10) as Float;
            let (b, c) = (-a * (r1 + r2), a * r1 * r2);
            let (al, ah) = widen(r, a); let (bl, bh) = widen(r, b); let (cl, ch) = widen(r, c);
            ("integer-roots", [al, ah, bl, bh, cl, ch])
        }
        13 => {
            // extreme magnitude ratios inside the domain (cancellation in -b +- sqrt D avoided by q)
            let a = mag(r, -6., -3.); let b = mag(r, 3., 6.); let c = mag(r, -6., 6.);
            let (al, ah) = widen(r, a); let (bl, bh) = widen(r, b); let (cl, ch) = widen(r, c);
            ("ratio", [al, ah, bl, bh, cl, ch])
        }
        14 => {
            // outside the property's domain: wide intervals, a straddling zero
            let (a, b, c) = (mag(r, -2., 2.), mag(r, -2., 2.), mag(r, -2., 2.));
            let w = r.range(1e-4, 1.5) as Float;
            let (al, ah) = widen_rel(a, if r.chance(0.3) { w } else { 0.0 });
            let (bl, bh) = widen_rel(b, w); let (cl, ch) = widen_rel(c, w * (r.f01() as Float));
            ("wide", [al, ah, bl, bh, cl, ch])
        }
        _ => {
            // outside the property's domain: overflow / underflow / special values
            let f = |r: &mut Rng| { let c = rand_float(r); if r.chance(0.5) { (c, c) } else { let (l, h) = widen_rel(c, 1e-9); (l, h) } };
            let (al, ah) = f(r); let (bl, bh) = f(r); let (cl, ch) = f(r);
            ("extreme", [al, ah, bl, bh, cl, ch])
        }
    }
}

/// error box of a transformed coordinate: none, a gamma(3)-sized bound as transform.rs produces, or a relative 1e-k
fn err_box(r: &mut Rng, p: &[Float; 3]) -> [Float; 3] {
    let s = p[0].abs() + p[1].abs() + p[2].abs();
    match r.below(5) {
        0 | 1 => [0.0; 3],
        2 => { let g = 3. * (Float::EPSILON / 2.) / (1. - 3. * (Float::EPSILON / 2.)); [g * s, g * s, g * s] }
        3 => { let w = (10.0f64).powf(r.range(-12.0, -6.0)) as Float; [p[0].abs() * w, p[1].abs() * w, p[2].abs() * w] }
        _ => { let w = (10.0f64).powf(r.range(-14.0, -7.0)) as Float; [s * w, s * w, s * w] }
    }
}

/// a ray relative to a sphere / cylinder of radius `rad` about the origin: (label, origin, direction)
fn ray_for(r: &mut Rng, rad: Float, planar: bool) -> (&'static str, [Float; 3], [Float; 3]) {
    let unit = |r: &mut Rng| -> [Float; 3] {
        loop {
            let v = [r.range(-1., 1.) as Float, r.range(-1., 1.) as Float, if planar { 0.0 } else { r.range(-1., 1.) as Float }];
            let l = (v[0] * v[0] + v[1] * v[1] + v[2] * v[2]).sqrt();
            if l > 0.1 && l <= 1.0 { return [v[0] / l, v[1] / l, v[2] / l]; }
        }
    };
    let dir = unit(r);
    // a unit vector perpendicular to dir (in the xy-plane for the cylinder)
    let perp = if planar { [-dir[1], dir[0], 0.0] } else {
        let u = unit(r);
        let d = u[0] * dir[0] + u[1] * dir[1] + u[2] * dir[2];
        let w = [u[0] - d * dir[0], u[1] - d * dir[1], u[2] - d * dir[2]];
        let l = (w[0] * w[0] + w[1] * w[1] + w[2] * w[2]).sqrt();
        if l < 1e-3 { [-dir[1], dir[0], 0.0] } else { [w[0] / l, w[1] / l, w[2] / l] }
    };
    // impact parameter p (distance of the line from the axis/centre) and position along the ray
    let (label, p): (&'static str, Float) = match r.below(6) {
        0 => ("through-centre", 0.0),
        1 | 2 => ("hit", rad * (r.f01() as Float)),
        3 => ("graze-in", rad * (1. - (10.0f64).powf(r.range(-15., -3.)) as Float)),
        4 => ("graze-out", rad * (1. + (10.0f64).powf(r.range(-15., -3.)) as Float)),
        _ => ("miss", rad * (r.range(1.1, 5.0) as Float)),
    };
    let back: Float = match r.below(6) {
        0 => 0.0,                                              // closest point itself (inside, or on the surface when grazing)
        1 => rad * (r.range(0.0, 1.0) as Float),               // usually inside
        2 => (rad * rad - p * p).max(0.0).sqrt(),              // on the surface (up to rounding)
        3 => rad * (r.range(1.0, 10.0) as Float),
        4 => rad * (10.0f64).powf(r.range(1.0, 4.0)) as Float, // far away
        _ => -rad * (r.range(0.0, 3.0) as Float),              // sphere behind the ray
    };
    let mut o = [perp[0] * p - dir[0] * back, perp[1] * p - dir[1] * back, perp[2] * p - dir[2] * back];
    let mut d = dir;
    if planar && r.chance(0.7) {
        // the cylinder ignores z: any z component is allowed
        o[2] = r.range(-3., 3.) as Float;
        d[2] = r.range(-2., 2.) as Float;
    }
    if r.chance(0.3) {
        // non-normalised direction
        let s = (10.0f64).powf(r.range(-3., 3.)) as Float;
        d = [d[0] * s, d[1] * s, d[2] * s];
    }
    (label, o, d)
}

/// sphere3d.rs::approx_basic_intersection, lines 176-185
fn sphere_coeffs(o: &[Float; 3], d: &[Float; 3], oe: &[Float; 3], de: &[Float; 3], radius: Float) -> [Float; 6] {
    let dx = ApproxFloat::from_value_and_error(d[0], de[0]);
    let dy = ApproxFloat::from_value_and_error(d[1], de[1]);
    let dz = ApproxFloat::from_value_and_error(d[2], de[2]);
    let ox = ApproxFloat::from_value_and_error(o[0], oe[0]);
    let oy = ApproxFloat::from_value_and_error(o[1], oe[1]);
    let oz = ApproxFloat::from_value_and_error(o[2], oe[2]);

    let a = dx * dx + dy * dy + dz * dz;
    let b = (ox * dx + oy * dy + oz * dz) * 2.;
    let c = ox * ox + oy * oy + oz * oz - radius * radius;
    [a.low, a.high, b.low, b.high, c.low, c.high]
}

/// cylinder3d.rs::basic_intersection, lines 131-140
fn cylinder_coeffs(o: &[Float; 3], d: &[Float; 3], oe: &[Float; 3], de: &[Float; 3], radius: Float) -> [Float; 6] {
    let dx = ApproxFloat::from_value_and_error(d[0], de[0]);
    let dy = ApproxFloat::from_value_and_error(d[1], de[1]);
    let ox = ApproxFloat::from_value_and_error(o[0], oe[0]);
    let oy = ApproxFloat::from_value_and_error(o[1], oe[1]);

    let a = dx * dx + dy * dy;
    let b = (dx * ox + dy * oy) * 2.;
    let c = ox * ox + oy * oy - radius * radius;
    [a.low, a.high, b.low, b.high, c.low, c.high]
}

/// a ray that starts just inside the surface and runs tangentially, with an uncertain direction:
/// b = 2 o.d straddles zero and |c| is of the order of b_max^2 (the band where the computed
/// q interval can contain zero, finding C17:q-contains-zero)
fn tangent_inside(r: &mut Rng, rad: Float, cyl: bool) -> ([Float; 3], [Float; 3], [Float; 3], [Float; 3]) {
    let (_, o0, d) = ray_for(r, rad, cyl);
    let _ = o0;
    let l = (d[0] * d[0] + d[1] * d[1] + if cyl { 0.0 } else { d[2] * d[2] }).sqrt();
    let dir = [d[0] / l, d[1] / l, if cyl { 0.0 } else { d[2] / l }];
    // a perpendicular unit vector
    let perp = if cyl || (dir[0].abs() + dir[1].abs()) > 0.5 {
        let m = (dir[0] * dir[0] + dir[1] * dir[1]).sqrt();
        [-dir[1] / m, dir[0] / m, 0.0]
    } else { [1.0, 0.0, 0.0] };
    let e = (10.0f64).powf(r.range(-7.5, -6.0)) as Float;
    let s1 = dir[0].abs() + dir[1].abs() + dir[2].abs();
    let de = [s1 * e, s1 * e, s1 * e];
    let oe = [0.0; 3];
    let o1 = [perp[0] * rad, perp[1] * rad, perp[2] * rad];
    let v = if cyl { cylinder_coeffs(&o1, &dir, &oe, &de, rad) } else { sphere_coeffs(&o1, &dir, &oe, &de, rad) };
    let bmax = v[2].abs().max(v[3].abs());
    let f = r.range(0.2, 3.0) as Float;
    let p = (rad * rad - f * bmax * bmax / (4. * v[1])).max(0.0).sqrt();
    ([perp[0] * p, perp[1] * p, perp[2] * p], dir, oe, de)
}

fn shape(r: &mut Rng, cyl: bool) -> (&'static str, [Float; 6], String) {
    let rad: Float = match r.below(4) { 0 => 1.0, 1 => 0.5, _ => (10.0f64).powf(r.range(-2., 2.)) as Float };
    let (label, o, d, oe, de) = if r.below(8) == 0 {
        let (o, d, oe, de) = tangent_inside(r, rad, cyl);
        ("tangent-inside", o, d, oe, de)
    } else {
        let (label, o, d) = ray_for(r, rad, cyl);
        let oe = err_box(r, &o);
        let de = err_box(r, &d);
        (label, o, d, oe, de)
    };
    let v = if cyl { cylinder_coeffs(&o, &d, &oe, &de, rad) } else { sphere_coeffs(&o, &d, &oe, &de, rad) };
    let src = format!("{{\"o\":{},\"d\":{},\"oe\":{},\"de\":{},\"radius\":{}}}", jfs(&o), jfs(&d), jfs(&oe), jfs(&de), jf(rad));
    (label, v, src)
}

fn emit(kind: usize, gen: &str, v: &[Float; 6], src: &str) -> Option<(String, String)> {
    let (res, st) = nan_free(v)?;
    let (ocoq, ojson) = match res {
        None => ("[]".to_string(), "null".to_string()),
        Some(x) => (sfs(&x), jfs(&x)),
    };
    Some((
        format!("({}%N, {}, {})", kind, sfs(v), ocoq),
        format!("{{\"kind\":\"{}\",\"gen\":\"{}\",\"in\":{},\"out\":{},\"steps\":{},\"src\":{}}}", KINDS[kind], gen, jfs(v), ojson, jfs(&st), src),
    ))
}

pub fn run(seed: u64, n: usize, out: &str) {
    let mut r = Rng::new(seed ^ 0xC17);
    let mut sink = Sink::new(out, if cfg!(feature = "float") { "C17f32" } else { "C17" }, 100);
    // the committed witnesses first
    for i in 0..8 {
        if sink.len() >= n { break; }
        if let Some((c, j)) = emit(0, "classic", &classic(i), "null") { sink.push(c, j); }
    }
    // the committed witness of finding C17:q-contains-zero as it arises from a sphere: unit sphere, ray from
    // (1 - 7.5e-15, 0, 0) along (0, 1, 0) (tangent, just inside the surface), direction known to +-1e-7
    if sink.len() < n {
        let (o, d, oe, de, rad): ([Float; 3], [Float; 3], [Float; 3], [Float; 3], Float) =
            ([0.9999999999999925, 0.0, 0.0], [0.0, 1.0, 0.0], [0.0; 3], [1e-7, 1e-7, 1e-7], 1.0);
        let v = sphere_coeffs(&o, &d, &oe, &de, rad);
        let src = format!("{{\"o\":{},\"d\":{},\"oe\":{},\"de\":{},\"radius\":{}}}", jfs(&o), jfs(&d), jfs(&oe), jfs(&de), jf(rad));
        if let Some((c, j)) = emit(1, "witness-q-zero", &v, &src) { sink.push(c, j); }
    }
    let mut i = 0u64;
    let mut skipped = 0u64;
    while sink.len() < n {
        // 5/8 isolated triples, 3/16 sphere, 3/16 cylinder
        let sel = i % 16;
        i += 1;
        let e = if sel < 10 {
            let k = r.below(16);
            let (g, v) = iso(&mut r, k);
            emit(0, g, &v, "null")
        } else if sel < 13 {
            let (g, v, src) = shape(&mut r, false);
            emit(1, g, &v, &src)
        } else {
            let (g, v, src) = shape(&mut r, true);
            emit(2, g, &v, &src)
        };
        match e { Some((c, j)) => sink.push(c, j), None => skipped += 1 }
    }
    sink.flush();
    eprintln!("C17: {} cases, {} candidates with NaN bounds (or a debug-build overflow in next_float_*) not emitted", sink.len(), skipped);
}

/// the committed sphere witness through the PUBLIC API: Sphere3D::simple_intersect_local_ray
fn witness_e2e() {
    use geometry3d::{Point3D, Ray3D, Sphere3D, Vector3D};
    let s = Sphere3D::new_transformed(1.0, None);
    let ray = Ray3D { origin: Point3D::new(0.9999999999999925, 0.0, 0.0), direction: Vector3D::new(0.0, 1.0, 0.0) };
    let e = 1e-7;
    let with_err = s.simple_intersect_local_ray(&ray, Point3D::new(0., 0., 0.), Point3D::new(e, e, e));
    let exact = s.simple_intersect_local_ray(&ray, Point3D::new(0., 0., 0.), Point3D::new(0., 0., 0.));
    println!("# unit sphere, ray from (1-7.5e-15,0,0) along (0,1,0): true hit at t = sqrt(1-(1-7.5e-15)^2) = 1.22e-7");
    println!("# simple_intersect_local_ray with d_error = 1e-7: {:?}", with_err.map(|p| (p.x, p.y, p.z)));
    println!("# simple_intersect_local_ray with d_error = 0   : {:?}", exact.map(|p| (p.x, p.y, p.z)));
}

/// replay one case: six bit patterns (and the kind), or `witness` for the end-to-end sphere witness
pub fn replay(args: &[String]) {
    if args[0] == "witness" { witness_e2e(); return; }
    let v: Vec<Float> = args[0..6].iter().map(|s| Float::from_bits(s.parse().unwrap())).collect();
    let v6 = [v[0], v[1], v[2], v[3], v[4], v[5]];
    let res = match catch(move || solve(&v6)) { Ok(r) => r, Err(m) => { println!("# panic: {}", m); return; } };
    let ojson = match res { None => "null".to_string(), Some(x) => jfs(&x) };
    let kind = if args.len() > 6 { args[6].as_str() } else { "iso" };
    println!("{{\"kind\":\"{}\",\"gen\":\"replay\",\"in\":{},\"out\":{},\"steps\":{},\"src\":null}}", kind, jfs(&v6), ojson, jfs(&steps(&v6)));
    println!("# a=[{:e},{:e}] b=[{:e},{:e}] c=[{:e},{:e}] -> {:?}", v[0], v[1], v[2], v[3], v[4], v[5], res);
}

/// investigation aid (not part of the check): draw `n` cases from the same generators plus an
/// underflow band, and print every case whose returned enclosures overlap or are nested
pub fn search(seed: u64, n: usize, underflow: bool) {
    let mut r = Rng::new(seed ^ 0x5EA7C17);
    let (mut some, mut none, mut overlap, mut nested) = (0u64, 0u64, 0u64, 0u64);
    for i in 0..n {
        let (kind, g, mut v) = match i % 4 {
            0 | 1 => { let k = r.below(16); let (g, v) = iso(&mut r, k); (0, g, v) }
            2 => { let (g, v, _) = shape(&mut r, false); (1, g, v) }
            _ => { let (g, v, _) = shape(&mut r, true); (2, g, v) }
        };
        if underflow {
            // scale b by 2^-k and c by 2^-2k: same roots scaled by 2^-k, products near the subnormal range
            let k = (Float::MIN_EXP.abs() / 2) as i32 + r.below(40) as i32 - 30;
            let s = (2.0 as Float).powi(-k);
            v[2] *= s; v[3] *= s; v[4] *= s; v[5] *= s; v[4] *= s; v[5] *= s;
        }
        let sol = match nan_free(&v) { Some((o, _)) => o, None => continue };
        match sol {
            None => none += 1,
            Some(x) => {
                some += 1;
                let nest = !(x[1] <= x[3]);
                let ov = x[1] >= x[2];
                if nest { nested += 1; }
                if ov { overlap += 1; }
                if nest || ov {
                    println!("{{\"kind\":\"{}\",\"gen\":\"{}\",\"in\":{},\"out\":{},\"steps\":{},\"src\":null,\"nested\":{},\"overlap\":{}}}", KINDS[kind], g, jfs(&v), jfs(&x), jfs(&steps(&v)), nest, ov);
                }
            }
        }
    }
    eprintln!("search: n={} some={} none={} overlap={} nested={}", n, some, none, overlap, nested);
}
