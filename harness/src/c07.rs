//! C07: every operator form of round_error::ApproxFloat, plus next_float_up/down and helpers.
use crate::util::*;
use geometry3d::round_error::{self, ApproxFloat};

pub const OPS: [&str; 25] = [
    "neg", "add", "add_f", "sub", "sub_f", "mul", "mul_f", "div", "div_f", "add_assign",
    "add_assign_f", "sub_assign", "sub_assign_f", "mul_assign", "mul_assign_f", "div_assign",
    "div_assign_f", "sqrt", "from_value_and_error", "midpoint", "absolute_error",
    "next_float_up", "next_float_down", "max_min", "from_bounds",
];

pub fn apply(op: usize, a: ApproxFloat, b: ApproxFloat) -> (Float, Float) {
    let f = b.low;
    let r = |x: ApproxFloat| (x.low, x.high);
    match op {
        0 => r(-a),
        1 => r(a + b),
        2 => r(a + f),
        3 => r(a - b),
        4 => r(a - f),
        5 => r(a * b),
        6 => r(a * f),
        7 => r(a / b),
        8 => r(a / f),
        9 => { let mut x = a; x += b; r(x) }
        10 => { let mut x = a; x += f; r(x) }
        11 => { let mut x = a; x -= b; r(x) }
        12 => { let mut x = a; x -= f; r(x) }
        13 => { let mut x = a; x *= b; r(x) }
        14 => { let mut x = a; x *= f; r(x) }
        15 => { let mut x = a; x /= b; r(x) }
        16 => { let mut x = a; x /= f; r(x) }
        17 => r(a.sqrt()),
        18 => r(ApproxFloat::from_value_and_error(a.low, a.high)),
        19 => (a.midpoint(), a.as_float()),
        20 => (a.absolute_error(), a.absolute_error()),
        21 => (round_error::verif_next_float_up(a.low), round_error::verif_next_float_up(a.high)),
        22 => (round_error::verif_next_float_down(a.low), round_error::verif_next_float_down(a.high)),
        23 => { let (mx, mn) = round_error::max_min(&[a.low, a.high, b.low, b.high]); (mn, mx) }
        _ => unreachable!(),
    }
}

/// op 24: ApproxFloat::from_bounds(low, high) under `catch`; out = [low, high, panicked, debug build]
fn from_bounds_case(al: Float, ah: Float, bl: Float, bh: Float) -> (String, String) {
    let dbg: Float = if cfg!(debug_assertions) { 1.0 } else { 0.0 };
    let (out, panicked) = match catch(move || ApproxFloat::from_bounds(al, ah)) {
        Ok(x) => (vec![x.low, x.high, 0.0, dbg], false),
        Err(_) => (vec![0.0, 0.0, 1.0, dbg], true),
    };
    (format!("(24%N, {}, {})", sfs(&[al, ah, bl, bh]), sfs(&out)),
     format!("{{\"op\":\"from_bounds\",\"opn\":24,\"in\":{},\"out\":{},\"panicked\":{},\"debug\":{}}}", jfs(&[al, ah, bl, bh]), jfs(&out), panicked, cfg!(debug_assertions)))
}

/// an interval around `c`
pub fn rand_interval(r: &mut Rng) -> (Float, Float) {
    let c = rand_float(r);
    match r.below(8) {
        0 => (c, c),
        1 => {
            // a few ulps wide
            let mut h = c;
            for _ in 0..r.below(4) + 1 { h = next_up(h); }
            (c, h)
        }
        2 => { let w = (c.abs() * 1e-6) as Float; (c - w, c + w) }
        3 => { let w = c.abs() * (r.range(0.0, 3.0) as Float); (c - w, c + w) } // may straddle zero
        4 => { let d = rand_float(r); if c <= d { (c, d) } else { (d, c) } }
        5 => { let d = rand_float(r); (c, d) } // possibly ill-formed: malformed stream
        6 => { let w = (c.abs() * 1e-12) as Float; (c - w, c + w) }
        _ => { let w = r.range(0.0, 1.0) as Float; (c - w, c + w) }
    }
}
pub fn next_up(x: Float) -> Float {
    if x.is_nan() || x == Float::INFINITY { return x; }
    if x == 0.0 { return Float::from_bits(1); }
    let b = x.to_bits();
    if x > 0.0 { Float::from_bits(b + 1) } else { Float::from_bits(b - 1) }
}

pub fn run(seed: u64, n: usize, out: &str) {
    let mut r = Rng::new(seed ^ 0xC07);
    let mut sink = Sink::new(out, "C07", 250);
    #[cfg(feature = "float")]
    { sink.runner = "C07f32".to_string(); }
    let mut i = 0usize;
    while sink.len() < n {
        let op = i % OPS.len();
        i += 1;
        let (mut al, mut ah) = rand_interval(&mut r);
        let (mut bl, mut bh) = rand_interval(&mut r);
        if r.chance(0.08) {
            // underflow band: products/quotients that round to +-0 next to exact zeros
            let half = (Float::MIN_EXP as i32) / 2 - 10;
            let t = (2.0 as Float).powi(half - r.below(20) as i32);
            let z: Float = if r.chance(0.5) { 0.0 } else { -0.0 };
            let (l, h) = match r.below(4) { 0 => (z, t), 1 => (-t, z), 2 => (-t, t), _ => (t / 2.0, t) };
            al = l; ah = h;
            let big = r.chance(0.5);
            let m = if big { 1.0 / t } else { t };
            let m = if r.chance(0.5) { -m } else { m };
            match r.below(3) { 0 => { bl = m; bh = m; } 1 => { if m > 0.0 { bl = m; bh = m * 2.0 } else { bl = m * 2.0; bh = m } } _ => { bl = m; bh = m } }
        }
        {
            // overflow band (own derived state: the cases that do not take it are unchanged): a point divisor / factor in the top
            // two binades with a random mantissa, and a left operand of comparable magnitude, so that quotients are O(1) while the
            // reciprocal of the divisor is SUBNORMAL (seeded change C07-m5: x / d computed as x * (1 / d))
            let mut y = Rng(r.0 ^ 0xC07_B16B);
            if y.chance(0.06) {
                let e = Float::MAX_EXP as i32 - 1 - y.below(2) as i32;
                let m = ((1.0 + y.f01()) as Float) * (2.0 as Float).powi(e) * if y.chance(0.5) { -1.0 } else { 1.0 };
                if m.is_finite() {
                    bl = m; bh = m;
                    let f = y.range(0.05, 0.99) as Float;
                    let c = m.abs() * f * if y.chance(0.5) { -1.0 } else { 1.0 };
                    let w = c.abs() * (*y.pick(&[0.0, 1e-15, 1e-9, 1e-3]) as Float);
                    al = c - w; ah = c + w;
                }
            }
        }
        if op == 24 {
            // from_bounds: also NaN bounds and inverted bounds (its debug_assert!(high >= low))
            match r.below(12) { 0 => { ah = Float::NAN; } 1 => { al = Float::NAN; } 2 | 3 => { std::mem::swap(&mut al, &mut ah); } _ => {} }
            let (c, j) = from_bounds_case(al, ah, bl, bh);
            sink.push(c, j);
            continue;
        }
        let a = ApproxFloat { low: al, high: ah };
        let b = ApproxFloat { low: bl, high: bh };
        let (rl, rh) = apply(op, a, b);
        sink.push(
            format!("({}%N, {}, {})", op, sfs(&[al, ah, bl, bh]), sfs(&[rl, rh])),
            format!("{{\"op\":\"{}\",\"opn\":{},\"in\":{},\"out\":{}}}", OPS[op], op, jfs(&[al, ah, bl, bh]), jfs(&[rl, rh])),
        );
    }
    sink.flush();
}

/// replay one case given on the command line: op and 4 bit patterns
pub fn replay(args: &[String]) {
    let op: usize = args[0].parse().unwrap();
    let v: Vec<Float> = args[1..5].iter().map(|s| Float::from_bits(s.parse().unwrap())).collect();
    if op == 24 { println!("{}", from_bounds_case(v[0], v[1], v[2], v[3]).1); return; }
    let (rl, rh) = apply(op, ApproxFloat { low: v[0], high: v[1] }, ApproxFloat { low: v[2], high: v[3] });
    println!("{{\"op\":\"{}\",\"opn\":{},\"in\":{},\"out\":{}}}", OPS[op], op, jfs(&v), jfs(&[rl, rh]));
    println!("# {} [{:e},{:e}] [{:e},{:e}] -> [{:e},{:e}]", OPS[op], v[0], v[1], v[2], v[3], rl, rh);
}
