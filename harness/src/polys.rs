//! Polygon3D: histories of hole cutting (C11), merging holes into one outline (C12),
//! JSON (de)serialisation of loops / polygons / points / vectors (C20).
use crate::gen::*;
use crate::loops::{err_class, loop_coq, loop_json, make_loop};
use crate::util::*;
use geometry3d::{Loop3D, Point3D, Polygon3D, Segment3D, Vector3D};
use std::panic::AssertUnwindSafe as AUS;

/// error classes of polygon3d.rs / the deserialisers (50 normals not parallel, 51 vertex not inside,
/// 52 encloses a hole, 53 inner-loop index out of bounds, 60 "array of numbers" expected), else the loop classes
pub fn perr_class(msg: &str) -> u32 {
    if msg.contains("parallel normals") { 50 }
    else if msg.contains("not inside the polygon") { 51 }
    else if msg.contains("inside the new hole") { 52 }
    else if msg.contains("retrieve inner loop") { 53 }
    else if msg.contains("array of numbers") { 60 }
    else { err_class(msg) }
}

/// a Coq list of loops (a typed constant when empty: the case files carry no type annotations)
fn loops_coq(v: &[String]) -> String { if v.is_empty() { "noloops".to_string() } else { format!("[{}]", v.join("; ")) } }
/// full observable state of a polygon: area, normal, outer vertices, inner loops
fn poly_coq(o: u32, p: &Polygon3D) -> String {
    let n = p.normal();
    let inner: Vec<String> = (0..p.n_inner_loops()).map(|i| loop_coq(p.inner(i).unwrap())).collect();
    format!("({}%N, {}, {}, {})", o, sfs(&[p.area(), n.x, n.y, n.z]), pts_coq(p.outer().vertices()), loops_coq(&inner))
}
fn poly_json(o: u32, p: &Polygon3D) -> String {
    let n = p.normal();
    let inner: Vec<String> = (0..p.n_inner_loops()).map(|i| loop_json(p.inner(i).unwrap())).collect();
    format!("{{\"o\":{},\"area\":{},\"n\":{},\"outer\":{},\"inner\":[{}]}}", o, jf(p.area()), jfs(&[n.x, n.y, n.z]), pts_json(p.outer().vertices()), inner.join(","))
}

// ---------- 2-D helpers for the generators ----------
fn uv(fr: &Frame, p: Point3D) -> P2 {
    let d = [p.x as f64 - fr.o[0], p.y as f64 - fr.o[1], p.z as f64 - fr.o[2]];
    (d[0] * fr.e1[0] + d[1] * fr.e1[1] + d[2] * fr.e1[2], d[0] * fr.e2[0] + d[1] * fr.e2[1] + d[2] * fr.e2[2])
}
fn bbox2(p: &[P2]) -> (f64, f64, f64, f64) {
    let mut b = (f64::MAX, f64::MAX, f64::MIN, f64::MIN);
    for q in p { b.0 = b.0.min(q.0); b.1 = b.1.min(q.1); b.2 = b.2.max(q.0); b.3 = b.3.max(q.1); }
    b
}
fn d2(a: P2, b: P2) -> f64 { ((a.0 - b.0).powi(2) + (a.1 - b.1).powi(2)).sqrt() }
/// k-gon around c: circumradius rad, per-vertex radius factors, winding, cyclic start
fn ngon(c: P2, rad: f64, fac: &[f64], phase: f64, ccw: bool, start: usize) -> Vec<P2> {
    let k = fac.len();
    let mut v: Vec<P2> = (0..k).map(|i| { let t = phase + (i as f64) / (k as f64) * std::f64::consts::TAU; (c.0 + rad * fac[i] * t.cos(), c.1 + rad * fac[i] * t.sin()) }).collect();
    if !ccw { v.reverse(); }
    rotate_start(&v, start % k)
}
fn rand_fac(r: &mut Rng, k: usize) -> Vec<f64> {
    if r.chance(0.5) { vec![1.0; k] } else { (0..k).map(|_| r.range(0.6, 1.0)).collect() }
}
/// a point with clearance `clear` from the outline (inside) and from the discs `occ` (centre, radius)
fn place_inside(r: &mut Rng, poly: &[P2], occ: &[(P2, f64)], clear: f64, gap: f64) -> Option<P2> {
    let b = bbox2(poly);
    for _ in 0..80 {
        let c = (r.range(b.0, b.2), r.range(b.1, b.3));
        if !inside2(poly, c) || dist_to_outline(poly, c) < clear { continue; }
        if occ.iter().any(|(o, ro)| d2(*o, c) < clear + ro + gap) { continue; }
        return Some(c);
    }
    None
}
/// a frame through the point (u,v) of `fr`, tilted by `ang` (radians) about e1
fn tilted(fr: &Frame, c: P2, ang: f64) -> Frame {
    let n = fr.normal();
    let (s, co) = ang.sin_cos();
    let o = [fr.o[0] + c.0 * fr.e1[0] + c.1 * fr.e2[0], fr.o[1] + c.0 * fr.e1[1] + c.1 * fr.e2[1], fr.o[2] + c.0 * fr.e1[2] + c.1 * fr.e2[2]];
    Frame { o, e1: fr.e1, e2: [co * fr.e2[0] + s * n[0], co * fr.e2[1] + s * n[1], co * fr.e2[2] + s * n[2]], kind: fr.kind }
}
fn shifted(fr: &Frame, h: f64) -> Frame {
    let n = fr.normal();
    Frame { o: [fr.o[0] + h * n[0], fr.o[1] + h * n[1], fr.o[2] + h * n[2]], e1: fr.e1, e2: fr.e2, kind: fr.kind }
}
fn open_loop(fr: &Frame, poly: &[P2]) -> Option<Loop3D> {
    let mut l = Loop3D::new();
    for p in poly { if catch(AUS(|| l.push(fr.at(p.0, p.1)))).ok()?.is_err() { return None; } }
    Some(l)
}
/// outline of the C04 space: family, optional redundant collinear points, winding, start
fn rand_outline(r: &mut Rng, nmax: usize) -> (Vec<P2>, String) {
    let (poly, fam) = simple_polygon(r, nmax);
    let poly = if r.chance(0.3) { with_collinear(r, &poly, 0.3) } else { poly };
    let rev = r.chance(0.5);
    let poly = if rev { reversed(&poly) } else { poly };
    let poly = rotate_start(&poly, r.below(poly.len() as u64) as usize);
    (poly.clone(), format!("{}:{}{}", fam, poly.len(), if rev { ":cw" } else { "" }))
}
fn tri(b: bool) -> i32 { if b { 1 } else { 0 } }
fn tp_code(r: Result<Result<bool, String>, String>) -> i32 { match r { Ok(Ok(b)) => tri(b), Ok(Err(_)) => -1, Err(_) => -99 } }

// =====================================================================================
// C11: histories of candidate holes
// =====================================================================================
struct Cand { hole: Loop3D, kind: &'static str }

fn rand_candidate(r: &mut Rng, fr: &Frame, poly: &[P2], scale: f64, acc: &[(P2, f64)], pg: &Polygon3D) -> Option<Cand> {
    let k = 3 + r.below(6) as usize;
    let fac = rand_fac(r, k);
    let phase = r.range(0.0, 6.28);
    let ccw = r.chance(0.5);
    let start = r.below(k as u64) as usize;
    let w = r.below(100);
    let have = !acc.is_empty();
    let kind: &'static str = match w {
        0..=37 => "ok",
        38..=45 => "tilt",
        46..=51 => "offset",
        52..=61 => "outside",
        62..=67 => "straddle",
        68..=77 => if have { "inhole" } else { "ok" },
        78..=83 => if have { "hole-straddle" } else { "outside" },
        84..=93 => if have { "encloses" } else { "ok" },
        94..=96 => "nearmid",
        _ => "open",
    };
    let rad = scale * r.range(0.04, 0.12);
    let clear = rad * 1.25 + 0.03 * scale;
    match kind {
        "ok" | "tilt" | "offset" | "open" => {
            let c = place_inside(r, poly, acc, clear, 0.04 * scale)?;
            let pts = ngon(c, rad, &fac, phase, ccw, start);
            match kind {
                "ok" => Some(Cand { hole: make_loop(fr, &pts)?, kind }),
                "open" => Some(Cand { hole: open_loop(fr, &pts)?, kind }),
                "offset" => {
                    // clearly off the plane (1e-3..1), or (1 in 4) anywhere around the 1e-7 coplanarity tolerance
                    let band = r.chance(0.25);
                    let h = (10.0f64).powf(if band { r.range(-9.0, -3.0) } else { r.range(-3.0, 0.0) }) * if r.chance(0.5) { 1.0 } else { -1.0 };
                    Some(Cand { hole: make_loop(&shifted(fr, h), &pts)?, kind: if band { "offset-band" } else { kind } })
                }
                _ => {
                    // clearly tilted (1..90 deg), or (1 in 4) anywhere around the parallelism tolerance (sin^2 = 1e-5, 0.18 deg)
                    let band = r.chance(0.25);
                    let ang = (10.0f64).powf(if band { r.range(-2.0, 0.0) } else { r.range(0.0, 1.954) }).to_radians() * if r.chance(0.5) { 1.0 } else { -1.0 };
                    let kind = if band { "tilt-band" } else { kind };
                    let rel: Vec<P2> = pts.iter().map(|p| (p.0 - c.0, p.1 - c.1)).collect();
                    Some(Cand { hole: make_loop(&tilted(fr, c, ang), &rel)?, kind })
                }
            }
        }
        "outside" => {
            // centre clearly outside the outline
            let b = bbox2(poly);
            for _ in 0..60 {
                let c = (r.range(b.0 - 0.5 * scale, b.2 + 0.5 * scale), r.range(b.1 - 0.5 * scale, b.3 + 0.5 * scale));
                if inside2(poly, c) || dist_to_outline(poly, c) < clear { continue; }
                return Some(Cand { hole: make_loop(fr, &ngon(c, rad, &fac, phase, ccw, start))?, kind });
            }
            None
        }
        "straddle" => {
            // centred on an edge of the outline: some vertices inside, some outside
            let n = poly.len(); let i = r.below(n as u64) as usize; let t = r.range(0.2, 0.8);
            let (a, b) = (poly[i], poly[(i + 1) % n]);
            let c = (a.0 + t * (b.0 - a.0), a.1 + t * (b.1 - a.1));
            Some(Cand { hole: make_loop(fr, &ngon(c, rad, &vec![1.0; k], phase, ccw, start))?, kind })
        }
        "inhole" => {
            let (c0, r0) = *r.pick(acc);
            let c = (c0.0 + r0 * r.range(-0.07, 0.07), c0.1 + r0 * r.range(-0.07, 0.07));
            Some(Cand { hole: make_loop(fr, &ngon(c, r0 * r.range(0.12, 0.2), &fac, phase, ccw, start))?, kind })
        }
        "hole-straddle" => {
            let (c0, r0) = *r.pick(acc);
            let t = r.range(0.0, 6.28);
            let c = (c0.0 + r0 * t.cos(), c0.1 + r0 * t.sin());
            Some(Cand { hole: make_loop(fr, &ngon(c, r0 * r.range(0.5, 0.9), &vec![1.0; k], phase, ccw, start))?, kind })
        }
        "encloses" => {
            let (c0, r0) = *r.pick(acc);
            let big = r0 * 1.2 / (std::f64::consts::PI / k as f64).cos() * r.range(1.0, 1.3) + 0.02 * scale;
            Some(Cand { hole: make_loop(fr, &ngon(c0, big, &vec![1.0; k], phase, ccw, start))?, kind })
        }
        "nearmid" => {
            // one vertex a few millimetres inside the midpoint of the outline's first edge (the C05 short-ray band)
            let ov = pg.outer().vertices();
            let (a, b) = (uv(fr, ov[0]), uv(fr, ov[1]));
            let m = ((a.0 + b.0) / 2.0, (a.1 + b.1) / 2.0);
            let l = d2(a, b); if l < 0.2 * scale { return None; }
            let mut nrm = (-(b.1 - a.1) / l, (b.0 - a.0) / l);
            if !inside2(poly, (m.0 + 1e-3 * scale * nrm.0, m.1 + 1e-3 * scale * nrm.1)) { nrm = (-nrm.0, -nrm.1); }
            let del = r.range(1.5e-3, 4e-3);
            let q1 = (m.0 + del * nrm.0, m.1 + del * nrm.1);
            let dep = scale * r.range(0.08, 0.15); let half = scale * r.range(0.03, 0.06);
            let tg = ((b.0 - a.0) / l, (b.1 - a.1) / l);
            let q2 = (m.0 + dep * nrm.0 + half * tg.0, m.1 + dep * nrm.1 + half * tg.1);
            let q3 = (m.0 + dep * nrm.0 - half * tg.0, m.1 + dep * nrm.1 - half * tg.1);
            let pts = if ccw { vec![q1, q2, q3] } else { vec![q1, q3, q2] };
            for q in &pts { if !inside2(poly, *q) || dist_to_outline(poly, *q) < 1.2e-3 { return None; } }
            if acc.iter().any(|(o, ro)| pts.iter().any(|q| d2(*o, *q) < ro + 0.02 * scale)) { return None; }
            Some(Cand { hole: make_loop(fr, &pts)?, kind })
        }
        _ => None,
    }
}

/// observations through the public API just before the call: is_parallel, test_point of every hole vertex,
/// hole.test_point of every vertex of every existing hole
fn c11_observe(pg: &Polygon3D, hole: &Loop3D) -> (bool, Vec<i32>, Vec<Vec<i32>>) {
    let par = pg.normal().is_parallel(hole.normal());
    let ins: Vec<i32> = hole.vertices().iter().map(|p| tp_code(catch(AUS(|| pg.test_point(*p))))).collect();
    let enc: Vec<Vec<i32>> = (0..pg.n_inner_loops()).map(|i| pg.inner(i).unwrap().vertices().iter().map(|p| tp_code(catch(AUS(|| hole.test_point(*p))))).collect()).collect();
    (par, ins, enc)
}
fn vecs_json(v: &[Vec<i32>]) -> String { format!("[{}]", v.iter().map(|x| format!("{:?}", x)).collect::<Vec<_>>().join(",")) }

/// run a history on the real polygon; emits the case
fn c11_emit(sink: &mut Sink, note: &str, outer: &Loop3D, cands: &[(Loop3D, String)]) {
    let mut pg = match catch(AUS(|| Polygon3D::new(outer.clone()))) { Ok(Ok(p)) => p, _ => return };
    let mut coq_h = vec![]; let mut coq_s = vec![]; let mut j_h = vec![]; let mut j_s = vec![];
    let init_c = poly_coq(0, &pg); let init_j = poly_json(0, &pg);
    for (hole, kind) in cands {
        let (par, ins, enc) = c11_observe(&pg, hole);
        let mut tmp = pg.clone();
        let res = catch(AUS(|| tmp.cut_hole(hole.clone())));
        let o = match res { Ok(Ok(())) => 0, Ok(Err(m)) => perr_class(&m), Err(_) => 99 };
        if o != 99 { pg = tmp; }
        coq_h.push(loop_coq(hole)); coq_s.push(poly_coq(o, &pg));
        j_h.push(format!("{{\"kind\":\"{}\",\"loop\":{},\"par\":{},\"ins\":{:?},\"enc\":{}}}", kind, loop_json(hole), par, ins, vecs_json(&enc)));
        j_s.push(poly_json(o, &pg));
        if o == 99 { break; }
    }
    sink.push(
        format!("({}, {}, [{}], [{}])", loop_coq(outer), init_c, coq_h.join("; "), coq_s.join("; ")),
        format!("{{{}\"note\":\"{}\",\"outer\":{},\"init\":{},\"holes\":[{}],\"snaps\":[{}]}}", f32_mark(), note, loop_json(outer), init_j, j_h.join(","), j_s.join(",")),
    );
}

pub fn run_c11(seed: u64, n: usize, out: &str) {
    let mut r = Rng::new(seed ^ 0xC11);
    let mut sink = Sink::new32(out, "C11", 25);
    // corpus first: the three scenarios of the crate's own test, then generated histories
    {
        let fr = Frame::xy();
        let sq = |l: f64| vec![(-l, -l), (l, -l), (l, l), (-l, l)];
        let outer = make_loop(&fr, &sq(2.0)).unwrap();
        let h1 = make_loop(&fr, &sq(1.0)).unwrap();
        let mut t = Loop3D::new();
        t.push(Point3D::new(-1.0, -1.0, 0.0)).unwrap(); t.push(Point3D::new(1.0, -1.0, 0.0)).unwrap(); t.push(Point3D::new(0.0, 1.0, 2.0)).unwrap(); t.close().unwrap();
        let h3 = make_loop(&fr, &sq(2.0 / 1.5)).unwrap();
        c11_emit(&mut sink, "corpus:crate-test", &outer, &[(t, "tilt".into()), (h1, "ok".into()), (h3, "encloses".into())]);
    }
    while sink.len() < n {
        let fr = frame_for(&mut r, 1000.0);
        let nmax = if r.chance(0.2) { 30 } else { 12 };
        let (poly, fam) = rand_outline(&mut r, nmax);
        let outer = match make_loop(&fr, &poly) { Some(l) => l, None => continue };
        let mut pg = match Polygon3D::new(outer.clone()) { Ok(p) => p, Err(_) => continue };
        let scale = area2(&poly).abs().sqrt();
        let ncand = 1 + r.below(4) as usize;
        let mut acc: Vec<(P2, f64)> = vec![];
        let mut cands: Vec<(Loop3D, String)> = vec![];
        let mut tries = 0;
        while cands.len() < ncand && tries < 30 {
            tries += 1;
            let c = match rand_candidate(&mut r, &fr, &poly, scale, &acc, &pg) { Some(c) => c, None => continue };
            // track accepted holes (centre, circumradius) for the later candidates
            let mut tmp = pg.clone();
            if let Ok(Ok(())) = catch(AUS(|| tmp.cut_hole(c.hole.clone()))) {
                pg = tmp;
                let vs: Vec<P2> = c.hole.vertices().iter().map(|p| uv(&fr, *p)).collect();
                let cen = centroid2(&vs);
                let rr = vs.iter().map(|q| d2(*q, cen)).fold(0.0, f64::max);
                acc.push((cen, rr));
            }
            cands.push((c.hole, c.kind.to_string()));
        }
        if cands.is_empty() { continue; }
        c11_emit(&mut sink, &format!("{}:plane{}", fam, fr.kind), &outer, &cands);
    }
    sink.flush();
}

fn bits_loop(a: &[String]) -> (Loop3D, usize) {
    // n closed x y z ...  (bit patterns) -> the loop built by push/close
    let n: usize = a[0].parse().unwrap(); let closed = a[1] == "1";
    let mut l = Loop3D::new();
    for i in 0..n {
        let p = Point3D::new(Float::from_bits(a[2 + 3 * i].parse().unwrap()), Float::from_bits(a[3 + 3 * i].parse().unwrap()), Float::from_bits(a[4 + 3 * i].parse().unwrap()));
        l.push(p).unwrap();
    }
    if closed { l.close().unwrap(); }
    (l, 2 + 3 * n)
}
/// replay: outer loop then candidate holes, each as `n closed x y z ...` (bit patterns of the stored vertices)
pub fn replay_c11(args: &[String]) {
    let (outer, mut off) = bits_loop(args);
    let mut cands = vec![];
    while off < args.len() { let (h, k) = bits_loop(&args[off..]); off += k; cands.push((h, "replay".to_string())); }
    let mut sink = Sink::new32("/dev/null", "C11", 1);
    c11_emit(&mut sink, "replay", &outer, &cands);
    for j in &sink.json { println!("{}", j); }
}

// =====================================================================================
// C12: merging holes
// =====================================================================================
#[derive(Clone)]
struct HoleSpec { c: P2, rad: f64, fac: Vec<f64>, phase: f64, ccw: bool, start: usize, explicit: Option<Vec<P2>> }

/// what a merge case was built from, for the operation queries that follow it
struct C12Built { pg: Polygon3D, merged: Option<Loop3D>, closed: Option<Loop3D> }
fn c12_emit(sink: &mut Sink, note: &str, outer: &Loop3D, holes: &[Loop3D]) -> Option<C12Built> {
    let mut pg = match catch(AUS(|| Polygon3D::new(outer.clone()))) { Ok(Ok(p)) => p, _ => return None };
    for h in holes { match catch(AUS(|| pg.cut_hole(h.clone()))) { Ok(Ok(())) => {}, _ => return None } }
    let n = pg.normal();
    let merged = catch(AUS(|| pg.get_closed_loop()));
    let mut built = C12Built { pg: pg.clone(), merged: None, closed: None };
    let (mo, mc, mj, co, cc, cj) = match merged {
        Err(_) => (99u32, "noloop".to_string(), "null".to_string(), 99u32, "noloop".to_string(), "null".to_string()),
        Ok(m) => {
            let mut cl = m.clone();
            let o = match catch(AUS(|| cl.close())) { Ok(Ok(())) => 0, Ok(Err(e)) => err_class(&e), Err(_) => 99 };
            let r = (0, loop_coq(&m), loop_json(&m), o, loop_coq(&cl), loop_json(&cl));
            if o == 0 { built.closed = Some(cl); }
            built.merged = Some(m);
            r
        }
    };
    let hc: Vec<String> = holes.iter().map(loop_coq).collect();
    let hj: Vec<String> = holes.iter().map(loop_json).collect();
    sink.push(
        format!("CM ({}, {}, {}, ({}%N, {}), ({}%N, {}))", loop_coq(outer), loops_coq(&hc), sfs(&[pg.area(), n.x, n.y, n.z]), mo, mc, co, cc),
        format!("{{{}\"kind\":\"merge\",\"note\":\"{}\",\"outer\":{},\"holes\":[{}],\"area\":{},\"n\":{},\"mo\":{},\"merged\":{},\"co\":{},\"closed\":{}}}", f32_mark(),
                note, loop_json(outer), hj.join(","), jf(pg.area()), jfs(&[n.x, n.y, n.z]), mo, mj, co, cj),
    );
    Some(built)
}

// -------------------------------------------------------------------------------------
// C12 (continued): the remaining public operations of Loop3D / Polygon3D, called directly on the loops and polygons of a
// merge case and on loops derived from them through the public API (remove / open / unfinished outlines).
// One "ops" case = one group of calls on a list of subject loops (outer first, then the holes when the polygon is involved):
//   op 1 Loop3D::is_diagonal(seg)      2 Loop3D::sanitize()            3 Loop3D::contains_segment(seg)
//      4 Polygon3D::contains_segment    5 Loop3D::perimeter()           6 Loop3D::area()
//      7 Loop3D::is_coplanar(p)         8 Loop3D::remove(i)             9 Loop3D index [i]       10 Polygon3D::inner(i)
//     11 Polygon3D::new(loop) + clone_outer + n_vertices
// outcome class: booleans 0 false / 1 true; values 0 = Ok; 100 + class = Err; 99 = panic.
// -------------------------------------------------------------------------------------
struct Q { op: u32, subj: usize, idx: usize, args: Vec<Float>, lab: &'static str }
const OP_NAMES: [&str; 12] = ["?", "is_diagonal", "sanitize", "contains_segment", "poly_contains_segment", "perimeter", "area", "is_coplanar", "remove", "index", "inner", "poly_new"];
fn bclass(r: Result<Result<bool, String>, String>) -> u32 { match r { Ok(Ok(false)) => 0, Ok(Ok(true)) => 1, Ok(Err(m)) => 100 + perr_class(&m), Err(_) => 99 } }
fn seg_of(a: &[Float]) -> Segment3D { Segment3D::new(Point3D::new(a[0], a[1], a[2]), Point3D::new(a[3], a[4], a[5])) }
/// runs one query on the real objects: (class, floats, loop)
fn run_query(loops: &[Loop3D], pg: Option<&Polygon3D>, q: &Q) -> (u32, Vec<Float>, Option<Loop3D>) {
    let l = &loops[q.subj.min(loops.len() - 1)];
    let a = &q.args;
    match q.op {
        1 => (bclass(catch(AUS(|| l.is_diagonal(seg_of(a))))), vec![], None),
        2 => match catch(AUS(|| l.clone().sanitize())) { Ok(Ok(n)) => (0, vec![], Some(n)), Ok(Err(m)) => (100 + perr_class(&m), vec![], None), Err(_) => (99, vec![], None) },
        3 => (bclass(catch(AUS(|| Ok(l.contains_segment(&seg_of(a)))))), vec![], None),
        4 => (bclass(catch(AUS(|| Ok(pg.unwrap().contains_segment(&seg_of(a)))))), vec![], None),
        5 | 6 => match catch(AUS(|| if q.op == 5 { l.perimeter() } else { l.area() })) { Ok(Ok(x)) => (0, vec![x], None), Ok(Err(m)) => (100 + perr_class(&m), vec![], None), Err(_) => (99, vec![], None) },
        7 => (bclass(catch(AUS(|| l.is_coplanar(Point3D::new(a[0], a[1], a[2]))))), vec![], None),
        8 => { let mut c = l.clone(); match catch(AUS(|| c.remove(q.idx))) { Ok(()) => (0, vec![], Some(c)), Err(_) => (99, vec![], None) } }
        9 => match catch(AUS(|| l[q.idx])) { Ok(p) => (0, vec![p.x, p.y, p.z], None), Err(_) => (99, vec![], None) },
        // Polygon3D::new on any loop (open: Err 34), observed through area / normal / n_inner_loops / clone_outer().n_vertices()
        11 => match catch(AUS(|| Polygon3D::new(l.clone()))) {
            Ok(Ok(p)) => { let n = p.normal(); (0, vec![p.area(), n.x, n.y, n.z, p.n_inner_loops() as Float, p.clone_outer().n_vertices() as Float], None) }
            Ok(Err(m)) => (100 + perr_class(&m), vec![], None), Err(_) => (99, vec![], None) },
        _ => match catch(AUS(|| pg.unwrap().inner(q.idx).map(|x| x.clone()))) { Ok(Ok(x)) => (0, vec![], Some(x)), Ok(Err(m)) => (100 + perr_class(&m), vec![], None), Err(_) => (99, vec![], None) },
    }
}
fn sfl_typed(x: &[Float]) -> String { if x.is_empty() { "nosf".to_string() } else { sfs(x) } }
/// emits one "ops" case: the subject loops, `nh` (> 0: loops[0] is the outer loop and loops[1..=nh] the holes of the polygon `pg`), the queries
fn ops_emit(sink: &mut Sink, group: &str, note: &str, loops: &[Loop3D], labels: &[String], pg: Option<&Polygon3D>, qs: &[Q]) {
    if qs.is_empty() || loops.is_empty() { return; }
    let (nh, an) = match pg { Some(p) => { let n = p.normal(); (p.n_inner_loops(), vec![p.area(), n.x, n.y, n.z]) } None => (0, vec![]) };
    let mut cq = vec![]; let mut jq = vec![];
    for q in qs {
        let (cls, efl, el) = run_query(loops, pg, q);
        cq.push(format!("({}%N, {}%N, {}%N, {}, {}%N, {}, {})", q.op, q.subj, q.idx, sfl_typed(&q.args), cls, sfl_typed(&efl), match &el { Some(l) => loop_coq(l), None => "noloop".to_string() }));
        jq.push(format!("{{\"op\":{},\"name\":\"{}\",\"subj\":{},\"idx\":{},\"args\":{},\"lab\":\"{}\",\"class\":{},\"efl\":{},\"eloop\":{}}}",
                        q.op, OP_NAMES[q.op as usize], q.subj, q.idx, jfs(&q.args), q.lab, cls, jfs(&efl), match &el { Some(l) => loop_json(l), None => "null".to_string() }));
    }
    let lc: Vec<String> = loops.iter().map(loop_coq).collect();
    let lj: Vec<String> = loops.iter().map(loop_json).collect();
    let lb: Vec<String> = labels.iter().map(|x| format!("\"{}\"", x)).collect();
    sink.push(
        format!("CQ {}%N {} {} [{}]", if pg.is_some() { nh + 1 } else { 0 }, sfl_typed(&an), loops_coq(&lc), cq.join("; ")),
        format!("{{{}\"kind\":\"ops\",\"group\":\"{}\",\"note\":\"{}\",\"poly\":{},\"nh\":{},\"an\":{},\"loops\":[{}],\"labels\":[{}],\"qs\":[{}]}}", f32_mark(),
                group, note, pg.is_some(), nh, jfs(&an), lj.join(","), lb.join(","), jq.join(",")),
    );
}
fn pf(p: Point3D) -> [Float; 3] { [p.x, p.y, p.z] }
fn seg_args(a: Point3D, b: Point3D) -> Vec<Float> { vec![a.x, a.y, a.z, b.x, b.y, b.z] }
fn lerp3(a: Point3D, b: Point3D, t: f64) -> Point3D {
    Point3D::new((a.x as f64 + (b.x as f64 - a.x as f64) * t) as Float, (a.y as f64 + (b.y as f64 - a.y as f64) * t) as Float, (a.z as f64 + (b.z as f64 - a.z as f64) * t) as Float)
}
fn shift3(a: Point3D, n: Vector3D, h: f64) -> Point3D {
    Point3D::new((a.x as f64 + n.x as f64 * h) as Float, (a.y as f64 + n.y as f64 * h) as Float, (a.z as f64 + n.z as f64 * h) as Float)
}
fn dist3(a: Point3D, b: Point3D) -> f64 { (((a.x - b.x) as f64).powi(2) + ((a.y - b.y) as f64).powi(2) + ((a.z - b.z) as f64).powi(2)).sqrt() }

/// chords of one subject loop for is_diagonal
fn diagonal_queries(x: &mut Rng, subj: usize, l: &Loop3D, nrm: Vector3D, out: &mut Vec<Q>) {
    let v = l.vertices(); let n = v.len();
    if n < 3 { out.push(Q { op: 1, subj, idx: 0, args: vec![0.0, 0.0, 0.0, 1.0, 0.0, 0.0], lab: "few-vertices" }); return; }
    let at = |i: usize| v[i % n];
    // the chord of a corner, as from_polygon asks (v[i], v[i+2])
    for _ in 0..2 { let i = x.below(n as u64) as usize; out.push(Q { op: 1, subj, idx: 0, args: seg_args(at(i), at(i + 2)), lab: "corner-chord" }); }
    // any two vertices
    for _ in 0..2 { let i = x.below(n as u64) as usize; let j = x.below(n as u64) as usize; out.push(Q { op: 1, subj, idx: 0, args: seg_args(at(i), at(j)), lab: if i == j { "same-vertex" } else { "vertex-pair" } }); }
    // along an edge: the edge itself, half of it, beyond its end, reversed
    { let i = x.below(n as u64) as usize; let (a, b) = (at(i), at(i + 1));
      let (args, lab): (Vec<Float>, &'static str) = match x.below(4) { 0 => (seg_args(a, b), "edge"), 1 => (seg_args(b, a), "edge-reversed"), 2 => (seg_args(a, lerp3(a, b, 0.5)), "half-edge"), _ => (seg_args(a, lerp3(a, b, 1.5)), "edge-overshoot") };
      out.push(Q { op: 1, subj, idx: 0, args, lab }); }
    // very short chords, on both sides of the 1e-5 threshold
    { let i = x.below(n as u64) as usize; let j = (i + 2 + x.below((n - 2).max(1) as u64) as usize) % n; let (a, b) = (at(i), at(j)); let d = dist3(a, b);
      if d > 1e-3 { let len = *x.pick(&[0.5e-5, 0.99e-5, 1.01e-5, 2e-5, 1e-4]); out.push(Q { op: 1, subj, idx: 0, args: seg_args(a, lerp3(a, b, len / d)), lab: "short" }); } }
    // chords from a vertex that occurs twice (the bridge vertices of a merged outline), and the zero-length chord between its two copies
    let dup: Vec<(usize, usize)> = (0..n).flat_map(|i| (i + 1..n).map(move |j| (i, j))).filter(|(i, j)| pf(v[*i]) == pf(v[*j])).collect();
    if !dup.is_empty() {
        let (i, j) = *x.pick(&dup);
        let k = x.below(n as u64) as usize;
        out.push(Q { op: 1, subj, idx: 0, args: seg_args(at(i), at(k)), lab: "from-bridge-vertex" });
        out.push(Q { op: 1, subj, idx: 0, args: seg_args(at(j), at(j + 2)), lab: "from-bridge-vertex" });
        if x.chance(0.3) { out.push(Q { op: 1, subj, idx: 0, args: seg_args(at(i), at(j)), lab: "bridge-copies" }); }
    }
    // a segment floating between two chord midpoints; a chord leaving the plane
    if x.chance(0.5) { let (i, j, k) = (x.below(n as u64) as usize, x.below(n as u64) as usize, x.below(n as u64) as usize);
        out.push(Q { op: 1, subj, idx: 0, args: seg_args(lerp3(at(i), at(j), 0.5), lerp3(at(j), at(k), 0.4)), lab: "floating" }); }
    if x.chance(0.3) { let (i, j) = (x.below(n as u64) as usize, x.below(n as u64) as usize);
        out.push(Q { op: 1, subj, idx: 0, args: seg_args(at(i), shift3(at(j), nrm, *x.pick(&[1e-6, 1e-3, 0.3]))), lab: "off-plane" }); }
}
/// segments for contains_segment of one loop (op 3) or of the polygon (op 4)
fn contains_queries(x: &mut Rng, op: u32, subj: usize, l: &Loop3D, out: &mut Vec<Q>) {
    let v = l.vertices(); let n = v.len();
    if n == 0 { out.push(Q { op, subj, idx: 0, args: vec![0.0, 0.0, 0.0, 1.0, 0.0, 0.0], lab: "empty-loop" }); return; }
    let at = |i: usize| v[i % n];
    let i = x.below(n as u64) as usize; let (a, b) = (at(i), at(i + 1));
    out.push(Q { op, subj, idx: 0, args: seg_args(a, b), lab: "edge" });
    match x.below(5) {
        0 => out.push(Q { op, subj, idx: 0, args: seg_args(b, a), lab: "edge-reversed" }),
        1 => out.push(Q { op, subj, idx: 0, args: seg_args(a, at(i + 2)), lab: "corner-chord" }),
        2 => { let e = *x.pick(&[1e-7, 5e-6, 0.99e-5, 1.01e-5, 1e-4]); out.push(Q { op, subj, idx: 0, args: seg_args(Point3D::new(a.x + e as Float, a.y, a.z), b), lab: "edge-perturbed" }) }
        3 => out.push(Q { op, subj, idx: 0, args: seg_args(a, lerp3(a, b, 0.5)), lab: "half-edge" }),
        _ => out.push(Q { op, subj, idx: 0, args: seg_args(at(n - 1), at(0)), lab: "closing-edge" }),
    }
}

/// loops derived from the outline through the public API: a redundant vertex on an edge kept alive by a bump that is then removed
/// (collinear run), a retraced spike, an outline left open, a closed loop that lost a corner, an opened loop
fn derived_loops(x: &mut Rng, fr: &Frame, poly: &[P2], outer: &Loop3D) -> Vec<(Loop3D, String)> {
    let mut d: Vec<(Loop3D, String)> = vec![];
    let n = poly.len();
    let k = x.below(n as u64) as usize;
    let (a, c) = (poly[k], poly[(k + 1) % n]);
    let (ex, ey) = (c.0 - a.0, c.1 - a.1); let el = (ex * ex + ey * ey).sqrt();
    if el > 1e-3 {
        let (nx, ny) = (-ey / el, ex / el);
        let h = el * x.range(0.03, 0.12) * if x.chance(0.5) { 1.0 } else { -1.0 };
        let bump = (a.0 + 0.25 * ex + h * nx, a.1 + 0.25 * ey + h * ny);
        let b = (a.0 + 0.5 * ex, a.1 + 0.5 * ey);
        let find = |l: &Loop3D, p: P2| -> Option<usize> { let q = fr.at(p.0, p.1); l.vertices().iter().position(|w| pf(*w) == pf(q)) };
        // (i) collinear run a, b, c: closed and open
        let mut enr: Vec<P2> = poly[..=k].to_vec(); enr.push(bump); enr.push(b); enr.extend_from_slice(&poly[k + 1..]);
        for closed in [true, false] {
            let l = if closed { make_loop(fr, &enr) } else { open_loop(fr, &enr) };
            if let Some(mut l) = l { if let Some(i) = find(&l, bump) { if catch(AUS(|| l.remove(i))).is_ok() { d.push((l, format!("collinear-run:{}", if closed { "closed" } else { "open" }))); } } }
        }
        // (ii) retraced spike b -> s -> b (the second visit of b survives push because an auxiliary vertex y separates it from s)
        let s = (b.0 - 2.0 * h * nx, b.1 - 2.0 * h * ny);
        let y = (s.0 + 0.1 * ex, s.1 + 0.1 * ey);
        let mut sp: Vec<P2> = poly[..=k].to_vec(); sp.push(b); sp.push(s); sp.push(y); sp.push(b); sp.extend_from_slice(&poly[k + 1..]);
        for closed in [true, false] {
            let l = if closed { make_loop(fr, &sp) } else { open_loop(fr, &sp) };
            if let Some(mut l) = l { if let Some(i) = find(&l, y) { if catch(AUS(|| l.remove(i))).is_ok() { d.push((l, format!("spike:{}", if closed { "closed" } else { "open" }))); } } }
        }
    }
    // (iii) a closed loop that lost a vertex (what from_polygon does to its working copy), and the outline opened again
    if outer.len() >= 4 { let mut l = outer.clone(); let i = x.below(l.len() as u64) as usize; if catch(AUS(|| l.remove(i))).is_ok() { d.push((l, "corner-removed:closed".to_string())); } }
    { let mut l = outer.clone(); l.open(); d.push((l, "opened".to_string())); }
    d
}

/// the four groups of queries that follow a merge case
fn c12_ops(sink: &mut Sink, x: &mut Rng, note: &str, fr: &Frame, poly: &[P2], outer: &Loop3D, holes: &[Loop3D], built: &C12Built) {
    let nrm = built.pg.normal();
    let derived = derived_loops(x, fr, poly, outer);
    let mut short = Loop3D::new(); for p in outer.vertices().iter().take(2) { let _ = short.push(*p); }
    // ---- group 1: is_diagonal on the outer loop, the closed merged outline, a closed loop that lost a corner, the open merged outline
    {
        let mut loops = vec![outer.clone()]; let mut labels = vec!["outer".to_string()];
        if let Some(c) = &built.closed { if !holes.is_empty() { loops.push(c.clone()); labels.push("merged-closed".to_string()); } }
        for (l, lab) in derived.iter() { if lab.starts_with("corner-removed") || (lab.starts_with("opened") && x.chance(0.3)) || (lab.starts_with("collinear-run:closed") && x.chance(0.5)) { loops.push(l.clone()); labels.push(lab.clone()); } }
        if x.chance(0.1) { loops.push(Loop3D::new()); labels.push("empty".to_string()); }
        if x.chance(0.1) { loops.push(short.clone()); labels.push("two-vertices".to_string()); }
        let mut qs = vec![];
        for (i, l) in loops.iter().enumerate() {
            if l.is_empty() { qs.push(Q { op: 1, subj: i, idx: 0, args: vec![0.0, 0.0, 0.0, 1.0, 0.0, 0.0], lab: "empty-loop" }); continue; }
            diagonal_queries(x, i, l, nrm, &mut qs);
        }
        ops_emit(sink, "is_diagonal", note, &loops, &labels, None, &qs);
    }
    // ---- group 2: sanitize
    {
        let mut loops = vec![outer.clone()]; let mut labels = vec!["outer".to_string()];
        if let Some(c) = &built.closed { if !holes.is_empty() { loops.push(c.clone()); labels.push("merged-closed".to_string()); } }
        if let Some(m) = &built.merged { if !holes.is_empty() { loops.push(m.clone()); labels.push("merged-open".to_string()); } }
        for (l, lab) in derived.iter() { loops.push(l.clone()); labels.push(lab.clone()); }
        if x.chance(0.15) { loops.push(Loop3D::new()); labels.push("empty".to_string()); }
        if x.chance(0.15) { loops.push(short.clone()); labels.push("two-vertices".to_string()); }
        let qs: Vec<Q> = (0..loops.len()).map(|i| Q { op: 2, subj: i, idx: 0, args: vec![], lab: "sanitize" }).collect();
        ops_emit(sink, "sanitize", note, &loops, &labels, None, &qs);
    }
    // ---- group 3: contains_segment of loops and of the polygon; Polygon3D::inner
    {
        let mut loops = vec![outer.clone()]; let mut labels = vec!["outer".to_string()];
        for (i, h) in holes.iter().enumerate() { loops.push(h.clone()); labels.push(format!("hole{}", i)); }
        let nh = holes.len();
        let mut qs = vec![];
        for i in 0..loops.len() { contains_queries(x, 3, i, &loops[i], &mut qs); contains_queries(x, 4, i, &loops[i], &mut qs); }
        // an edge of a hole is not an edge of the outer loop (op 3 on subject 0) but is one of the polygon (op 4)
        if nh > 0 { let h = &loops[1]; let hv = h.vertices(); qs.push(Q { op: 3, subj: 0, idx: 0, args: seg_args(hv[0], hv[1]), lab: "hole-edge-vs-outer" }); }
        for idx in [0, nh.saturating_sub(1), nh, nh + 2] { qs.push(Q { op: 10, subj: 0, idx, args: vec![], lab: if idx < nh { "inner:in-range" } else { "inner:out-of-range" } }); }
        let extra = loops.len();
        if x.chance(0.2) { loops.push(Loop3D::new()); labels.push("empty".to_string()); contains_queries(x, 3, extra, &loops[extra].clone(), &mut qs); }
        ops_emit(sink, "contains_segment+inner", note, &loops, &labels, Some(&built.pg), &qs);
    }
    // ---- group 4: perimeter / area (closed: value, open: error), is_coplanar (incl. its two error classes), remove, index
    {
        let mut loops = vec![outer.clone()]; let mut labels = vec!["outer".to_string()];
        if let Some(m) = &built.merged { loops.push(m.clone()); labels.push("merged-open".to_string()); }
        if let Some(c) = &built.closed { loops.push(c.clone()); labels.push("merged-closed".to_string()); }
        for (l, lab) in derived.iter() { if lab.starts_with("opened") || lab.starts_with("corner-removed") || x.chance(0.3) { loops.push(l.clone()); labels.push(lab.clone()); } }
        loops.push(Loop3D::new()); labels.push("empty".to_string());
        loops.push(short.clone()); labels.push("two-vertices".to_string());
        let mut qs = vec![];
        for (i, l) in loops.iter().enumerate() {
            qs.push(Q { op: 5, subj: i, idx: 0, args: vec![], lab: if l.is_closed() { "closed" } else { "open" } });
            qs.push(Q { op: 6, subj: i, idx: 0, args: vec![], lab: if l.is_closed() { "closed" } else { "open" } });
            qs.push(Q { op: 11, subj: i, idx: 0, args: vec![], lab: if l.is_closed() { "closed" } else { "open" } });
            let n = l.len();
            let base = if n > 0 { l.vertices()[x.below(n as u64) as usize] } else { Point3D::new(0.0, 0.0, 0.0) };
            let h = *x.pick(&[0.0, 0.5e-7, 0.99e-7, 1.01e-7, 2e-7, 1e-3, 0.5]) * if x.chance(0.5) { 1.0 } else { -1.0 };
            let q = if n >= 3 { let w = l.vertices()[x.below(n as u64) as usize]; lerp3(base, w, x.range(-0.5, 1.5)) } else { base };
            let pt = shift3(q, nrm, h);
            qs.push(Q { op: 7, subj: i, idx: 0, args: vec![pt.x, pt.y, pt.z], lab: if n == 0 { "no-vertices" } else if n < 3 { "no-normal" } else if h.abs() < 0.9e-7 { "in-plane" } else if h.abs() < 3e-7 { "boundary" } else { "off-plane" } });
            if i < 3 || x.chance(0.4) {
                let idx = match x.below(4) { 0 => n, 1 => n + 3, _ => x.below(n.max(1) as u64) as usize };
                qs.push(Q { op: 8, subj: i, idx, args: vec![], lab: if idx < n { "in-range" } else { "out-of-range" } });
                let idx = match x.below(4) { 0 => n, 1 => n + 3, _ => x.below(n.max(1) as u64) as usize };
                qs.push(Q { op: 9, subj: i, idx, args: vec![], lab: if idx < n { "in-range" } else { "out-of-range" } });
            }
        }
        ops_emit(sink, "getters+remove+index", note, &loops, &labels, None, &qs);
    }
}
fn spec_pts(h: &HoleSpec) -> Vec<P2> {
    match &h.explicit {
        Some(p) => { let q: Vec<P2> = if area2(p) > 0.0 { p.to_vec() } else { reversed(p) }; let q = if h.ccw { q } else { reversed(&q) }; rotate_start(&q, h.start % q.len()) }
        None => ngon(h.c, h.rad, &h.fac, h.phase, h.ccw, h.start),
    }
}
/// an arrowhead hole whose NOTCH (its reflex vertex) faces a convex corner E of the outline and is the hole vertex nearest
/// to it: the bridge lands on a reflex vertex of the hole (seeded change C12-m4: walk direction taken from the local turn)
fn arrow_hole(r: &mut Rng, poly: &[P2]) -> Option<(P2, f64, Vec<P2>)> {
    let n = poly.len(); let sg = area2(poly).signum();
    for _ in 0..12 {
        let i = r.below(n as u64) as usize;
        let (a, e, b) = (poly[(i + n - 1) % n], poly[i], poly[(i + 1) % n]);
        if ((e.0 - a.0) * (b.1 - e.1) - (e.1 - a.1) * (b.0 - e.0)) * sg <= 0.0 { continue; }   // convex corners only
        let (la, lb) = (d2(a, e), d2(b, e));
        let ua = ((a.0 - e.0) / la, (a.1 - e.1) / la); let ub = ((b.0 - e.0) / lb, (b.1 - e.1) / lb);
        let (sx, sy) = (ua.0 + ub.0, ua.1 + ub.1); let sl = (sx * sx + sy * sy).sqrt();
        if sl < 0.5 { continue; }                                                                   // sharper than ~150 degrees: skip
        let u = (sx / sl, sy / sl); let v = (-u.1, u.0);
        let rh = la.min(lb) * r.range(0.06, 0.12); let dd = rh * r.range(1.6, 2.2);
        let at = |x: f64, y: f64| (e.0 + x * u.0 + y * v.0, e.1 + x * u.1 + y * v.1);
        let pts = vec![at(dd, 0.0), at(dd - 0.2 * rh, -rh), at(dd + 0.8 * rh, 0.0), at(dd - 0.2 * rh, rh)];
        if pts.iter().all(|p| inside2(poly, *p) && dist_to_outline(poly, *p) > 0.25 * rh) { return Some((at(dd + 0.3 * rh, 0.0), 1.1 * rh, pts)); }
    }
    None
}

pub fn run_c12(seed: u64, n: usize, out: &str, with_ops: bool) {
    let mut r = Rng::new(seed ^ 0xC12);
    // the operation queries draw from their own generator state: the merge cases are the same with and without them
    let mut x = Rng::new(seed ^ 0xC120B5);
    let mut n_merge = 0usize;
    let mut sink = Sink::new32(out, "C12", 25);
    // corpus first: the witness of the index defect (unit square, triangular hole wound like the outline), and the crate's test
    {
        let fr = Frame::xy();
        let outer = make_loop(&fr, &[(0.0, 0.0), (1.0, 0.0), (1.0, 1.0), (0.0, 1.0)]).unwrap();
        let h = make_loop(&fr, &[(0.3, 0.3), (0.6, 0.3), (0.45, 0.6)]).unwrap();
        let sq = [(0.0, 0.0), (1.0, 0.0), (1.0, 1.0), (0.0, 1.0)];
        if let Some(b) = c12_emit(&mut sink, "corpus:F12-witness", &outer, &[h.clone()]) { n_merge += 1; if with_ops { c12_ops(&mut sink, &mut x, "corpus:F12-witness", &fr, &sq, &outer, &[h], &b); } }
        let outer = make_loop(&fr, &[(-2.0, -2.0), (6.0, -2.0), (6.0, 6.0), (-2.0, 6.0)]).unwrap();
        let h = make_loop(&fr, &[(-1.0, -1.0), (1.0, -1.0), (1.0, 1.0), (-1.0, 1.0)]).unwrap();
        if c12_emit(&mut sink, "corpus:crate-test", &outer, &[h]).is_some() { n_merge += 1; }
    }
    while n_merge < n {
        let fr = frame_for(&mut r, 1000.0);
        let nmax = if r.chance(0.2) { 24 } else { 10 };
        let (poly, fam) = rand_outline(&mut r, nmax);
        let outer = match make_loop(&fr, &poly) { Some(l) => l, None => continue };
        let scale = area2(&poly).abs().sqrt();
        let nh = match r.below(10) { 0 => 0, 1..=4 => 1, 5..=7 => 2, _ => 3 };
        let mut specs: Vec<HoleSpec> = vec![];
        let mut occ: Vec<(P2, f64)> = vec![];
        for _ in 0..nh {
            let k = 3 + r.below(6) as usize;
            let rad = scale * r.range(0.04, 0.11);
            if r.chance(0.15) {
                if let Some((c, rad, pts)) = arrow_hole(&mut r, &poly) {
                    if !occ.iter().any(|(o, ro)| d2(*o, c) < rad + ro + 0.06 * scale) {
                        occ.push((c, rad));
                        specs.push(HoleSpec { c, rad, fac: vec![1.0; 4], phase: 0.0, ccw: r.chance(0.5), start: r.below(4) as usize, explicit: Some(pts) });
                        continue;
                    }
                }
            }
            if let Some(c) = place_inside(&mut r, &poly, &occ, rad * 1.3 + 0.04 * scale, 0.06 * scale) {
                occ.push((c, rad));
                specs.push(HoleSpec { c, rad, fac: rand_fac(&mut r, k), phase: r.range(0.0, 6.28), ccw: r.chance(0.5), start: r.below(k as u64) as usize, explicit: None });
            }
        }
        if specs.len() != nh { continue; }
        let note = format!("{}:plane{}:h{}", fam, fr.kind, nh);
        if nh >= 1 && r.chance(0.06) {
            // sweep: every cyclic start and both windings of one hole, the rest fixed
            let w = r.below(nh as u64) as usize;
            let k = specs[w].fac.len();
            for ccw in [true, false] { for start in 0..k {
                let mut sp = specs.clone(); sp[w].ccw = ccw; sp[w].start = start;
                let hs: Option<Vec<Loop3D>> = sp.iter().map(|h| make_loop(&fr, &spec_pts(h))).collect();
                if let Some(hs) = hs { if c12_emit(&mut sink, &format!("{}:sweep{}", note, k), &outer, &hs).is_some() { n_merge += 1; } }
            } }
        } else {
            let hs: Option<Vec<Loop3D>> = specs.iter().map(|h| make_loop(&fr, &spec_pts(h))).collect();
            if let Some(hs) = hs {
                if let Some(b) = c12_emit(&mut sink, &note, &outer, &hs) {
                    n_merge += 1;
                    // the other public operations of Loop3D / Polygon3D on (a third of) the same polygons
                    if with_ops && x.chance(0.3) { c12_ops(&mut sink, &mut x, &note, &fr, &poly, &outer, &hs, &b); }
                }
            }
        }
    }
    sink.flush();
}
pub fn replay_c12(args: &[String]) {
    let (outer, mut off) = bits_loop(args);
    let mut hs = vec![];
    while off < args.len() { let (h, k) = bits_loop(&args[off..]); off += k; hs.push(h); }
    let mut sink = Sink::new32("/dev/null", "C12", 1);
    if c12_emit(&mut sink, "replay", &outer, &hs).is_none() { println!("replay: the polygon could not be rebuilt (cut_hole refused)"); }
    for j in &sink.json { println!("{}", j); }
}

// =====================================================================================
// C20: JSON
// =====================================================================================
use serde_json::Value;

/// the parsed document as the runner's tree (numbers as f64, exactly what `as_f64` gives the deserialiser)
fn value_coq(v: &Value) -> String {
    match v {
        Value::Null => "jnull".into(),
        Value::Bool(b) => format!("(jbool {})", coq_bool(*b)),
        Value::Number(x) => format!("(jnum {})", sf(x.as_f64().unwrap() as Float)),
        Value::String(_) => "jstr".into(),
        Value::Array(a) => format!("(jarr [{}])", a.iter().map(value_coq).collect::<Vec<_>>().join("; ")),
        Value::Object(m) => format!("(jobj [{}])", m.iter().map(|(_, x)| value_coq(x)).collect::<Vec<_>>().join("; ")),
    }
}
const NOLOOP_C: &str = "noloop";
fn de_loop_obs(text: &str) -> (u32, String, String, String) {
    match catch(AUS(|| serde_json::from_str::<Loop3D>(text))) {
        Ok(Ok(l)) => (0, loop_coq(&l), loop_json(&l), String::new()),
        Ok(Err(e)) => { let m = e.to_string(); (perr_class(&m), NOLOOP_C.into(), "null".into(), m) }
        Err(m) => (99, NOLOOP_C.into(), "null".into(), m),
    }
}
fn de_poly_obs(text: &str) -> (u32, String, String, String) {
    match catch(AUS(|| serde_json::from_str::<Polygon3D>(text))) {
        Ok(Ok(p)) => {
            let n = p.normal();
            (0, format!("({}, {}, {}%N)", loop_coq(p.outer()), sfs(&[p.area(), n.x, n.y, n.z]), p.n_inner_loops()),
             format!("{{\"outer\":{},\"area\":{},\"n\":{},\"ninner\":{}}}", loop_json(p.outer()), jf(p.area()), jfs(&[n.x, n.y, n.z]), p.n_inner_loops()), String::new())
        }
        Ok(Err(e)) => { let m = e.to_string(); (perr_class(&m), format!("({}, nosf, 0%N)", NOLOOP_C), "null".into(), m) }
        Err(m) => (99, format!("({}, nosf, 0%N)", NOLOOP_C), "null".into(), m),
    }
}
fn jstr(s: &str) -> String { serde_json::to_string(s).unwrap() }
fn flat_numbers(v: &Value) -> Option<Vec<Float>> {
    if let Value::Array(a) = v { a.iter().map(|x| x.as_f64().map(|f| f as Float)).collect() } else { None }
}

/// a document fed as TEXT to the real deserialisers and as a parsed tree to the model.
/// `src`: (kind 1 = serialised loop, 2 = serialised polygon, 0 = free document), the source loop / polygon.
fn c20_doc(sink: &mut Sink, note: &str, text: &str, src: Option<(&Loop3D, &[Loop3D], Option<&Polygon3D>)>) {
    let parsed: Result<Value, _> = serde_json::from_str::<Value>(text);
    let (lo, lc, lj, lm) = de_loop_obs(text);
    let (po, pc, pj, pm) = de_poly_obs(text);
    let (kind, tree) = match &parsed { Ok(v) => (if let Some((_, _, pp)) = src { if pp.is_some() { 2 } else { 1 } } else { 0 }, value_coq(v)), Err(_) => (9, "jnull".to_string()) };
    let (src_c, src_j) = match src {
        Some((l, hs, pp)) => {
            let hc: Vec<String> = hs.iter().map(loop_coq).collect();
            let hj: Vec<String> = hs.iter().map(loop_json).collect();
            let (pa, paj) = match pp { Some(p) => { let n = p.normal(); (sfs(&[p.area(), n.x, n.y, n.z]), jfs(&[p.area(), n.x, n.y, n.z])) } None => ("nosf".to_string(), "[]".to_string()) };
            (format!("({}, {}, {})", loop_coq(l), loops_coq(&hc), pa), format!("{{\"loop\":{},\"holes\":[{}],\"pa\":{}}}", loop_json(l), hj.join(","), paj))
        }
        None => (format!("({}, noloops, nosf)", NOLOOP_C), "null".to_string()),
    };
    let nums = parsed.as_ref().ok().and_then(flat_numbers);
    sink.push(
        format!("({}%N, {}, {}, ({}%N, {}), ({}%N, {}))", kind, tree, src_c, lo, lc, po, pc),
        format!("{{{}\"kind\":{},\"note\":\"{}\",\"text\":{},\"parse_ok\":{},\"nums\":{},\"src\":{},\"lo\":{},\"loop\":{},\"lmsg\":{},\"po\":{},\"poly\":{},\"pmsg\":{}}}", f32_mark(),
                kind, note, jstr(text), parsed.is_ok(), match nums { Some(v) => jfs(&v), None => "null".into() }, src_j, lo, lj, jstr(&lm), po, pj, jstr(&pm)),
    );
}
/// Point3D / Vector3D round trip through the derived impls (no model: derive is trusted; checked by the oracle)
fn c20_pv(sink: &mut Sink, r: &mut Rng) {
    let p = [rand_float(r), rand_float(r), rand_float(r)];
    let isvec = r.chance(0.5);
    let fin = p.iter().all(|x| x.is_finite());
    let text = if isvec { serde_json::to_string(&Vector3D::new(p[0], p[1], p[2])).unwrap() } else { serde_json::to_string(&Point3D::new(p[0], p[1], p[2])).unwrap() };
    let back: Result<Result<Vec<Float>, String>, String> = catch(AUS(|| {
        if isvec { serde_json::from_str::<Vector3D>(&text).map(|v| vec![v.x, v.y, v.z]).map_err(|e| e.to_string()) }
        else { serde_json::from_str::<Point3D>(&text).map(|v| vec![v.x, v.y, v.z]).map_err(|e| e.to_string()) }
    }));
    let (o, b) = match back { Ok(Ok(v)) => (0, v), Ok(Err(_)) => (1, vec![]), Err(_) => (99, vec![]) };
    sink.push(
        format!("(8%N, jnull, ({}, noloops, nosf), (0%N, {}), (0%N, ({}, nosf, 0%N)))", NOLOOP_C, NOLOOP_C, NOLOOP_C),
        format!("{{{}\"kind\":8,\"note\":\"{}\",\"text\":{},\"orig\":{},\"finite\":{},\"o\":{},\"back\":{}}}", f32_mark(), if isvec { "vector" } else { "point" }, jstr(&text), jfs(&p), fin, o, jfs(&b)),
    );
}
fn c20_pv_malformed(sink: &mut Sink, text: &str) {
    let o1 = match catch(AUS(|| serde_json::from_str::<Point3D>(text).map(|_| ()).map_err(|e| e.to_string()))) { Ok(Ok(())) => 0, Ok(Err(_)) => 1, Err(_) => 99 };
    let o2 = match catch(AUS(|| serde_json::from_str::<Vector3D>(text).map(|_| ()).map_err(|e| e.to_string()))) { Ok(Ok(())) => 0, Ok(Err(_)) => 1, Err(_) => 99 };
    sink.push(
        format!("(8%N, jnull, ({}, noloops, nosf), (0%N, {}), (0%N, ({}, nosf, 0%N)))", NOLOOP_C, NOLOOP_C, NOLOOP_C),
        format!("{{{}\"kind\":7,\"note\":\"pv-malformed\",\"text\":{},\"o\":{},\"o2\":{}}}", f32_mark(), jstr(text), o1, o2),
    );
}

fn fmt_nums(v: &[f64]) -> String { format!("[{}]", v.iter().map(|x| serde_json::to_string(x).unwrap()).collect::<Vec<_>>().join(",")) }
fn flat3(fr: &Frame, pts: &[P2]) -> Vec<f64> { pts.iter().flat_map(|p| { let q = fr.at(p.0, p.1); vec![q.x as f64, q.y as f64, q.z as f64] }).collect() }

/// malformed (and a few unusual but valid) documents of every kind listed in the property
fn malformed_docs(r: &mut Rng) -> Vec<(String, String)> {
    let fr = frame_for(r, 100.0);
    let (poly, _) = simple_polygon(r, 8);
    let good = flat3(&fr, &poly);
    let mut d: Vec<(String, String)> = vec![];
    let mut add = |k: &str, t: String| d.push((k.to_string(), t));
    // wrong arity
    let cut = 1 + r.below(2) as usize;
    add("arity", fmt_nums(&good[..good.len() - cut]));
    add("arity", "[1,2]".into()); add("arity", "[1]".into()); add("arity", "[0,0,0,1,0,0,1,1,0,5]".into());
    // non-numeric elements at a random position
    for bad in ["\"a\"", "true", "false", "null", "[1,2,3]", "{}", "{\"x\":1}", "\"1.5\""] {
        let mut parts: Vec<String> = good.iter().map(|x| serde_json::to_string(x).unwrap()).collect();
        let i = r.below(parts.len() as u64) as usize; parts[i] = bad.to_string();
        add("non-numeric", format!("[{}]", parts.join(",")));
    }
    // nested arrays, objects, strings, booleans, numbers, null
    add("nested", format!("[{}]", poly.iter().map(|p| { let q = fr.at(p.0, p.1); format!("[{},{},{}]", q.x, q.y, q.z) }).collect::<Vec<_>>().join(",")));
    add("nested", format!("[{}]", fmt_nums(&good)));
    add("object", format!("{{\"vertices\":{}}}", fmt_nums(&good))); add("object", "{}".into()); add("object", "{\"x\":0,\"y\":0,\"z\":0}".into());
    add("string", "\"hello\"".into()); add("string", format!("\"{}\"", fmt_nums(&good).replace('"', "")));
    add("bool", "true".into()); add("bool", "false".into()); add("number", "3.5".into()); add("number", "0".into()); add("null", "null".into());
    // too few points
    add("few", "[]".into()); add("few", fmt_nums(&good[..3])); add("few", fmt_nums(&good[..6]));
    // collinear
    let t = r.range(0.1, 3.0);
    add("collinear", fmt_nums(&flat3(&fr, &[(0.0, 0.0), (1.0, t), (2.0, 2.0 * t)])));
    add("collinear", fmt_nums(&flat3(&fr, &[(0.0, 0.0), (1.0, t), (2.0, 2.0 * t), (3.0, 3.0 * t), (5.0, 5.0 * t)])));
    add("same-point", "[1,2,3,1,2,3,1,2,3]".into()); add("same-point", "[1,2,3,1,2,3,1,2,3,4,5,6]".into());
    // non-coplanar: one vertex lifted off the plane
    if poly.len() >= 4 {
        let mut v = good.clone(); let i = 3 + r.below((poly.len() - 3) as u64) as usize; let q = fr.off(poly[i].0, poly[i].1, r.range(0.01, 1.0));
        v[3 * i] = q.x as f64; v[3 * i + 1] = q.y as f64; v[3 * i + 2] = q.z as f64;
        add("non-coplanar", fmt_nums(&v));
    }
    add("non-coplanar", "[0,0,0,1,0,0,1,1,0,0,1,0.5]".into());
    // self-crossing bow-tie
    let s = r.range(0.5, 5.0);
    add("crossing", fmt_nums(&flat3(&fr, &[(0.0, 0.0), (s, s), (s, 0.0), (0.0, s)])));
    add("crossing", fmt_nums(&flat3(&fr, &[(0.0, 0.0), (2.0 * s, 0.0), (2.0 * s, s), (s, -s), (0.0, s)])));
    // crossing only through the CLOSING edge (last -> first), without and with a redundant vertex on that edge
    // (close() pops such a vertex before it tests the closing edge)
    let (a, b) = (r.range(0.2, 0.45), r.range(0.55, 0.8));
    let base = [(0.0, 0.0), (4.0 * s, 0.0), (s, s), (3.0 * s, 2.5 * s)];
    add("crossing", fmt_nums(&flat3(&fr, &base)));
    let mut tail = base.to_vec(); tail.push((3.0 * s * a, 2.5 * s * a)); add("crossing", fmt_nums(&flat3(&fr, &tail)));
    let mut tail2 = base.to_vec(); tail2.push((3.0 * s * b, 2.5 * s * b)); tail2.push((3.0 * s * a, 2.5 * s * a)); add("crossing", fmt_nums(&flat3(&fr, &tail2)));
    // out-of-range and extreme numbers
    add("range", "[0,0,0,1e999,0,0,1,1,0]".into()); add("range", "[0,0,0,1,0,0,1,-1e999,0]".into());
    add("range", "[0,0,0,1e308,0,0,1e308,1e308,0]".into()); add("range", "[0,0,0,1e200,0,0,1e200,1e200,0]".into());
    add("range", "[0,0,0,1e-320,0,0,1e-320,1e-320,0]".into());
    add("range", "[0,0,0,123456789012345678901234567890,0,0,1,1,0]".into()); add("range", "[0,0,0,18446744073709551615,0,0,0,18446744073709551615,0]".into());
    add("range", "[0,0,0,-9223372036854775808,0,0,0,5,0]".into());
    // not JSON at all
    add("syntax", "".into()); add("syntax", "[1,2,".into()); add("syntax", "[1 2 3]".into()); add("syntax", "nul".into()); add("syntax", "[0,0,0,1,0,0,1,1,0]]".into());
    add("syntax", "[NaN,0,0,1,0,0,1,1,0]".into()); add("syntax", "[01,0,0,1,0,0,1,1,0]".into());
    // unusual but valid spellings
    add("valid", "[0,0,0, 1E0,0,0, 1.0e+0,1,0]".into()); add("valid", " [ -0 , 0.0 , 0 , 2 , 0 , 0 , 2 , 3 , -0.0 , 0 , 3 , 0 ] ".into());
    add("valid", "[0.0,0,0,1.0,1,1,2,3,-1]".into());
    // a multiple of three non-numeric elements: one or two WHOLE points of a convex outline written as junk, the remaining
    // numbers still a flat array of 3k >= 9 coordinates of a valid outline (seeded change C20-m4: a reader that filters the
    // numbers out first).  Drawn from a derived generator state, so that the documents above and everything after are unchanged
    {
        let mut r2 = Rng(r.0 ^ 0xC20_3333);
        let m = 5 + r2.below(4) as usize;
        let rad = r2.range(0.5, 5.0);
        let hex: Vec<P2> = (0..m).map(|i| { let t = (i as f64 + r2.range(0.2, 0.8)) / m as f64 * std::f64::consts::TAU; (rad * t.cos(), 0.7 * rad * t.sin()) }).collect();
        let g6 = flat3(&fr, &hex);
        let junk = ["null", "\"a\"", "true", "{}", "[1,2,3]", "\"1.5\"", "false", "[]"];
        for npts in [1usize, 1, 2] {
            let mut parts: Vec<String> = g6.iter().map(|x| serde_json::to_string(x).unwrap()).collect();
            let i0 = r2.below(m as u64) as usize;
            for k in 0..npts { let i = (i0 + 2 * k) % m; for c in 0..3 { parts[3 * i + c] = junk[r2.below(junk.len() as u64) as usize].to_string(); } }
            add("non-numeric-3k", format!("[{}]", parts.join(",")));
        }
        // three scattered non-numbers in a z = const outline (the z slots of three points)
        let sq = [0.0, 0.0, 1.0, 2.0, 0.0, 1.0, 2.0, 2.0, 1.0, 0.0, 2.0, 1.0];
        let mut parts: Vec<String> = sq.iter().map(|x: &f64| serde_json::to_string(x).unwrap()).collect();
        for i in [2usize, 5, 8] { parts[i] = "null".to_string(); }
        add("non-numeric-3k", format!("[{}]", parts.join(",")));
    }
    d
}

pub fn run_c20(seed: u64, n: usize, out: &str) {
    let mut r = Rng::new(seed ^ 0xC20);
    let mut sink = Sink::new32(out, "C20", 40);
    // corpus first: the documents on which the pinned deserialiser panicked, plus the committed corpus directory
    for t in ["[1,2]", "null"] { c20_doc(&mut sink, "corpus:F13-witness", t, None); }
    let dir = std::env::var("VERIF_CORPUS").unwrap_or_else(|_| format!("{}/../corpus", env!("CARGO_MANIFEST_DIR")));
    if let Ok(rd) = std::fs::read_dir(format!("{}/C20", dir)) {
        let mut files: Vec<_> = rd.filter_map(|e| e.ok()).map(|e| e.path()).filter(|p| p.extension().map_or(false, |x| x == "json")).collect();
        files.sort();
        for f in files { if let Ok(t) = std::fs::read_to_string(&f) { c20_doc(&mut sink, &format!("corpus:{}", f.file_name().unwrap().to_string_lossy()), t.trim_end_matches('\n'), None); } }
    }
    // polygons whose hole has its nearest vertex exactly IN LINE with the outer edge that leaves a reflex corner (the bridge
    // runs along the prolongation of that edge; push drops the corner as redundant on the way back, so the merged outline has
    // an edge containing the bridge): the document the crate writes must read back (seeded change C20-m5: valid_to_add
    // refusing edges that overlap an earlier one).  Fixed cases; the merge is outside the general-position quantifier of the
    // C12 / C20 oracles, so these are judged by the model / code correspondence
    {
        let lsh: Vec<P2> = vec![(0.0, 0.0), (4.0, 0.0), (4.0, 2.0), (2.0, 2.0), (2.0, 4.0), (0.0, 4.0)];
        let holes: [Vec<P2>; 3] = [vec![(2.0, 1.5), (1.3, 1.4), (1.7, 1.0)], vec![(2.0, 1.5), (1.7, 1.0), (1.3, 1.4)], vec![(1.6, 1.7), (1.0, 1.5), (1.4, 1.1)]];
        let frames = [Frame::xy(), Frame { o: [3.0, 0.0, 0.0], e1: [0.0, 1.0, 0.0], e2: [0.0, 0.0, 1.0], kind: 0 }];
        for fr in frames.iter() {
            for (k, h) in holes.iter().enumerate() {
                for start in [0usize, 3] {
                    let outer = match make_loop(fr, &rotate_start(&lsh, start)) { Some(l) => l, None => continue };
                    let hl = match make_loop(fr, h) { Some(l) => l, None => continue };
                    let mut pg = match Polygon3D::new(outer.clone()) { Ok(p) => p, Err(_) => continue };
                    if let Ok(Ok(())) = catch(AUS(|| pg.cut_hole(hl.clone()))) {
                        if let Ok(Ok(text)) = catch(AUS(|| serde_json::to_string(&pg))) {
                            if sink.len() < n { c20_doc(&mut sink, &format!("poly:aligned-hole{}:plane0:h1", k), &text, Some((&outer, &[hl.clone()], Some(&pg)))); }
                        }
                    }
                }
            }
        }
    }
    let mut pending: Vec<(String, String)> = vec![];
    while sink.len() < n {
        match r.below(20) {
            0..=4 => {
                // round trip of a closed loop of the C04 space
                let fr = frame_for(&mut r, 1000.0);
                let nmax = if r.chance(0.2) { 40 } else { 12 };
                let (poly, fam) = rand_outline(&mut r, nmax);
                let l = match make_loop(&fr, &poly) { Some(l) => l, None => continue };
                let text = match catch(AUS(|| serde_json::to_string(&l))) { Ok(Ok(t)) => t, _ => { c20_doc(&mut sink, "ser-panic", "null", None); continue } };
                c20_doc(&mut sink, &format!("loop:{}:plane{}", fam, fr.kind), &text, Some((&l, &[], None)));
            }
            5..=8 => {
                // polygon with 0..3 holes
                let fr = frame_for(&mut r, 1000.0);
                let (poly, fam) = rand_outline(&mut r, 10);
                let outer = match make_loop(&fr, &poly) { Some(l) => l, None => continue };
                let scale = area2(&poly).abs().sqrt();
                let mut pg = match Polygon3D::new(outer.clone()) { Ok(p) => p, Err(_) => continue };
                let nh = r.below(4) as usize; let mut occ: Vec<(P2, f64)> = vec![]; let mut hs: Vec<Loop3D> = vec![];
                for _ in 0..nh {
                    let k = 3 + r.below(6) as usize; let rad = scale * r.range(0.04, 0.11);
                    if let Some(c) = place_inside(&mut r, &poly, &occ, rad * 1.3 + 0.04 * scale, 0.06 * scale) {
                        let pts = ngon(c, rad, &rand_fac(&mut r, k), r.range(0.0, 6.28), r.chance(0.5), r.below(k as u64) as usize);
                        if let Some(h) = make_loop(&fr, &pts) { if let Ok(Ok(())) = catch(AUS(|| pg.cut_hole(h.clone()))) { occ.push((c, rad)); hs.push(h); } }
                    }
                }
                let text = match catch(AUS(|| serde_json::to_string(&pg))) { Ok(Ok(t)) => t, _ => { continue } };
                c20_doc(&mut sink, &format!("poly:{}:plane{}:h{}", fam, fr.kind, hs.len()), &text, Some((&outer, &hs, Some(&pg))));
            }
            9..=10 => { c20_pv(&mut sink, &mut r); }
            11 => { let t = *r.pick(&["null", "[1,2,3]", "{\"x\":1,\"y\":2}", "{\"x\":1,\"y\":2,\"z\":\"a\"}", "{\"x\":1,\"y\":2,\"z\":1e999}", "{\"x\":1,\"y\":2,\"z\":3,\"w\":4}", "{\"x\":null,\"y\":2,\"z\":3}", "\"p\"", "{\"x\":1,\"y\":2,\"z\":3}", "[1,2]", "{\"x\":1,\"x\":2,\"y\":2,\"z\":3}"]); c20_pv_malformed(&mut sink, t); }
            _ => {
                if pending.is_empty() { pending = malformed_docs(&mut r); }
                let (k, t) = pending.pop().unwrap();
                c20_doc(&mut sink, &format!("doc:{}", k), &t, None);
            }
        }
    }
    sink.flush();
}
/// replay: the document text; optionally followed by `loop <loop bits>` or `poly <outer bits> <hole bits>..`
/// (the source of a round-trip case: rebuilt, serialised again and read back)
pub fn replay_c20(args: &[String]) {
    let mut sink = Sink::new32("/dev/null", "C20", 1);
    if args.len() > 2 && (args[1] == "loop" || args[1] == "poly") {
        let (outer, mut off) = bits_loop(&args[2..]);
        let mut hs = vec![];
        while 2 + off < args.len() { let (h, k) = bits_loop(&args[2 + off..]); off += k; hs.push(h); }
        if args[1] == "loop" {
            let text = serde_json::to_string(&outer).unwrap();
            c20_doc(&mut sink, "replay:loop", &text, Some((&outer, &[], None)));
        } else {
            let mut pg = Polygon3D::new(outer.clone()).unwrap();
            for h in &hs { pg.cut_hole(h.clone()).unwrap(); }
            let text = serde_json::to_string(&pg).unwrap();
            c20_doc(&mut sink, "replay:poly", &text, Some((&outer, &hs, Some(&pg))));
        }
    } else {
        c20_doc(&mut sink, "replay", &args[0], None);
    }
    for j in &sink.json { println!("{}", j); }
}
