//! Loop3D: histories of push/close (C04), point tests (C05), measures (C10).
use crate::gen::*;
use crate::util::*;
use geometry3d::{Loop3D, Point3D, Polygon3D, Segment3D};

pub fn err_class(msg: &str) -> u32 {
    let table: [(&str, u32); 14] = [
        ("closed Loop3D", 30), ("non-coplanar", 31), ("intersect with itself", 32), ("at least 3 vertices", 33),
        ("three equal Point3D", 1), ("open Loop3D", 34), ("not closed", 34), ("without any vertices", 35), ("without normal", 36),
        ("Zero normal", 36), ("less than three", 33), ("length 0 contains", 3), ("zero-length segment", 4), ("Zero Vector", 2),
    ];
    for (k, c) in table.iter() { if msg.contains(k) { return *c; } }
    98
}
pub fn snapshot(l: &Loop3D) -> (Vec<Float>, Vec<Float>, bool, Vec<Float>) {
    let v: Vec<Float> = l.vertices().iter().flat_map(|p| vec![p.x, p.y, p.z]).collect();
    let n = l.normal();
    let ap = if l.closed() { vec![l.area().unwrap(), l.perimeter().unwrap()] } else { vec![] };
    (v, vec![n.x, n.y, n.z], l.closed(), ap)
}
fn snap_coq(o: u32, s: &(Vec<Float>, Vec<Float>, bool, Vec<Float>)) -> String {
    format!("({}%N, {}, {}, {}, {})", o, sfs(&s.0), sfs(&s.1), coq_bool(s.2), sfs(&s.3))
}
fn snap_json(o: u32, s: &(Vec<Float>, Vec<Float>, bool, Vec<Float>)) -> String {
    format!("{{\"o\":{},\"v\":{},\"n\":{},\"closed\":{},\"ap\":{}}}", o, jfs(&s.0), jfs(&s.1), s.2, jfs(&s.3))
}
#[derive(Clone, Debug)]
pub enum Op { Push(Point3D, &'static str), Close }

/// apply one op to the real loop: outcome class (0 ok, 99 panic)
pub fn apply_op(l: &mut Loop3D, op: &Op) -> u32 {
    let mut tmp = l.clone();
    let r = catch(std::panic::AssertUnwindSafe(|| match op {
        Op::Push(p, _) => tmp.push(*p),
        Op::Close => tmp.close(),
    }));
    match r {
        Ok(Ok(())) => { *l = tmp; 0 }
        Ok(Err(m)) => { *l = tmp; err_class(&m) }
        Err(_) => 99,
    }
}

/// a history: an outline in a random plane plus perturbing operations
pub fn rand_history(r: &mut Rng, nmax: usize) -> (Vec<Op>, String) {
    let fr = Frame::random(r, 1000.0);
    let (poly, fam) = simple_polygon(r, nmax);
    let poly = if r.chance(0.5) { with_collinear(r, &poly, 0.3) } else { poly };
    let poly = if r.chance(0.5) { reversed(&poly) } else { poly };
    let poly = rotate_start(&poly, r.below(poly.len() as u64) as usize);
    // a few centimetre-scale outlines (edges of a few cm): absolute tolerances of the crate bite here
    let small = r.chance(0.06);
    let poly: Vec<P2> = if small { poly.iter().map(|p| (p.0 * 0.02, p.1 * 0.02)).collect() } else { poly };
    let c = centroid2(&poly);
    let mut ops: Vec<Op> = vec![];
    let n = poly.len();
    let mut note = format!("{}:{}:plane{}{}", fam, n, fr.kind, if small { ":cm" } else { "" });
    for (i, p) in poly.iter().enumerate() {
        // perturbations before the regular push
        if i >= 1 && r.chance(0.08) { ops.push(Op::Push(fr.at(poly[i - 1].0, poly[i - 1].1), "repeat")); if r.chance(0.5) { ops.push(Op::Push(fr.at(poly[i - 1].0, poly[i - 1].1), "repeat")); } }
        if i >= 3 && r.chance(0.1) {
            // off-plane candidate (clearly: 1e-3 .. 1)
            let h = (10.0f64).powf(r.range(-3.0, 0.0)) * if r.chance(0.5) { 1.0 } else { -1.0 };
            ops.push(Op::Push(fr.off(p.0, p.1, h), "offplane"));
        }
        if i >= 3 && r.chance(0.12) {
            // clearly crossing candidate: a point across an earlier edge (mirror of the last vertex through the midpoint of edge j)
            let j = r.below((i - 2) as u64) as usize;
            let (a, b) = (poly[j], poly[j + 1]);
            let m = ((a.0 + b.0) / 2.0, (a.1 + b.1) / 2.0);
            let last = poly[i - 1];
            let q = (m.0 + (m.0 - last.0) * 0.7, m.1 + (m.1 - last.1) * 0.7);
            ops.push(Op::Push(fr.at(q.0, q.1), "crossing?"));
        }
        if i >= 2 && r.chance(0.05) {
            // retrace: go towards the centroid and come back (weakly simple spike)
            let last = poly[i - 1];
            let q = (last.0 + (c.0 - last.0) * 0.3, last.1 + (c.1 - last.1) * 0.3);
            ops.push(Op::Push(fr.at(q.0, q.1), "spike-out")); ops.push(Op::Push(fr.at(last.0, last.1), "spike-back"));
        }
        ops.push(Op::Push(fr.at(p.0, p.1), "outline"));
    }
    if n >= 5 && r.chance(0.1) {
        // a last vertex whose CLOSING edge crosses an earlier edge at its midpoint, optionally followed by a
        // redundant vertex on that closing edge (which close() pops before it tests the closing edge)
        let j = 1 + r.below((n - 3) as u64) as usize;
        let (a, b) = (poly[j], poly[j + 1]);
        let m = ((a.0 + b.0) / 2.0, (a.1 + b.1) / 2.0);
        let p0 = poly[0];
        let q = (m.0 + (m.0 - p0.0) * 0.6, m.1 + (m.1 - p0.1) * 0.6);
        ops.push(Op::Push(fr.at(q.0, q.1), "closing-edge-crosses"));
        if r.chance(0.5) { let t = r.range(0.1, 0.3); ops.push(Op::Push(fr.at(q.0 + t * (p0.0 - q.0), q.1 + t * (p0.1 - q.1)), "on-closing-edge")); }
    }
    if r.chance(0.15) { ops.push(Op::Push(fr.at(poly[0].0, poly[0].1), "repeat-first")); }
    if r.chance(0.9) { ops.push(Op::Close); }
    if r.chance(0.3) { ops.push(Op::Push(fr.at(c.0, c.1), "after-close")); }
    if r.chance(0.1) { ops.push(Op::Close); }
    if n < 3 { note.push_str(":short"); }
    (ops, note)
}
fn small_history(r: &mut Rng) -> (Vec<Op>, String) {
    // degenerate openings: too few points, equal points, collinear only
    let fr = Frame::random(r, 10.0);
    let k = r.below(5);
    let mut ops = vec![];
    match k {
        0 => { ops.push(Op::Close); }
        1 => { let p = fr.at(1.0, 2.0); for _ in 0..3 { ops.push(Op::Push(p, "same")); } ops.push(Op::Close); }
        2 => { for i in 0..4 { ops.push(Op::Push(fr.at(i as f64, 2.0 * i as f64), "collinear")); } ops.push(Op::Close); }
        3 => { ops.push(Op::Push(fr.at(0.0, 0.0), "a")); ops.push(Op::Push(fr.at(1.0, 0.0), "b")); ops.push(Op::Close); ops.push(Op::Push(fr.at(1.0, 1.0), "c")); ops.push(Op::Close); }
        _ => { let p = fr.at(0.0, 0.0); ops.push(Op::Push(p, "a")); ops.push(Op::Push(p, "a")); ops.push(Op::Push(fr.at(1.0, 0.0), "b")); ops.push(Op::Push(fr.at(1.0, 0.0), "b")); ops.push(Op::Push(fr.at(1.0, 0.0), "b")); ops.push(Op::Push(fr.at(0.0, 1.0), "c")); ops.push(Op::Close); }
    }
    (ops, format!("degenerate{}", k))
}

/// corpus of the C04 stream: the witnesses of the recorded findings (run first; they consume no randomness, so the
/// random histories that follow are the usual ones minus the tail).  All coordinates are exactly representable in f32 too.
///  * a collinear REPLACEMENT (b, c, p within the 1e-5 tolerance) never re-tests the corner (a, b, p) it exposes:
///    closed-lt3 (close marks a sliver closed with one vertex and fails), closed-collinear (an exactly straight vertex in a
///    successfully closed loop), nan-normal (third vertex replaced by a point in line with the first two);
///  * a spike pop from three to two vertices keeps the cached normal: stale-normal;
///  * close does not re-test the corners it creates by dropping the last / first vertex: wrap (+ a second close that pops
///    a vertex of the closed loop), start-spike (exact data), twice (the first close is clean, the second one mutates).
fn c04_corpus() -> Vec<(Vec<Op>, String)> {
    let p = |x: f64, y: f64, z: f64, lab: &'static str| Op::Push(Point3D::new(x as Float, y as Float, z as Float), lab);
    let (e15, e16, e18) = (1.0 / 32768.0, 1.0 / 65536.0, 1.0 / 262144.0);
    vec![
        (vec![p(0., 0., 0., "a"), p(1., 0., 0., "b"), p(1., e16, 0., "c"), p(1.5, e18, 0., "replaces-c"), Op::Close],
         "corpus:closed-lt3".to_string()),
        (vec![p(-1., -1., 0., "z"), p(0., 0., 0., "a"), p(1., 0., 0., "b"), p(1., e16, 0., "c"), p(1.5, 0., 0., "replaces-c"),
              p(1.5, 1., 0., "outline"), p(-1., 1., 0., "outline"), Op::Close],
         "corpus:closed-collinear".to_string()),
        (vec![p(0., 0., 0., "a"), p(1., 0., 0., "b"), p(1., e16, 0., "c"), p(1.5, 0., 0., "replaces-c"), p(2., 1., 0., "coplanar")],
         "corpus:nan-normal".to_string()),
        (vec![p(0., 0., 0., "a"), p(1., 0., 0., "b"), p(1., 1., 0., "c"), p(1., 0., 0., "spike-back"), p(1., 0., 1., "other-plane")],
         "corpus:stale-normal".to_string()),
        (vec![p(0., 0., 0., "v0"), p(1., 0., 0., "v1"), p(1., 2., 0., "v2"), p(0., 2., 0., "x"), p(0., 0.25, 0., "y"),
              p(e15, 0.125, 0., "z"), Op::Close, Op::Close],
         "corpus:wrap".to_string()),
        (vec![p(0., 0., 0., "v0"), p(1., 0., 0., "v1"), p(1., 1., 0., "v2"), p(-1., 1., 0., "w"), p(-1., 0., 0., "x"),
              p(0., 0., 0., "through-start"), p(0.5, 0.5, 0., "spike"), Op::Close],
         "corpus:start-spike".to_string()),
        (vec![p(0., 0., 0., "v0"), p(1., 0., 0., "v1"), p(1., 2., 0., "v2"), p(0., 2., 0., "x"), p(e18, 0.25, 0., "y"),
              p(e15, 0.125, 0., "z"), Op::Close, Op::Close],
         "corpus:twice".to_string()),
    ]
}

pub fn run_c04(seed: u64, n: usize, out: &str) {
    let mut r = Rng::new(seed ^ 0xC04);
    let mut sink = Sink::new(out, "C04", 40);
    #[cfg(feature = "float")]
    { sink.runner = "C04f32".to_string(); }
    let mut corpus: std::collections::VecDeque<(Vec<Op>, String)> = c04_corpus().into_iter().collect();
    while sink.len() < n {
        let from_corpus = !corpus.is_empty();
        let (ops, note) = if let Some(c) = corpus.pop_front() { c } else {
            let big = r.chance(0.2);
            if r.chance(0.1) { small_history(&mut r) } else { rand_history(&mut r, if big { 60 } else { 14 }) }
        };
        let mut l = Loop3D::new();
        let mut coq_ops = vec![]; let mut coq_snaps = vec![]; let mut j_ops = vec![]; let mut j_snaps = vec![];
        let mut queue: std::collections::VecDeque<Op> = ops.iter().cloned().collect();
        let mut own_done = from_corpus;
        while let Some(op) = queue.pop_front() {
            let o = apply_op(&mut l, &op);
            let (k, p, lab) = match &op { Op::Push(p, lab) => (0, *p, *lab), Op::Close => (1, Point3D::new(0.0, 0.0, 0.0), "close") };
            coq_ops.push(format!("({}%N, {})", k, sfs(&[p.x, p.y, p.z])));
            j_ops.push(format!("{{\"k\":{},\"p\":{},\"lab\":\"{}\"}}", k, jfs(&[p.x, p.y, p.z]), lab));
            let s = snapshot(&l);
            coq_snaps.push(snap_coq(o, &s)); j_snaps.push(snap_json(o, &s));
            if o == 99 { break; }
            // once the loop is closed: push its OWN stored vertices again (last-but-one, last, first, second, a random one) -
            // every addition to a closed loop must be refused with the loop unchanged, whichever branch of push the point would take
            if queue.is_empty() && !own_done && l.closed() && r.chance(0.5) {
                own_done = true;
                let vs = l.vertices().to_vec(); let m = vs.len();
                if m >= 3 {
                    let mut idx = vec![m - 2, m - 1, 0, 1, r.below(m as u64) as usize];
                    while idx.len() > 1 + r.below(4) as usize { let j = r.below(idx.len() as u64) as usize; idx.remove(j); }
                    for i in idx { queue.push_back(Op::Push(vs[i], "own-vertex-after-close")); }
                }
            }
        }
        sink.push(
            format!("([{}], [{}])", coq_ops.join("; "), coq_snaps.join("; ")),
            format!("{{\"note\":\"{}\",\"ops\":[{}],\"snaps\":[{}]}}", note, j_ops.join(","), j_snaps.join(",")),
        );
    }
    sink.flush();
}

/// build a closed loop from 2-D points in a frame; None when the crate refuses it
pub fn make_loop(fr: &Frame, poly: &[P2]) -> Option<Loop3D> {
    let mut l = Loop3D::new();
    for p in poly { if catch(std::panic::AssertUnwindSafe(|| l.push(fr.at(p.0, p.1)))).ok()?.is_err() { return None; } }
    if catch(std::panic::AssertUnwindSafe(|| l.close())).ok()?.is_err() { return None; }
    Some(l)
}
pub fn loop_coq(l: &Loop3D) -> String {
    let s = snapshot(l);
    format!("({}, {}, {}, {})", sfs(&s.0), sfs(&s.1), coq_bool(s.2), sfs(&if s.3.is_empty() { vec![-1.0, -1.0] } else { s.3.clone() }))
}
pub fn loop_json(l: &Loop3D) -> String {
    let s = snapshot(l);
    format!("{{\"v\":{},\"n\":{},\"closed\":{},\"ap\":{}}}", jfs(&s.0), jfs(&s.1), s.2, jfs(&s.3))
}

pub fn replay_c04(args: &[String]) {
    // args: k x y z (bits) ... one op per 4 args
    let mut l = Loop3D::new();
    let mut j_ops = vec![]; let mut j_snaps = vec![];
    for ch in args.chunks(4) {
        let k: u32 = ch[0].parse().unwrap();
        let p = Point3D::new(Float::from_bits(ch[1].parse().unwrap()), Float::from_bits(ch[2].parse().unwrap()), Float::from_bits(ch[3].parse().unwrap()));
        let op = if k == 0 { Op::Push(p, "replay") } else { Op::Close };
        let o = apply_op(&mut l, &op);
        j_ops.push(format!("{{\"k\":{},\"p\":{},\"lab\":\"replay\"}}", k, jfs(&[p.x, p.y, p.z])));
        j_snaps.push(snap_json(o, &snapshot(&l)));
        if o == 99 { break; }
    }
    println!("{{\"note\":\"replay\",\"ops\":[{}],\"snaps\":[{}]}}", j_ops.join(","), j_snaps.join(","));
}
#[allow(dead_code)]
pub fn seg(a: Point3D, b: Point3D) -> Segment3D { Segment3D::new(a, b) }


// ---------------------------------------------------------------------------------------------
// C10: area / perimeter / normal / centroid of closed loops and of their variants
// ---------------------------------------------------------------------------------------------

/// push all points, then close: (outcome class, loop).  class 0 = closed successfully
pub fn build_loop(pts: &[Point3D]) -> (u32, Loop3D) {
    let mut l = Loop3D::new();
    for p in pts {
        let o = apply_op(&mut l, &Op::Push(*p, "p"));
        if o != 0 { return (o, l); }
    }
    let o = apply_op(&mut l, &Op::Close);
    (o, l)
}
struct Variant { kind: &'static str, k: usize, pts: Vec<Point3D>, mat: Option<[Float; 16]> }
fn variant_out(v: &Variant) -> (String, String) {
    let (o, l) = build_loop(&v.pts);
    let pin: Vec<Float> = v.pts.iter().flat_map(|p| vec![p.x, p.y, p.z]).collect();
    let (vs, nn, _closed, ap) = snapshot(&l);
    let c = if o == 0 { match catch(std::panic::AssertUnwindSafe(|| l.centroid())) { Ok(Ok(c)) => vec![c.x, c.y, c.z], _ => vec![] } } else { vec![] };
    let (vs, nn, ap) = if o == 0 { (vs, nn, ap) } else { (vec![], vec![], vec![]) };
    // the polygon without holes made of this loop: area, normal, outer centroid (7 numbers; empty when it cannot be made)
    let pg: Vec<Float> = if o == 0 {
        match catch(std::panic::AssertUnwindSafe(|| Polygon3D::new(l.clone()).map(|p| (p.area(), p.normal(), p.outer_centroid())))) {
            Ok(Ok((a, n, c))) => vec![a, n.x, n.y, n.z, c.x, c.y, c.z], _ => vec![] }
    } else { vec![] };
    let coq = format!("({}, ({}%N, {}, {}, {}, {}, {}))", sfs(&pin), o, sfs(&vs), sfs(&nn), sfs(&ap), sfs(&c), sfs(&pg));
    let mat = match &v.mat { Some(m) => jfs(&m[..]), None => "null".to_string() };
    let js = format!("{{\"kind\":\"{}\",\"k\":{},\"pts\":{},\"o\":{},\"v\":{},\"n\":{},\"ap\":{},\"c\":{},\"pg\":{},\"mat\":{}}}", v.kind, v.k, jfs(&pin), o, jfs(&vs), jfs(&nn), jfs(&ap), jfs(&c), jfs(&pg), mat);
    (coq, js)
}
fn to3(fr: &Frame, p: &[P2]) -> Vec<Point3D> { p.iter().map(|q| fr.at(q.0, q.1)).collect() }

/// one family: a base outline and its cyclic shifts, reversal, collinear enrichments and rigidly moved copies
fn c10_family(r: &mut Rng, nmax: usize, scale: f64) -> Option<(Vec<Variant>, String)> {
    let fr = frame_for(r, 1000.0);   // (f64 build: Frame::random; f32 build: mostly coordinate planes, see gen.rs)
    let (poly, fam) = simple_polygon(r, nmax);
    // `scale` > 1: outlines hundreds to thousands of units across (cross products of 1e5..1e7: absolute tolerances of the
    // vector predicates are below the rounding noise there; seeded change C10-m4)
    let poly: Vec<P2> = if scale != 1.0 { poly.iter().map(|p| (p.0 * scale, p.1 * scale)).collect() } else { poly };
    let fam = if scale != 1.0 { format!("huge-{}", fam) } else { fam.to_string() };
    if !corners_ok(&poly, 1e-4) { return None; }
    let poly = if r.chance(0.5) { reversed(&poly) } else { poly };
    let n = poly.len();
    // first corner: with probability 1/2 start just before a reflex corner when there is one (the normal is taken from the first three vertices)
    let ccw = area2(&poly) > 0.0;
    let reflex: Vec<usize> = (0..n).filter(|i| { let c = cross2(poly[*i], poly[(i + 1) % n], poly[(i + 2) % n]); if ccw { c < 0.0 } else { c > 0.0 } }).collect();
    let start = if !reflex.is_empty() && r.chance(0.5) { *r.pick(&reflex) } else { r.below(n as u64) as usize };
    let base = rotate_start(&poly, start);
    let first_reflex = { let c = cross2(base[0], base[1], base[2]); if ccw { c < 0.0 } else { c > 0.0 } };
    let mut vs: Vec<Variant> = vec![];
    let base3 = to3(&fr, &base);
    vs.push(Variant { kind: "base", k: 0, pts: base3.clone(), mat: None });
    let k1 = 1 + r.below((n - 1) as u64) as usize;
    vs.push(Variant { kind: "shift", k: 1, pts: to3(&fr, &rotate_start(&base, 1)), mat: None });
    if k1 != 1 { vs.push(Variant { kind: "shift", k: k1, pts: to3(&fr, &rotate_start(&base, k1)), mat: None }); }
    vs.push(Variant { kind: "reverse", k: 0, pts: to3(&fr, &reversed(&base)), mat: None });
    let k2 = r.below(n as u64) as usize;
    vs.push(Variant { kind: "reverse", k: k2, pts: to3(&fr, &rotate_start(&reversed(&base), k2)), mat: None });
    // redundant collinear points (the first variant keeps the start vertex; the second starts at an inserted point when there is one)
    for attempt in 0..2 {
        let enr = with_collinear(r, &base, if attempt == 0 { 0.35 } else { 0.6 });
        if enr.len() == base.len() || enr.len() > 90 || !corners_ok(&enr, 1e-4) { continue; }
        if attempt == 0 { vs.push(Variant { kind: "collinear", k: 0, pts: to3(&fr, &enr), mat: None }); }
        else {
            // start at an inserted point: an index whose point is not a vertex of the base
            let ins: Vec<usize> = (0..enr.len()).filter(|i| !base.iter().any(|b| b.0 == enr[*i].0 && b.1 == enr[*i].1)).collect();
            let s = *r.pick(&ins);
            vs.push(Variant { kind: "collinear", k: s, pts: to3(&fr, &rotate_start(&enr, s)), mat: None });
        }
    }
    for _ in 0..2 {
        let sh = if r.chance(0.5) { 10.0 } else { 1000.0 };
        let t = rigid_motion(r, sh);
        let pts: Vec<Point3D> = base3.iter().map(|p| t.transform_pt(*p)).collect();
        // the moved copy must stay within the offsets of the property (1e3 per coordinate, loosely)
        if pts.iter().any(|p| p.x.abs() > 4000.0 || p.y.abs() > 4000.0 || p.z.abs() > 4000.0) { continue; }
        vs.push(Variant { kind: "rigid", k: 0, pts, mat: Some(t.verif_elements().0) });
    }
    let note = format!("{}:{}:plane{}:{}", fam, n, fr.kind, if first_reflex { "reflex-first" } else { "convex-first" });
    Some((vs, note))
}
pub fn run_c10(seed: u64, n: usize, out: &str) {
    let mut r = Rng::new(seed ^ 0xC10);
    // f32 build: runner module C10f32 of Run/C10.v (the same text on the binary32 instance)
    let mut sink = Sink::new32(out, "C10", 12);
    // corpus: the recorded finding C10:collinear-dependence:tolerance-corner:* (an input point exactly on an edge but within
    // 1e-5 / |edge| of a corner: |cross| = 5e-6 < 1e-5, push takes the genuine corner (1,0,0) for a straight run and drops it)
    {
        let p = |x: f64, y: f64| Point3D::new(x as Float, y as Float, 0.0);
        let base = vec![p(1.0, 0.0), p(1.0, 1.0), p(0.0, 1.0), p(0.0, 0.0)];
        let enr = vec![p(0.9995, 0.0), p(1.0, 0.0), p(1.0, 0.01), p(1.0, 1.0), p(0.0, 1.0), p(0.0, 0.0)];
        let vs = vec![Variant { kind: "base", k: 0, pts: base, mat: None }, Variant { kind: "collinear", k: 0, pts: enr, mat: None }];
        let outs: Vec<(String, String)> = vs.iter().map(variant_out).collect();
        sink.push(
            format!("[{}]", outs.iter().map(|o| o.0.clone()).collect::<Vec<_>>().join("; ")),
            format!("{{\"note\":\"corpus:tolerance-corner:4:plane0:convex-first\",\"variants\":[{}]}}", outs.iter().map(|o| o.1.clone()).collect::<Vec<_>>().join(",")),
        );
    }
    // the last eighth of the stream: huge outlines, drawn from a second generator state (the first 7/8 are the old sequence)
    let mut r2 = Rng::new(seed ^ 0xC10_B16);
    let nold = n - n / 8;
    while sink.len() < n {
        let huge = sink.len() >= nold;
        let fam = if huge { let sc = (10.0f64).powf(r2.range(1.3, 3.0)); c10_family(&mut r2, 12, sc) }
                  else { let big = r.chance(0.2); c10_family(&mut r, if big { 60 } else { 16 }, 1.0) };
        let Some((vs, note)) = fam else { continue };
        let outs: Vec<(String, String)> = vs.iter().map(variant_out).collect();
        sink.push(
            format!("[{}]", outs.iter().map(|o| o.0.clone()).collect::<Vec<_>>().join("; ")),
            format!("{{{}\"note\":\"{}\",\"variants\":[{}]}}", f32_mark(), note, outs.iter().map(|o| o.1.clone()).collect::<Vec<_>>().join(",")),
        );
    }
    sink.flush();
}
/// args: kind k npts (bits x y z)*npts [16 matrix bits] ; repeated per variant
pub fn replay_c10(args: &[String]) {
    let mut i = 0; let mut outs = vec![];
    while i < args.len() {
        let kind: &'static str = match args[i].as_str() { "base" => "base", "shift" => "shift", "reverse" => "reverse", "collinear" => "collinear", _ => "rigid" };
        let k: usize = args[i + 1].parse().unwrap(); let np: usize = args[i + 2].parse().unwrap(); i += 3;
        let mut pts = vec![];
        for _ in 0..np { pts.push(Point3D::new(Float::from_bits(args[i].parse().unwrap()), Float::from_bits(args[i + 1].parse().unwrap()), Float::from_bits(args[i + 2].parse().unwrap()))); i += 3; }
        let mat = if kind == "rigid" { let mut m = [0.0 as Float; 16]; for j in 0..16 { m[j] = Float::from_bits(args[i + j].parse().unwrap()); } i += 16; Some(m) } else { None };
        outs.push(variant_out(&Variant { kind, k, pts, mat }).1);
    }
    println!("{{{}\"note\":\"replay\",\"variants\":[{}]}}", f32_mark(), outs.join(","));
}

// ---------------------------------------------------------------------------------------------
// C05: point-in-loop / point-in-polygon
// ---------------------------------------------------------------------------------------------

/// result class of a point test: 0 = Ok(false), 1 = Ok(true), 100 + class = Err, 99 = panic
fn test_class(r: Result<Result<bool, String>, String>) -> u32 {
    match r { Ok(Ok(false)) => 0, Ok(Ok(true)) => 1, Ok(Err(m)) => 100 + err_class(&m), Err(_) => 99 }
}
fn loop_state_coq(l: &Loop3D) -> String {
    let s = snapshot(l);
    format!("({}, {}, {})", sfs(&s.0), sfs(&s.1), coq_bool(s.2))
}
fn loop_state_json(l: &Loop3D) -> String {
    let s = snapshot(l);
    format!("{{\"v\":{},\"n\":{},\"closed\":{}}}", jfs(&s.0), jfs(&s.1), s.2)
}
struct Query { p: Point3D, lab: &'static str }

/// query points for an outline given in 2-D (`poly` = the 2-D positions of the stored vertices, in stored order)
fn c05_queries(r: &mut Rng, fr: &Frame, poly: &[P2], extra: &[Vec<P2>], nuniform: usize) -> Vec<Query> {
    let mut qs: Vec<Query> = vec![];
    let n = poly.len();
    let b = bbox2(poly);
    let (w, h) = (b.2 - b.0, b.3 - b.1);
    let pad = 0.15 * w.max(h);
    for _ in 0..nuniform { qs.push(Query { p: fr.at(r.range(b.0 - pad, b.2 + pad), r.range(b.1 - pad, b.3 + pad)), lab: "uniform" }); }
    let mut outlines: Vec<&[P2]> = vec![poly];
    for e in extra { outlines.push(&e[..]); }
    for (oi, pl) in outlines.iter().enumerate() {
        let m = pl.len();
        // a subset of edges / vertices when the outline is long
        let stride = if m > 12 { 1 + r.below(3) as usize } else { 1 };
        let mut i = r.below(stride as u64) as usize;
        while i < m {
            let (a, bb) = (pl[i], pl[(i + 1) % m]);
            let (ex, ey) = (bb.0 - a.0, bb.1 - a.1); let el = (ex * ex + ey * ey).sqrt();
            if el > 0.0 {
                let (nx, ny) = (-ey / el, ex / el);
                let mid = ((a.0 + bb.0) / 2.0, (a.1 + bb.1) / 2.0);
                // both sides of the edge midpoint, 1e-4 .. 1e-1
                let dist = (10.0f64).powf(r.range(-4.0, -1.0));
                for s in [1.0, -1.0] { qs.push(Query { p: fr.at(mid.0 + s * dist * nx, mid.1 + s * dist * ny), lab: "edge-mid" }); }
                // both sides of the vertex a (along the edge normal and along a random direction)
                let dist = (10.0f64).powf(r.range(-4.0, -1.0));
                let ang = r.range(0.0, std::f64::consts::TAU);
                for s in [1.0, -1.0] { qs.push(Query { p: fr.at(a.0 + s * dist * ang.cos(), a.1 + s * dist * ang.sin()), lab: "vertex" }); }
                // prolongation of the edge beyond b (the test ray of a later query may run along it; also the `contains_point` parameter test)
                if oi == 0 && r.chance(0.5) { let t = r.range(0.02, 1.0); qs.push(Query { p: fr.at(bb.0 + t * ex, bb.1 + t * ey), lab: "prolongation" }); }
            }
            i += stride;
        }
    }
    // the internal ray leaves from q away from the midpoint of the first stored edge: aim it at vertices and along edges
    let m0 = ((poly[0].0 + poly[1].0) / 2.0, (poly[0].1 + poly[1].1) / 2.0);
    for _ in 0..(2 + n / 4) {
        let v = poly[2 + r.below((n - 2) as u64) as usize];
        let s = r.range(0.05, 0.95);
        qs.push(Query { p: fr.at(m0.0 + s * (v.0 - m0.0), m0.1 + s * (v.1 - m0.1)), lab: "aim-vertex" });
    }
    // near misses of a vertex: the cast ray passes a vertex at 3e-9 .. 1.3e-8 of its distance from the ray's source, on either side
    // (outside the 1e-9 class of the recorded vertex-grazing finding; seeded change C05-m4 widens the vertex rules to sqrt(eps)).
    // Drawn from a derived generator state: the queries above and below are unchanged
    { let mut r2 = Rng(r.0 ^ 0x5EED_C054);
      for _ in 0..(2 + n / 4) {
        let v = poly[2 + r2.below((n - 2) as u64) as usize];
        let s = r2.range(0.05, 0.95);
        let (wx, wy) = (v.0 - m0.0, v.1 - m0.1);
        let f = (10.0f64).powf(r2.range(-8.5, -7.9)) * if r2.chance(0.5) { 1.0 } else { -1.0 };
        let (tx, ty) = (v.0 - f * wy, v.1 + f * wx);
        qs.push(Query { p: fr.at(m0.0 + s * (tx - m0.0), m0.1 + s * (ty - m0.1)), lab: "near-vertex-ray" });
      } }
    // along the first edge (the ray runs along it) on both prolongations
    { let (a, bb) = (poly[0], poly[1]); let t = r.range(0.05, 1.0);
      qs.push(Query { p: fr.at(bb.0 + t * (bb.0 - a.0), bb.1 + t * (bb.1 - a.1)), lab: "along-first" });
      qs.push(Query { p: fr.at(a.0 - t * (bb.0 - a.0), a.1 - t * (bb.1 - a.1)), lab: "along-first" }); }
    // near the midpoint of the first edge, any direction (finding F7: the ray is 1000 (q - m))
    for _ in 0..4 {
        let dist = (10.0f64).powf(r.range(-4.0, -1.0)); let ang = r.range(0.0, std::f64::consts::TAU);
        qs.push(Query { p: fr.at(m0.0 + dist * ang.cos(), m0.1 + dist * ang.sin()), lab: "near-first-mid" });
    }
    // decision boundaries (for the correspondence; mostly inside the oracle's tolerance bands): the 1e-7 coplanarity gate and the
    // 1e-5 product threshold of the on-edge shortcut (distance x edge length), both sides of each
    for f in [0.5, 0.99, 1.01, 2.0] {
        let sgn = if r.chance(0.5) { 1.0 } else { -1.0 };
        qs.push(Query { p: fr.off(r.range(b.0, b.2), r.range(b.1, b.3), sgn * f * 1e-7), lab: "boundary-plane" });
    }
    for _ in 0..2 {
        let i = r.below(n as u64) as usize; let (a, bb) = (poly[i], poly[(i + 1) % n]);
        let (ex, ey) = (bb.0 - a.0, bb.1 - a.1); let el = (ex * ex + ey * ey).sqrt();
        if el > 0.0 { let t = r.range(0.1, 0.9);
            for f in [0.9, 1.1] { let dist = f * 1e-5 / el; let sgn = if r.chance(0.5) { 1.0 } else { -1.0 };
                qs.push(Query { p: fr.at(a.0 + t * ex - sgn * dist * ey / el, a.1 + t * ey + sgn * dist * ex / el), lab: "boundary-edge" }); } }
    }
    // off-plane 1e-6 .. 1 (both sides), over interior and exterior positions
    for _ in 0..4 {
        let hgt = (10.0f64).powf(r.range(-6.0, 0.0)) * if r.chance(0.5) { 1.0 } else { -1.0 };
        qs.push(Query { p: fr.off(r.range(b.0, b.2), r.range(b.1, b.3), hgt), lab: "off-plane" });
    }
    qs
}
/// the 2-D coordinates of stored vertices in the frame (exact enough for placing queries)
fn to2(fr: &Frame, l: &Loop3D) -> Vec<P2> {
    l.vertices().iter().map(|p| {
        let d = [p.x as f64 - fr.o[0], p.y as f64 - fr.o[1], p.z as f64 - fr.o[2]];
        (d[0] * fr.e1[0] + d[1] * fr.e1[1] + d[2] * fr.e1[2], d[0] * fr.e2[0] + d[1] * fr.e2[1] + d[2] * fr.e2[2])
    }).collect()
}
enum Subject { Loop(Loop3D), Poly(Polygon3D) }
fn c05_case(r: &mut Rng) -> Option<(Subject, Frame, String)> {
    let off = if r.chance(0.5) { 10.0 } else { 1000.0 };
    let fr = frame_for(r, off);   // (f64 build: Frame::random; f32 build: mostly coordinate planes, see gen.rs)
    let big = r.chance(0.2);
    let (poly, fam) = simple_polygon(r, if big { 40 } else { 12 });
    if !corners_ok(&poly, 1e-4) { return None; }
    let poly = if r.chance(0.5) { reversed(&poly) } else { poly };
    let poly = rotate_start(&poly, r.below(poly.len() as u64) as usize);
    let outer = make_loop(&fr, &poly)?;
    let kind = match r.below(20) { 0..=8 => 0u64, 9 => 5, 10..=15 => 6, _ => 8 };
    if kind < 5 {
        return Some((Subject::Loop(outer), fr.clone(), format!("loop:{}:{}:plane{}", fam, poly.len(), fr.kind)));
    }
    if kind == 5 {
        // an open loop: every test must be an error
        let mut l = Loop3D::new();
        for p in poly.iter() { l.push(fr.at(p.0, p.1)).ok()?; }
        return Some((Subject::Loop(l), fr.clone(), format!("open:{}:{}:plane{}", fam, poly.len(), fr.kind)));
    }
    // polygons with holes (kind 6,7: tested as polygons; 8,9: merged into one weakly simple outline with bridges)
    let mut pg = Polygon3D::new(outer).ok()?;
    let nh = if kind >= 8 { 1 + r.below(2) } else { r.below(4) } as usize;
    let mut attempts = 0;
    let mut centres: Vec<(P2, f64)> = vec![];
    let scale = { let b = bbox2(&poly); (b.2 - b.0).min(b.3 - b.1) };
    while centres.len() < nh && attempts < 6 * nh {
        attempts += 1;
        let rad = scale * r.range(0.04, 0.12);
        let Some(c) = interior_point(r, &poly, 2.5 * rad) else { continue };
        if centres.iter().any(|(d, rr)| ((d.0 - c.0).powi(2) + (d.1 - c.1).powi(2)).sqrt() < 2.5 * (rad + rr)) { continue; }
        let k = 3 + r.below(4) as usize;
        let (ccw, st) = (r.chance(0.5), r.below(k as u64) as usize);
        let hole2 = small_hole(r, c, rad, k, ccw, st);
        if !corners_ok(&hole2, 1e-4) { continue; }
        let Some(hl) = make_loop(&fr, &hole2) else { continue };
        let ok = catch(std::panic::AssertUnwindSafe(|| { let mut c2 = pg.clone(); c2.cut_hole(hl).map(|_| c2) }));
        if let Ok(Ok(p2)) = ok { pg = p2; centres.push((c, rad)); }
    }
    if kind >= 8 {
        if pg.n_inner_loops() == 0 { return None; }
        let l = catch(std::panic::AssertUnwindSafe(|| { let mut l = pg.get_closed_loop(); l.close().map(|_| l) })).ok()?.ok()?;
        return Some((Subject::Loop(l), fr.clone(), format!("bridged{}:{}:{}:plane{}", pg.n_inner_loops(), fam, poly.len(), fr.kind)));
    }
    let nh = pg.n_inner_loops();
    Some((Subject::Poly(pg), fr.clone(), format!("poly{}:{}:{}:plane{}", nh, fam, poly.len(), fr.kind)))
}
fn c05_emit(sub: &Subject, qs: &[Query], note: &str) -> (String, String) {
    let (outer, holes): (&Loop3D, Vec<&Loop3D>) = match sub {
        Subject::Loop(l) => (l, vec![]),
        Subject::Poly(p) => (p.outer(), (0..p.n_inner_loops()).map(|i| p.inner(i).unwrap()).collect()),
    };
    let is_poly = matches!(sub, Subject::Poly(_));
    let mut cq = vec![]; let mut jq = vec![];
    for q in qs {
        let p = q.p;
        let res = match sub {
            Subject::Loop(l) => test_class(catch(std::panic::AssertUnwindSafe(|| l.test_point(p)))),
            Subject::Poly(pg) => test_class(catch(std::panic::AssertUnwindSafe(|| pg.test_point(p)))),
        };
        // the answers of the individual loops (outer, holes) -- for the oracle's attribution only
        let parts: Vec<String> = if is_poly {
            std::iter::once(outer).chain(holes.iter().copied()).map(|l| test_class(catch(std::panic::AssertUnwindSafe(|| l.test_point(p)))).to_string()).collect()
        } else { vec![res.to_string()] };
        cq.push(format!("({}, {}%N)", sfs(&[p.x, p.y, p.z]), res));
        jq.push(format!("{{\"p\":{},\"r\":{},\"parts\":[{}],\"lab\":\"{}\"}}", jfs(&[p.x, p.y, p.z]), res, parts.join(","), q.lab));
    }
    let coq = format!("({}, {}, ([{}] : list lstate), [{}])", coq_bool(is_poly), loop_state_coq(outer), holes.iter().map(|h| loop_state_coq(h)).collect::<Vec<_>>().join("; "), cq.join("; "));
    let js = format!("{{{}\"note\":\"{}\",\"poly\":{},\"outer\":{},\"holes\":[{}],\"queries\":[{}]}}", f32_mark(), note, is_poly, loop_state_json(outer),
        holes.iter().map(|h| loop_state_json(h)).collect::<Vec<_>>().join(","), jq.join(","));
    (coq, js)
}
pub fn run_c05(seed: u64, n: usize, out: &str) {
    let mut r = Rng::new(seed ^ 0xC05);
    // f32 build: runner module C05f32 of Run/C05.v (the same text on the binary32 instance)
    let mut sink = Sink::new32(out, "C05", 10);
    // the witness of DESIGN F7 (i) first (fixed by 6f318c4; regression witness): unit square, q = (0.5, 1e-4, 0)
    {
        let fr = Frame::xy();
        let sq = make_loop(&fr, &[(0.0, 0.0), (1.0, 0.0), (1.0, 1.0), (0.0, 1.0)]).unwrap();
        let qs = vec![Query { p: Point3D::new(0.5, 1e-4, 0.0), lab: "near-first-mid" }, Query { p: Point3D::new(0.5, 0.5, 0.0), lab: "uniform" },
                      Query { p: Point3D::new(0.5, -1e-4, 0.0), lab: "near-first-mid" }, Query { p: Point3D::new(0.5, 0.5, 1e-6), lab: "off-plane" }];
        let (c, j) = c05_emit(&Subject::Loop(sq), &qs, "loop:unit-square:4:plane0");
        sink.push(c, j);
    }
    while sink.len() < n {
        let Some((sub, fr, note)) = c05_case(&mut r) else { continue };
        let (outer2, holes2): (Vec<P2>, Vec<Vec<P2>>) = match &sub {
            Subject::Loop(l) => (to2(&fr, l), vec![]),
            Subject::Poly(p) => (to2(&fr, p.outer()), (0..p.n_inner_loops()).map(|i| to2(&fr, p.inner(i).unwrap())).collect()),
        };
        if outer2.len() < 3 { continue; }
        let nu = 6 + r.below(10) as usize;
        let qs = c05_queries(&mut r, &fr, &outer2, &holes2, nu);
        let (c, j) = c05_emit(&sub, &qs, &note);
        sink.push(c, j);
    }
    sink.flush();
}
/// args: is_poly nloops, per loop: closed nverts (bits x y z)* (bits normal x y z); then queries (bits x y z)*
/// The loops are rebuilt through push/close (their stored state is checked to be the same as recorded).
pub fn replay_c05(args: &[String]) {
    let is_poly = args[0] == "1"; let nl: usize = args[1].parse().unwrap();
    let mut i = 2; let mut loops: Vec<Loop3D> = vec![]; let mut same = true;
    let f = |s: &String| Float::from_bits(s.parse().unwrap());
    for _ in 0..nl {
        let closed = args[i] == "1"; let nv: usize = args[i + 1].parse().unwrap(); i += 2;
        let mut l = Loop3D::new();
        let mut vs = vec![];
        for _ in 0..nv { let p = Point3D::new(f(&args[i]), f(&args[i + 1]), f(&args[i + 2])); i += 3; vs.push(p); let _ = l.push(p); }
        if closed { let _ = l.close(); }
        let nn = [f(&args[i]), f(&args[i + 1]), f(&args[i + 2])]; i += 3;
        let s = snapshot(&l);
        let vflat: Vec<Float> = vs.iter().flat_map(|p| vec![p.x, p.y, p.z]).collect();
        if s.0.iter().map(|x| x.to_bits()).ne(vflat.iter().map(|x| x.to_bits())) || s.1.iter().map(|x| x.to_bits()).ne(nn.iter().map(|x| x.to_bits())) { same = false; }
        loops.push(l);
    }
    let mut qs = vec![];
    while i + 2 < args.len() { qs.push(Query { p: Point3D::new(f(&args[i]), f(&args[i + 1]), f(&args[i + 2])), lab: "replay" }); i += 3; }
    let sub = if is_poly {
        let mut pg = Polygon3D::new(loops[0].clone()).unwrap();
        for h in loops[1..].iter() { if pg.cut_hole(h.clone()).is_err() { same = false; } }
        Subject::Poly(pg)
    } else { Subject::Loop(loops[0].clone()) };
    let (_, j) = c05_emit(&sub, &qs, if same { "replay" } else { "replay:state-differs" });
    println!("{}", j);
}
