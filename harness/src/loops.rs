//! Loop3D: histories of push/close (C04), point tests (C05), measures (C10).
use crate::gen::*;
use crate::util::*;
use geometry3d::{Loop3D, Point3D, Segment3D};

pub fn err_class(msg: &str) -> u32 {
    let table: [(&str, u32); 14] = [
        ("closed Loop3D", 30), ("non-coplanar", 31), ("intersect with itself", 32), ("at least 3 vertices", 33),
        ("three equal Point3D", 1), ("open Loop3D", 34), ("not closed", 34), ("without any vertices", 35), ("without normal", 36),
        ("Zero normal", 36), ("less than three", 33), ("length 0 contains", 3), ("zero-length segment", 4), ("Zero Vector", 2),
    ];
    for (k, c) in table.iter() { if msg.contains(k) { return *c; } }
    98
}
pub fn snapshot(l: &Loop3D) -> (Vec<Float>, Vec<Float>, bool, Vec<Float>) {
    let v: Vec<Float> = l.vertices().iter().flat_map(|p| vec![p.x, p.y, p.z]).collect();
    let n = l.normal();
    let ap = if l.closed() { vec![l.area().unwrap(), l.perimeter().unwrap()] } else { vec![] };
    (v, vec![n.x, n.y, n.z], l.closed(), ap)
}
fn snap_coq(o: u32, s: &(Vec<Float>, Vec<Float>, bool, Vec<Float>)) -> String {
    format!("({}%N, {}, {}, {}, {})", o, sfs(&s.0), sfs(&s.1), coq_bool(s.2), sfs(&s.3))
}
fn snap_json(o: u32, s: &(Vec<Float>, Vec<Float>, bool, Vec<Float>)) -> String {
    format!("{{\"o\":{},\"v\":{},\"n\":{},\"closed\":{},\"ap\":{}}}", o, jfs(&s.0), jfs(&s.1), s.2, jfs(&s.3))
}
#[derive(Clone, Debug)]
pub enum Op { Push(Point3D, &'static str), Close }

/// apply one op to the real loop: outcome class (0 ok, 99 panic)
pub fn apply_op(l: &mut Loop3D, op: &Op) -> u32 {
    let mut tmp = l.clone();
    let r = catch(std::panic::AssertUnwindSafe(|| match op {
        Op::Push(p, _) => tmp.push(*p),
        Op::Close => tmp.close(),
    }));
    match r {
        Ok(Ok(())) => { *l = tmp; 0 }
        Ok(Err(m)) => { *l = tmp; err_class(&m) }
        Err(_) => 99,
    }
}

/// a history: an outline in a random plane plus perturbing operations
pub fn rand_history(r: &mut Rng, nmax: usize) -> (Vec<Op>, String) {
    let fr = Frame::random(r, 1000.0);
    let (poly, fam) = simple_polygon(r, nmax);
    let poly = if r.chance(0.5) { with_collinear(r, &poly, 0.3) } else { poly };
    let poly = if r.chance(0.5) { reversed(&poly) } else { poly };
    let poly = rotate_start(&poly, r.below(poly.len() as u64) as usize);
    // a few centimetre-scale outlines (edges of a few cm): absolute tolerances of the crate bite here
    let small = r.chance(0.06);
    let poly: Vec<P2> = if small { poly.iter().map(|p| (p.0 * 0.02, p.1 * 0.02)).collect() } else { poly };
    let c = centroid2(&poly);
    let mut ops: Vec<Op> = vec![];
    let n = poly.len();
    let mut note = format!("{}:{}:plane{}{}", fam, n, fr.kind, if small { ":cm" } else { "" });
    for (i, p) in poly.iter().enumerate() {
        // perturbations before the regular push
        if i >= 1 && r.chance(0.08) { ops.push(Op::Push(fr.at(poly[i - 1].0, poly[i - 1].1), "repeat")); if r.chance(0.5) { ops.push(Op::Push(fr.at(poly[i - 1].0, poly[i - 1].1), "repeat")); } }
        if i >= 3 && r.chance(0.1) {
            // off-plane candidate (clearly: 1e-3 .. 1)
            let h = (10.0f64).powf(r.range(-3.0, 0.0)) * if r.chance(0.5) { 1.0 } else { -1.0 };
            ops.push(Op::Push(fr.off(p.0, p.1, h), "offplane"));
        }
        if i >= 3 && r.chance(0.12) {
            // clearly crossing candidate: a point across an earlier edge (mirror of the last vertex through the midpoint of edge j)
            let j = r.below((i - 2) as u64) as usize;
            let (a, b) = (poly[j], poly[j + 1]);
            let m = ((a.0 + b.0) / 2.0, (a.1 + b.1) / 2.0);
            let last = poly[i - 1];
            let q = (m.0 + (m.0 - last.0) * 0.7, m.1 + (m.1 - last.1) * 0.7);
            ops.push(Op::Push(fr.at(q.0, q.1), "crossing?"));
        }
        if i >= 2 && r.chance(0.05) {
            // retrace: go towards the centroid and come back (weakly simple spike)
            let last = poly[i - 1];
            let q = (last.0 + (c.0 - last.0) * 0.3, last.1 + (c.1 - last.1) * 0.3);
            ops.push(Op::Push(fr.at(q.0, q.1), "spike-out")); ops.push(Op::Push(fr.at(last.0, last.1), "spike-back"));
        }
        ops.push(Op::Push(fr.at(p.0, p.1), "outline"));
    }
    if n >= 5 && r.chance(0.1) {
        // a last vertex whose CLOSING edge crosses an earlier edge at its midpoint, optionally followed by a
        // redundant vertex on that closing edge (which close() pops before it tests the closing edge)
        let j = 1 + r.below((n - 3) as u64) as usize;
        let (a, b) = (poly[j], poly[j + 1]);
        let m = ((a.0 + b.0) / 2.0, (a.1 + b.1) / 2.0);
        let p0 = poly[0];
        let q = (m.0 + (m.0 - p0.0) * 0.6, m.1 + (m.1 - p0.1) * 0.6);
        ops.push(Op::Push(fr.at(q.0, q.1), "closing-edge-crosses"));
        if r.chance(0.5) { let t = r.range(0.1, 0.3); ops.push(Op::Push(fr.at(q.0 + t * (p0.0 - q.0), q.1 + t * (p0.1 - q.1)), "on-closing-edge")); }
    }
    if r.chance(0.15) { ops.push(Op::Push(fr.at(poly[0].0, poly[0].1), "repeat-first")); }
    if r.chance(0.9) { ops.push(Op::Close); }
    if r.chance(0.3) { ops.push(Op::Push(fr.at(c.0, c.1), "after-close")); }
    if r.chance(0.1) { ops.push(Op::Close); }
    if n < 3 { note.push_str(":short"); }
    (ops, note)
}
fn small_history(r: &mut Rng) -> (Vec<Op>, String) {
    // degenerate openings: too few points, equal points, collinear only
    let fr = Frame::random(r, 10.0);
    let k = r.below(5);
    let mut ops = vec![];
    match k {
        0 => { ops.push(Op::Close); }
        1 => { let p = fr.at(1.0, 2.0); for _ in 0..3 { ops.push(Op::Push(p, "same")); } ops.push(Op::Close); }
        2 => { for i in 0..4 { ops.push(Op::Push(fr.at(i as f64, 2.0 * i as f64), "collinear")); } ops.push(Op::Close); }
        3 => { ops.push(Op::Push(fr.at(0.0, 0.0), "a")); ops.push(Op::Push(fr.at(1.0, 0.0), "b")); ops.push(Op::Close); ops.push(Op::Push(fr.at(1.0, 1.0), "c")); ops.push(Op::Close); }
        _ => { let p = fr.at(0.0, 0.0); ops.push(Op::Push(p, "a")); ops.push(Op::Push(p, "a")); ops.push(Op::Push(fr.at(1.0, 0.0), "b")); ops.push(Op::Push(fr.at(1.0, 0.0), "b")); ops.push(Op::Push(fr.at(1.0, 0.0), "b")); ops.push(Op::Push(fr.at(0.0, 1.0), "c")); ops.push(Op::Close); }
    }
    (ops, format!("degenerate{}", k))
}

pub fn run_c04(seed: u64, n: usize, out: &str) {
    let mut r = Rng::new(seed ^ 0xC04);
    let mut sink = Sink::new(out, "C04", 40);
    #[cfg(feature = "float")]
    { sink.runner = "C04f32".to_string(); }
    while sink.len() < n {
        let big = r.chance(0.2);
        let (ops, note) = if r.chance(0.1) { small_history(&mut r) } else { rand_history(&mut r, if big { 60 } else { 14 }) };
        let mut l = Loop3D::new();
        let mut coq_ops = vec![]; let mut coq_snaps = vec![]; let mut j_ops = vec![]; let mut j_snaps = vec![];
        for op in ops.iter() {
            let o = apply_op(&mut l, op);
            let (k, p, lab) = match op { Op::Push(p, lab) => (0, *p, *lab), Op::Close => (1, Point3D::new(0.0, 0.0, 0.0), "close") };
            coq_ops.push(format!("({}%N, {})", k, sfs(&[p.x, p.y, p.z])));
            j_ops.push(format!("{{\"k\":{},\"p\":{},\"lab\":\"{}\"}}", k, jfs(&[p.x, p.y, p.z]), lab));
            let s = snapshot(&l);
            coq_snaps.push(snap_coq(o, &s)); j_snaps.push(snap_json(o, &s));
            if o == 99 { break; }
        }
        sink.push(
            format!("([{}], [{}])", coq_ops.join("; "), coq_snaps.join("; ")),
            format!("{{\"note\":\"{}\",\"ops\":[{}],\"snaps\":[{}]}}", note, j_ops.join(","), j_snaps.join(",")),
        );
    }
    sink.flush();
}

/// build a closed loop from 2-D points in a frame; None when the crate refuses it
pub fn make_loop(fr: &Frame, poly: &[P2]) -> Option<Loop3D> {
    let mut l = Loop3D::new();
    for p in poly { if catch(std::panic::AssertUnwindSafe(|| l.push(fr.at(p.0, p.1)))).ok()?.is_err() { return None; } }
    if catch(std::panic::AssertUnwindSafe(|| l.close())).ok()?.is_err() { return None; }
    Some(l)
}
pub fn loop_coq(l: &Loop3D) -> String {
    let s = snapshot(l);
    format!("({}, {}, {}, {})", sfs(&s.0), sfs(&s.1), coq_bool(s.2), sfs(&if s.3.is_empty() { vec![-1.0, -1.0] } else { s.3.clone() }))
}
pub fn loop_json(l: &Loop3D) -> String {
    let s = snapshot(l);
    format!("{{\"v\":{},\"n\":{},\"closed\":{},\"ap\":{}}}", jfs(&s.0), jfs(&s.1), s.2, jfs(&s.3))
}

pub fn replay_c04(args: &[String]) {
    // args: k x y z (bits) ... one op per 4 args
    let mut l = Loop3D::new();
    let mut j_ops = vec![]; let mut j_snaps = vec![];
    for ch in args.chunks(4) {
        let k: u32 = ch[0].parse().unwrap();
        let p = Point3D::new(Float::from_bits(ch[1].parse().unwrap()), Float::from_bits(ch[2].parse().unwrap()), Float::from_bits(ch[3].parse().unwrap()));
        let op = if k == 0 { Op::Push(p, "replay") } else { Op::Close };
        let o = apply_op(&mut l, &op);
        j_ops.push(format!("{{\"k\":{},\"p\":{},\"lab\":\"replay\"}}", k, jfs(&[p.x, p.y, p.z])));
        j_snaps.push(snap_json(o, &snapshot(&l)));
        if o == 99 { break; }
    }
    println!("{{\"note\":\"replay\",\"ops\":[{}],\"snaps\":[{}]}}", j_ops.join(","), j_snaps.join(","));
}
#[allow(dead_code)]
pub fn seg(a: Point3D, b: Point3D) -> Segment3D { Segment3D::new(a, b) }
