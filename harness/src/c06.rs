//! C06 / C16: Transform constructors, composition, and every transform_* function.
use crate::util::*;
use geometry3d::intersection::{IntersectionInfo, SurfaceSide};
use geometry3d::{BBox3D, Point3D, Ray3D, Transform, Vector3D};

#[derive(Clone, Debug)]
pub enum Elem { Tr(Float, Float, Float), Sc(Float, Float, Float), Rx(Float), Ry(Float), Rz(Float) }

pub fn elem_tr(e: &Elem) -> Transform {
    match *e {
        Elem::Tr(x, y, z) => Transform::translate(x, y, z),
        Elem::Sc(x, y, z) => Transform::scale(x, y, z),
        Elem::Rx(d) => Transform::rotate_x(d),
        Elem::Ry(d) => Transform::rotate_y(d),
        Elem::Rz(d) => Transform::rotate_z(d),
    }
}
pub fn elem_code(e: &Elem) -> (usize, Vec<Float>) {
    match *e {
        Elem::Tr(x, y, z) => (0, vec![x, y, z]),
        Elem::Sc(x, y, z) => (1, vec![x, y, z]),
        Elem::Rx(d) => (2, vec![d]),
        Elem::Ry(d) => (3, vec![d]),
        Elem::Rz(d) => (4, vec![d]),
    }
}
pub fn rand_elem(r: &mut Rng) -> Elem {
    let ang = |r: &mut Rng| -> Float {
        match r.below(4) {
            0 => *r.pick(&[0.0, 90.0, -90.0, 180.0, 270.0, 45.0, 30.0, 360.0, -720.0, 720.0]) as Float,
            _ => r.range(-720.0, 720.0) as Float,
        }
    };
    let sc = |r: &mut Rng| -> Float {
        let m = (10.0f64).powf(r.range(-1.0, 1.0));
        (if r.chance(0.3) { -m } else { m }) as Float
    };
    match r.below(5) {
        0 => Elem::Tr(r.range(-1e3, 1e3) as Float, r.range(-1e3, 1e3) as Float, r.range(-10.0, 10.0) as Float),
        1 => { if r.chance(0.3) { let s = sc(r); Elem::Sc(s, s, s) } else { Elem::Sc(sc(r), sc(r), sc(r)) } }
        2 => Elem::Rx(ang(r)),
        3 => Elem::Ry(ang(r)),
        _ => Elem::Rz(ang(r)),
    }
}
pub fn rand_chain(r: &mut Rng) -> Vec<Elem> {
    if r.chance(0.1) {
        // determinant band: only scalings with small factors, so that |det| drops to ~1e-17, either sign
        let mut c: Vec<Elem> = (0..6).map(|_| Elem::Sc(r.range(0.1, 0.15) as Float, r.range(0.1, 0.15) as Float, r.range(0.1, 0.15) as Float)).collect();
        let flips = r.below(4); // 0..3 mirrored axes: both parities
        for k in 0..flips { if let Elem::Sc(x, y, z) = c[(k as usize * 2) % 6] { c[(k as usize * 2) % 6] = Elem::Sc(-x, y, z); } }
        return c;
    }
    let n = r.below(7);
    (0..n).map(|_| rand_elem(r)).collect()
}
pub fn mats(t: &Transform) -> Vec<Float> {
    let (e, i) = t.verif_elements();
    let mut v = e.to_vec();
    v.extend_from_slice(&i);
    v
}
pub fn from_mats(v: &[Float]) -> Transform {
    let mut e = [0.0 as Float; 16];
    let mut i = [0.0 as Float; 16];
    e.copy_from_slice(&v[0..16]);
    i.copy_from_slice(&v[16..32]);
    Transform::verif_from_elements(e, i)
}
fn p3(v: &[Float]) -> Point3D { Point3D::new(v[0], v[1], v[2]) }
fn v3(v: &[Float]) -> Vector3D { Vector3D::new(v[0], v[1], v[2]) }
fn pv(p: Point3D) -> Vec<Float> { vec![p.x, p.y, p.z] }
fn vv(p: Vector3D) -> Vec<Float> { vec![p.x, p.y, p.z] }
fn rayout(x: (Ray3D, Point3D, Point3D)) -> Vec<Float> {
    let mut o = pv(x.0.origin); o.extend(vv(x.0.direction)); o.extend(pv(x.1)); o.extend(pv(x.2)); o
}
fn ptout<A: Into<[Float; 3]>>(a: A, e: Point3D) -> Vec<Float> { let a: [Float; 3] = a.into(); let mut o = a.to_vec(); o.extend(pv(e)); o }
struct P(Point3D); struct W(Vector3D);
impl From<P> for [Float; 3] { fn from(p: P) -> Self { [p.0.x, p.0.y, p.0.z] } }
impl From<W> for [Float; 3] { fn from(p: W) -> Self { [p.0.x, p.0.y, p.0.z] } }

pub const N_OPS: usize = 23;
pub fn n_inputs(op: usize) -> usize {
    match op { 0..=5 => 3, 6 | 7 => 6, 8 | 9 => 6, 10 => 0, 11 | 12 | 15 | 16 => 3, 13 | 14 | 17 | 18 => 6, _ => 12 }
}
/// apply operation `op` of transform `t` to inputs `i`
pub fn apply(t: &Transform, op: usize, i: &[Float]) -> Vec<Float> {
    match op {
        0 => pv(t.transform_pt(p3(i))),
        1 => pv(t.inv_transform_pt(p3(i))),
        2 => vv(t.transform_vec(v3(i))),
        3 => vv(t.inv_transform_vec(v3(i))),
        4 => vv(t.transform_normal(v3(i))),
        5 => vv(t.inv_transform_normal(v3(i))),
        6 => rayout(t.transform_ray(&Ray3D { origin: p3(i), direction: v3(&i[3..]) })),
        7 => rayout(t.inv_transform_ray(&Ray3D { origin: p3(i), direction: v3(&i[3..]) })),
        8 => { let b = t.transform_bbox(BBox3D::new(p3(i), p3(&i[3..]))); let mut o = pv(b.min); o.extend(pv(b.max)); o }
        9 => { let b = t.inv_transform_bbox(BBox3D::new(p3(i), p3(&i[3..]))); let mut o = pv(b.min); o.extend(pv(b.max)); o }
        10 => vec![if t.changes_hands() { 1.0 } else { 0.0 }],
        11 => { let (a, e) = t.transform_pt_with_error(p3(i)); ptout(P(a), e) }
        12 => { let (a, e) = t.inv_transform_pt_with_error(p3(i)); ptout(P(a), e) }
        13 => { let (a, e) = t.transform_pt_propagate_error(p3(i), p3(&i[3..])); ptout(P(a), e) }
        14 => { let (a, e) = t.inv_transform_pt_propagate_error(p3(i), p3(&i[3..])); ptout(P(a), e) }
        15 => { let (a, e) = t.transform_vec_with_error(v3(i)); ptout(W(a), e) }
        16 => { let (a, e) = t.inv_transform_vec_with_error(v3(i)); ptout(W(a), e) }
        17 => { let (a, e) = t.transform_vec_propagate_error(v3(i), p3(&i[3..])); ptout(W(a), e) }
        18 => { let (a, e) = t.inv_transform_vec_propagate_error(v3(i), p3(&i[3..])); ptout(W(a), e) }
        19 => rayout(t.transform_ray_propagate_error(&Ray3D { origin: p3(i), direction: v3(&i[3..]) }, p3(&i[6..]), p3(&i[9..]))),
        20 => rayout(t.inv_transform_ray_propagate_error(&Ray3D { origin: p3(i), direction: v3(&i[3..]) }, p3(&i[6..]), p3(&i[9..]))),
        21 | 22 => {
            let info = IntersectionInfo { p: p3(i), normal: v3(&i[3..]), side: SurfaceSide::Front, dpdu: v3(&i[6..]), dpdv: v3(&i[9..]) };
            let o = if op == 21 { info.transform(t) } else { info.inv_transform(t) };
            let mut v = pv(o.p); v.extend(vv(o.normal)); v.extend(vv(o.dpdu)); v.extend(vv(o.dpdv)); v
        }
        _ => unreachable!(),
    }
}
fn coord(r: &mut Rng, big: bool) -> Float {
    match r.below(6) {
        0 => *r.pick(&[0.0, 1.0, -1.0, 0.5, 2.0, 10.0]) as Float,
        1 => if big { r.logmag(0.0, 6.0) as Float } else { r.range(-100.0, 100.0) as Float },
        _ => r.range(-10.0, 10.0) as Float,
    }
}
pub fn rand_inputs(r: &mut Rng, op: usize, big: bool) -> Vec<Float> {
    let n = n_inputs(op);
    let mut v: Vec<Float> = (0..n).map(|_| coord(r, big)).collect();
    // error boxes are non-negative and small
    match op {
        13 | 14 | 17 | 18 => for k in 3..6 { v[k] = (r.f01() * 1e-3 * if r.chance(0.3) { 0.0 } else { 1.0 }) as Float },
        19 | 20 => for k in 6..12 { v[k] = (r.f01() * 1e-3 * if r.chance(0.3) { 0.0 } else { 1.0 }) as Float },
        _ => {}
    }
    v
}

fn chain_json(c: &[Elem]) -> String {
    let v: Vec<String> = c.iter().map(|e| { let (k, a) = elem_code(e); format!("[{},{}]", k, jfs(&a)) }).collect();
    format!("[{}]", v.join(","))
}

pub fn run(seed: u64, n: usize, out: &str, c16: bool) {
    if c16 { return run_c16(seed, n, out); }
    let mut r = Rng::new(seed ^ if c16 { 0xC16 } else { 0xC06 });
    let mut sink = Sink::new(out, "C06", 200);
    #[cfg(feature = "float")]
    { sink.runner = "C06f32".to_string(); }
    // corpus first: the composition that exposed the stored-inverse order defect
    let mut corpus: Vec<Vec<Elem>> = vec![
        vec![Elem::Tr(1.0, 0.0, 0.0), Elem::Rz(90.0)],
        vec![Elem::Tr(1000.0, 0.0, 0.0)],
        vec![Elem::Sc(2.0, -1.0, 0.5), Elem::Rx(30.0), Elem::Tr(1.0, 2.0, 3.0)],
    ];
    while sink.len() < n {
        let chain = if let Some(c) = corpus.pop() { c } else { rand_chain(&mut r) };
        let mut t = Transform::new();
        for e in chain.iter() {
            let et = elem_tr(e);
            let (k, a) = elem_code(e);
            // kind 0: constructor (libm inside: compared with a tolerance by the model side)
            sink.push(
                format!("(0%N, {}, {}%N, {}, {})", sfs(&a), k, "[]", sfs(&mats(&et))),
                format!("{{{}\"kind\":\"ctor\",\"k\":{},\"args\":{},\"out\":{}}}", f32_mark(), k, jfs(&a), jfs(&mats(&et))),
            );
            let before = mats(&t);
            t *= et.clone();
            // kind 1: t *= e, bit-exact given the two operands
            sink.push(
                format!("(1%N, {}, 0%N, {}, {})", sfs(&before), sfs(&mats(&et)), sfs(&mats(&t))),
                format!("{{{}\"kind\":\"mul\",\"a\":{},\"b\":{},\"out\":{}}}", f32_mark(), jfs(&before), jfs(&mats(&et)), jfs(&mats(&t))),
            );
        }
        // a right-hand side that is itself a PRODUCT (b = e1; b *= e2; ..; t *= b): with only constructors on the right the
        // translation of the right operand's inverse is never multiplied by a non-trivial linear part (seeded change C06-m5: an
        // "affine" product whose inverse translation is right for constructors only).  Own generator state; the composed transform
        // is not used further, so the cases that follow are unchanged
        {
            let mut y = Rng(r.0 ^ 0xC06_C0B0);
            if y.chance(0.35) {
                let rhs = rand_chain(&mut y);
                if rhs.len() >= 2 {
                    let mut b = Transform::new();
                    for e in rhs.iter().take(3) { b *= elem_tr(e); }
                    let before = mats(&t);
                    let mut t2 = from_mats(&before);
                    t2 *= b.clone();
                    sink.push(
                        format!("(1%N, {}, 0%N, {}, {})", sfs(&before), sfs(&mats(&b)), sfs(&mats(&t2))),
                        format!("{{{}\"kind\":\"mul\",\"a\":{},\"b\":{},\"out\":{}}}", f32_mark(), jfs(&before), jfs(&mats(&b)), jfs(&mats(&t2))),
                    );
                }
            }
        }
        let m = mats(&t);
        let nops = if c16 { 10 } else { 8 };
        for _ in 0..nops {
            let op = if c16 { 11 + r.below(10) as usize } else if chain.len() == 6 && r.chance(0.3) { 10 } else { r.below(N_OPS as u64) as usize };
            let i = rand_inputs(&mut r, op, c16);
            let o = match catch(|| apply(&t, op, &i)) { Ok(o) => o, Err(_) => continue };
            // kind 2: apply
            sink.push(
                format!("(2%N, {}, {}%N, {}, {})", sfs(&m), op, sfs(&i), sfs(&o)),
                format!("{{{}\"kind\":\"apply\",\"chain\":{},\"tr\":{},\"op\":{},\"in\":{},\"out\":{}}}", f32_mark(), chain_json(&chain), jfs(&m), op, jfs(&i), jfs(&o)),
            );
        }
    }
    sink.flush();
}

pub fn replay(args: &[String]) {
    // args: op, 32 matrix bit patterns, inputs   |   "mul", 32 + 32 bit patterns   |  "ctor", k, args
    if args[0] == "mul" {
        let v: Vec<Float> = args[1..].iter().map(|s| Float::from_bits(s.parse().unwrap())).collect();
        let mut a = from_mats(&v[0..32]);
        a *= from_mats(&v[32..64]);
        println!("{{\"kind\":\"mul\",\"a\":{},\"b\":{},\"out\":{}}}", jfs(&v[0..32]), jfs(&v[32..64]), jfs(&mats(&a)));
        return;
    }
    if args[0] == "ctor" {
        let k: usize = args[1].parse().unwrap();
        let v: Vec<Float> = args[2..].iter().map(|s| Float::from_bits(s.parse().unwrap())).collect();
        let e = match k { 0 => Elem::Tr(v[0], v[1], v[2]), 1 => Elem::Sc(v[0], v[1], v[2]), 2 => Elem::Rx(v[0]), 3 => Elem::Ry(v[0]), _ => Elem::Rz(v[0]) };
        println!("{{\"kind\":\"ctor\",\"k\":{},\"args\":{},\"out\":{}}}", k, jfs(&v), jfs(&mats(&elem_tr(&e))));
        return;
    }
    let op: usize = args[0].parse().unwrap();
    let v: Vec<Float> = args[1..].iter().map(|s| Float::from_bits(s.parse().unwrap())).collect();
    let t = from_mats(&v[0..32]);
    let i = &v[32..];
    let o = apply(&t, op, i);
    println!("{{\"kind\":\"apply\",\"chain\":[],\"tr\":{},\"op\":{},\"in\":{},\"out\":{}}}", jfs(&v[0..32]), op, jfs(i), jfs(&o));
}

// ---------------------------------------------------------------------------------------------
// C16 stream: the error-returning functions (ops 6, 7, 11..20) on random and ADVERSARIAL operands.
// The C06 stream above is untouched (run(.., false) never reaches this code).

/// ops of the C16 stream
const C16_OPS: [usize; 12] = [6, 7, 11, 12, 13, 14, 15, 16, 17, 18, 19, 20];

/// chains whose rows have three non-zero linear entries and a translation of any size
fn c16_chain(r: &mut Rng) -> Vec<Elem> {
    let t = |r: &mut Rng| -> Float {
        match r.below(5) {
            0 => 0.0,
            1 => *r.pick(&[0.1, -0.1, 0.3, 1000.0, 1e-3, 0.7, -2.5]) as Float,
            _ => r.logmag(-4.0, 3.0) as Float,
        }
    };
    let a = |r: &mut Rng| -> Float { if r.chance(0.3) { *r.pick(&[20.0, 35.0, 45.0, 30.0, 60.0, 10.0, 75.0, -50.0]) as Float } else { r.range(-180.0, 180.0) as Float } };
    let mut c = vec![Elem::Tr(t(r), t(r), t(r))];
    match r.below(4) {
        0 => { c.push(Elem::Rz(a(r))); c.push(Elem::Rx(a(r))); }
        1 => { c.push(Elem::Ry(a(r))); c.push(Elem::Rz(a(r))); c.push(Elem::Rx(a(r))); }
        2 => { c.push(Elem::Rx(a(r))); c.push(Elem::Ry(a(r))); let s = (10.0f64).powf(r.range(-1.0, 1.0)) as Float; c.push(Elem::Sc(s, s, s)); }
        _ => { c.push(Elem::Rz(a(r))); c.push(Elem::Ry(a(r))); c.push(Elem::Tr(t(r), t(r), t(r))); }
    }
    c
}

fn two_sum(a: Float, b: Float) -> (Float, Float) {
    let s = a + b;
    let bb = s - a;
    (s, (a - (s - bb)) + (b - bb))
}
/// exact rounding error (exact - computed, as a float sum of the six error-free-transformation residuals)
/// of one row `((m0 x + m1 y) + m2 z) [+ m3]`, over the bound the crate reports for it
fn row_objective(m: &[Float], p: &[Float; 3], pt: bool) -> Float {
    let (a, b, c) = (m[0] * p[0], m[1] * p[1], m[2] * p[2]);
    let e1 = m[0].mul_add(p[0], -a);
    let e2 = m[1].mul_add(p[1], -b);
    let e3 = m[2].mul_add(p[2], -c);
    let (s1, e4) = two_sum(a, b);
    let (s2, e5) = two_sum(s1, c);
    let e6 = if pt { two_sum(s2, m[3]).1 } else { 0.0 };
    let g3 = { let nm = Float::EPSILON / 2.0 * 3.0; nm / (1.0 - nm) };
    let bound = (a.abs() + b.abs() + c.abs() + m[3].abs()) * g3;
    if !(bound > 0.0) { return 0.0; }
    let tot = ((e1 + e2) + (e3 + e4)) + (e5 + e6);
    (tot / bound).abs()
}
fn step_ulps(x: Float, k: i64) -> Float {
    if x == 0.0 || !x.is_finite() { return x; }
    let b = x.to_bits() as i64 + k;
    let y = Float::from_bits(b as _);
    if y.is_finite() && y != 0.0 && (y < 0.0) == (x < 0.0) { y } else { x }
}
/// adversarial operand for row `row` of the 16-entry matrix `m`: every product and partial sum is steered to just above
/// a power of two (so that each rounding errs by almost half an ulp of the running sum), then a greedy search over the
/// low bits keeps what increases (exact rounding error) / (reported bound)
fn adversarial_operand(r: &mut Rng, m: &[Float], row: usize, pt: bool) -> [Float; 3] {
    let mr = &m[4 * row..4 * row + 4];
    let k = r.below(18) as i32 - 4;
    let h = (2.0 as Float).powi(k);
    let sgn: Float = if r.chance(0.5) { 1.0 } else { -1.0 };
    let u = Float::EPSILON / 2.0;
    let mut p = [0.0 as Float; 3];
    let style = r.below(4);
    for j in 0..3 {
        if mr[j] == 0.0 || !mr[j].is_finite() { p[j] = coord(r, true); continue; }
        let target = match (j, style) {
            (0, _) | (1, _) => h * (1.0 + (r.f01() as Float) * 1e-9),
            // third term: absorbed (just above half an ulp of the running sum 2h), or of moderate size
            (_, 0) | (_, 1) => 2.0 * h * u * (1.0 + (r.f01() as Float) * 0.02) * 2.0,
            (_, 2) => h * (r.f01() as Float) * 0.3,
            _ => h,
        };
        let v = sgn * target / mr[j];
        p[j] = if v.is_finite() && v.abs() <= 1e6 { v } else { coord(r, true) };
    }
    let mut best = row_objective(mr, &p, pt);
    let iters = 150 + r.below(250);
    for _ in 0..iters {
        let j = r.below(3) as usize;
        let span = *r.pick(&[3i64, 40, 1000, 60000]);
        let k = r.below(2 * span as u64 + 1) as i64 - span;
        let mut q = p;
        q[j] = step_ulps(q[j], k);
        if q[j].abs() > 1e6 { continue; }
        let v = row_objective(mr, &q, pt);
        if v > best { best = v; p = q; }
    }
    p
}
/// input error boxes: zero, tiny, up to 1e-3, and boxes whose products with the row are just above a power of two
fn err_box(r: &mut Rng, m: &[Float], row: usize) -> [Float; 3] {
    let mut e = [0.0 as Float; 3];
    let style = r.below(5);
    for j in 0..3 {
        e[j] = match style {
            0 => 0.0,
            1 => (r.f01() * 1e-3) as Float,
            2 => (10.0f64).powf(r.range(-12.0, -3.0)) as Float,
            3 => if r.chance(0.5) { 0.0 } else { (r.f01() * 1e-3) as Float },
            _ => {
                let mj = m[4 * row + j];
                let k = -(r.below(30) as i32) - 10;
                let v = ((2.0 as Float).powi(k) * (1.0 + Float::EPSILON * (r.below(4) as Float))) / mj.abs();
                if mj != 0.0 && v.is_finite() && v <= 1e-3 { step_ulps(v, r.below(7) as i64 - 3) } else { (r.f01() * 1e-3) as Float }
            }
        };
    }
    e
}
fn c16_inputs(r: &mut Rng, mats: &[Float], op: usize) -> (Vec<Float>, bool) {
    let inv = matches!(op, 7 | 12 | 14 | 16 | 18 | 20);
    let m = if inv { &mats[16..32] } else { &mats[0..16] };
    let adv = r.chance(0.6);
    let row = r.below(3) as usize;
    let rand3 = |r: &mut Rng| -> [Float; 3] { [coord(r, true), coord(r, true), coord(r, true)] };
    let mut v: Vec<Float> = vec![];
    match op {
        11 | 12 | 13 | 14 => { v.extend(if adv { adversarial_operand(r, m, row, true) } else { rand3(r) }); }
        15 | 16 | 17 | 18 => { v.extend(if adv { adversarial_operand(r, m, row, false) } else { rand3(r) }); }
        _ => {
            v.extend(if adv { adversarial_operand(r, m, row, true) } else { rand3(r) });
            let row2 = r.below(3) as usize;
            v.extend(if adv && r.chance(0.5) { adversarial_operand(r, m, row2, false) } else { rand3(r) });
        }
    }
    // very short ray directions (rays need not be normalised): every component of the transformed direction below
    // 100 * EPSILON although the direction is not zero - the origin must still be advanced out of its own error box
    // (seeded change C16-m4: `if !direction.is_zero()` instead of `length_squared() > 0`)
    if matches!(op, 6 | 7 | 19 | 20) && r.chance(0.12) {
        let mx = v[3].abs().max(v[4].abs()).max(v[5].abs());
        if mx > 0.0 { let s = (10.0f64).powf(-r.range(14.5, 22.0)) / mx as f64; for k in 3..6 { v[k] = (v[k] as f64 * s) as Float; } }
    }
    match op {
        13 | 14 | 17 | 18 => v.extend(err_box(r, m, row)),
        19 | 20 => { v.extend(err_box(r, m, row)); let row2 = r.below(3) as usize; v.extend(err_box(r, m, row2)); }
        _ => {}
    }
    (v, adv)
}

/// corpus of the C16 stream: the witnesses of the recorded findings, built through the real constructors
fn c16_corpus() -> Vec<(Vec<Elem>, usize, Vec<Float>)> {
    let fb = |b: u64| -> Float { f64::from_bits(b) as Float };
    vec![
        // (M): translate(1000,0,0), input error 1e-9 -> reported error about 1000
        (vec![Elem::Tr(1000.0, 0.0, 0.0)], 13, vec![1.0, 2.0, 3.0, 1e-9, 1e-9, 1e-9]),
        (vec![Elem::Tr(1000.0, 0.0, 0.0)], 17, vec![1.0, 2.0, 3.0, 1e-9, 1e-9, 1e-9]),
        // (S), points: translate(0.1,0,0) . rotate_z(20) . rotate_x(35); all six roundings of row 0 err upwards
        (vec![Elem::Tr(0.1, 0.0, 0.0), Elem::Rz(20.0), Elem::Rx(35.0)], 11,
         vec![fb(4602967850164860044), fb(13834088218870435676), fb(4378735083965787658)]),
        (vec![Elem::Tr(0.1, 0.0, 0.0), Elem::Rz(20.0), Elem::Rx(35.0)], 6,
         vec![fb(4602967850164860044), fb(13834088218870435676), fb(4378735083965787658), 0.0, 0.0, 1.0]),
        // (S), underflow: scale(0.5,1,1) applied to the smallest subnormal: image 2^-1075, returned value 0 +- 0
        (vec![Elem::Sc(0.5, 1.0, 1.0)], 15, vec![Float::from_bits(1), 0.0, 0.0]),
    ]
}

pub fn run_c16(seed: u64, n: usize, out: &str) {
    let mut r = Rng::new(seed ^ 0xC16);
    let mut sink = Sink::new(out, "C06", 200);
    #[cfg(feature = "float")]
    { sink.runner = "C06f32".to_string(); }
    let push_apply = |sink: &mut Sink, chain: &[Elem], t: &Transform, op: usize, i: &[Float], adv: bool| {
        let m = mats(t);
        let o = match catch(|| apply(t, op, i)) { Ok(o) => o, Err(_) => return };
        sink.push(
            format!("(2%N, {}, {}%N, {}, {})", sfs(&m), op, sfs(i), sfs(&o)),
            format!("{{{}\"kind\":\"apply\",\"chain\":{},\"tr\":{},\"op\":{},\"in\":{},\"out\":{},\"adv\":{}}}", f32_mark(), chain_json(chain), jfs(&m), op, jfs(i), jfs(&o), if adv { 1 } else { 0 }),
        );
    };
    for (chain, op, i) in c16_corpus() {
        let mut t = Transform::new();
        for e in chain.iter() { t *= elem_tr(e); }
        push_apply(&mut sink, &chain, &t, op, &i, true);
    }
    // matrices whose diagonal is EXACTLY 1 with non-zero off-diagonal entries (a rotation by less than 8e-7 degrees: the cosine rounds
    // to 1, the sine does not vanish; or translate * scale(1/c, 1/c, 1) * rotate(a), c = cos a): neither the identity nor a pure
    // translation (seeded change C16-m5: a "translation-only" fast path recognised by the diagonal).  Own generator state: the
    // sequence below is unchanged, only cut at n
    {
        let mut y = Rng::new(seed ^ 0xC16_D1A6);
        let (mut k, mut guard) = (0usize, 0usize);
        while k < (n / 300).max(2) && sink.len() < n && guard < 200 {
            guard += 1;
            let ax = y.below(3);
            let sg: f64 = if y.chance(0.5) { 1.0 } else { -1.0 };
            let rot = |d: Float| match ax { 0 => Elem::Rx(d), 1 => Elem::Ry(d), _ => Elem::Rz(d) };
            let tr = |y: &mut Rng| -> Float { match y.below(3) { 0 => 0.0, 1 => y.logmag(-4.0, 3.0) as Float, _ => y.range(-10.0, 10.0) as Float } };
            let chain: Vec<Elem> = if y.chance(0.5) {
                let a = (sg * (10.0f64).powf(y.range(-12.0, -6.3))) as Float;
                vec![Elem::Tr(tr(&mut y), tr(&mut y), tr(&mut y)), rot(a)]
            } else {
                let a = (sg * y.range(5.0, 70.0)) as Float;
                let sc = 1.0 / a.to_radians().cos();
                let se = match ax { 0 => Elem::Sc(1.0, sc, sc), 1 => Elem::Sc(sc, 1.0, sc), _ => Elem::Sc(sc, sc, 1.0) };
                vec![Elem::Tr(tr(&mut y), tr(&mut y), tr(&mut y)), se, rot(a)]
            };
            let mut t = Transform::new();
            for e in chain.iter() { t *= elem_tr(e); }
            let m = mats(&t);
            let offdiag = [1usize, 2, 4, 6, 8, 9].iter().any(|i| m[*i] != 0.0);
            if !(m[0] == 1.0 && m[5] == 1.0 && m[10] == 1.0 && offdiag) { continue; }
            k += 1;
            for _ in 0..12 {
                let op = *y.pick(&C16_OPS);
                let (i, adv) = c16_inputs(&mut y, &m, op);
                push_apply(&mut sink, &chain, &t, op, &i, adv);
            }
        }
    }
    while sink.len() < n {
        let chain = if r.chance(0.45) { rand_chain(&mut r) } else { c16_chain(&mut r) };
        let mut t = Transform::new();
        for e in chain.iter() {
            let et = elem_tr(e);
            let before = mats(&t);
            t *= et.clone();
            // the composition steps stay in the stream (bit-exact given the operands): the matrices the
            // error functions are applied to are exactly the ones the model composed
            if r.chance(0.25) {
                sink.push(
                    format!("(1%N, {}, 0%N, {}, {})", sfs(&before), sfs(&mats(&et)), sfs(&mats(&t))),
                    format!("{{{}\"kind\":\"mul\",\"a\":{},\"b\":{},\"out\":{}}}", f32_mark(), jfs(&before), jfs(&mats(&et)), jfs(&mats(&t))),
                );
            }
        }
        let m = mats(&t);
        for _ in 0..12 {
            let op = *r.pick(&C16_OPS);
            let (i, adv) = c16_inputs(&mut r, &m, op);
            push_apply(&mut sink, &chain, &t, op, &i, adv);
        }
    }
    sink.flush();
}
