//! Triangulation3D: from_polygon (C01/C09), hook-driven refinement histories (C08), mesh_polygon (C01/C09/C18).
//! Streams: C01mesh C09mesh (from_polygon), C08hist (exhaustive short histories), C08rand (long random
//! histories), C01refine C09refine C18refine (mesh_polygon).  Coq runner: Run/Mesh.v.
use crate::gen::*;
use crate::loops::err_class as loop_err_class;
use crate::util::*;
use geometry3d::{verif_is_convex, Loop3D, Point3D, Polygon3D, Triangulation3D, VerifTriPiece};
use std::panic::AssertUnwindSafe;
use std::time::Instant;

// ---------------------------------------------------------------------------------------------
// outcome classes
// ---------------------------------------------------------------------------------------------
pub fn err_class(msg: &str) -> u32 {
    let table: [(&str, u32); 17] = [
        ("Excessive number", 100), ("Trying to invalidate triangle", 101), ("its own neighbour", 102),
        ("within mark_as_neighbours", 103), ("Something really strange", 104), ("does not have the given edge", 105),
        ("split edge of an invalid", 106), ("Could not get index from segment", 107), ("split an invalid triangle", 108),
        ("contained the point", 109), ("two equal points", 10), ("from collinear points", 11), ("get vertex with index", 12),
        ("get Segment with index", 13), ("parallel normals", 50), ("not inside the polygon", 51), ("inside the new hole", 52),
    ];
    for (k, c) in table.iter() { if msg.contains(k) { return *c; } }
    loop_err_class(msg)
}
/// panic message -> 1000 + panic site of Model/Triangulation.v (1999: a site that the message does not identify)
pub fn panic_class(msg: &str) -> u32 {
    let table: [(&str, u32); 17] = [
        ("Index given for Edge", 60), ("attempt to subtract with overflow", 61), ("don't share a segment", 64),
        ("invalid triangle when getting", 66), ("Found an invalid neighbour", 68), ("its own neighbor", 69),
        ("flip diagonal with an invalid triangle", 71), ("with no neighbour", 72), ("invalid neighbour triangle", 74),
        ("Segment AC not found", 75), ("Segment CB not found", 76), ("B-Opposite not found", 77), ("A-Opposite not found", 78),
        ("obsolete triangle", 87), ("does not fall on an edge", 88), ("entered unreachable code", 91),
        ("Trying to get a vertex out of bounds", 21),
    ];
    for (k, c) in table.iter() { if msg.contains(k) { return 1000 + *c; } }
    1999
}
/// the case sink of every stream of this module: Coq file Run/Mesh.v, runner module `Mesh` (f64 build) or `Meshf32` (the same
/// runner text instantiated on the binary32 number instance, for the build with `--features float`)
fn mesh_sink(out: &str, shard: usize) -> Sink {
    #[allow(unused_mut)]
    let mut sink = Sink::new(out, "Mesh", shard);
    // f32 build: `Meshf32` executes on the fast binary32 instance (Run/FastNum32.v); with the stream argument `--ref32` the cases go
    // to `Meshf32ref`, the reference instance whose rounding is Flocq's (about 1000 times slower: a few cases only)
    #[cfg(feature = "float")]
    { sink.runner = if REF32.load(std::sync::atomic::Ordering::Relaxed) { "Meshf32ref" } else { "Meshf32" }.to_string(); }
    sink
}
static REF32: std::sync::atomic::AtomicBool = std::sync::atomic::AtomicBool::new(false);
/// `"f32":true,` in the JSON of a case produced by the f32 build (the bit patterns are then 32-bit ones)
fn f32_json() -> &'static str { if cfg!(feature = "float") { "\"f32\":true," } else { "" } }
/// The plane of a generated polygon.  f64 build: `Frame::random` as it is.  f32 build (finding F15: the crate's absolute 1e-7
/// coplanarity tolerance is below binary32 rounding noise at metre scale, so oblique outlines are refused by `Loop3D::push`):
/// 75% coordinate planes, 10% exactly diagonal planes, 10% right-angle rotations through the crate's own Transform, 5% oblique
/// (kept to measure the refusal rate); offsets capped at 8 so that the coordinate noise stays near 1e-6.
fn frame_for(r: &mut Rng, offset: f64) -> Frame {
    if !cfg!(feature = "float") { return Frame::random(r, offset); }
    let want: u8 = match r.below(20) { 0..=14 => 0, 15 | 16 => 3, 17 | 18 => 2, _ => 1 };
    loop { let fr = Frame::random(r, offset.min(8.0)); if fr.kind == want { return fr; } }
}
fn short_msg(m: &str) -> String {
    m.chars().filter(|c| *c != '"' && *c != '\\' && *c != '\n' && *c != '\t').take(120).collect()
}

// ---------------------------------------------------------------------------------------------
// snapshots of the private state (through the hook)
// ---------------------------------------------------------------------------------------------
#[derive(Clone, PartialEq)]
pub struct Piece { fl: Vec<u64>, nb: [i64; 3], cs: [bool; 3], valid: bool, idx: usize }
fn piece_of(t: &VerifTriPiece) -> Piece {
    let (a, b, c, n) = (t.triangle.a(), t.triangle.b(), t.triangle.c(), t.triangle.normal());
    let fl: Vec<Float> = vec![a.x, a.y, a.z, b.x, b.y, b.z, c.x, c.y, c.z, n.x, n.y, n.z, t.triangle.area(), t.aspect_ratio,
                              t.circumcenter.x, t.circumcenter.y, t.circumcenter.z, t.centroid.x, t.centroid.y, t.centroid.z];
    let nb = [0, 1, 2].map(|k| t.neighbours[k].map_or(-1i64, |x| x as i64));
    Piece { fl: fl.iter().map(|x| x.to_bits() as u64).collect(), nb, cs: t.constraints, valid: t.valid, idx: t.index }
}
pub fn snapshot(t: &Triangulation3D) -> Vec<Piece> { t.verif_pieces().iter().map(piece_of).collect() }
fn piece_coq(p: &Piece) -> String {
    let fl: Vec<Float> = p.fl.iter().map(|b| Float::from_bits(*b as _)).collect();
    let mask = (p.cs[0] as u32) + 2 * (p.cs[1] as u32) + 4 * (p.cs[2] as u32) + 8 * (p.valid as u32);
    format!("({}, [{}; {}; {}]%Z, {}%N, {}%N)", sfs(&fl), p.nb[0], p.nb[1], p.nb[2], mask, p.idx)
}
fn piece_json(p: &Piece) -> String {
    let s: Vec<String> = p.fl.iter().map(|b| b.to_string()).collect();
    format!("{{\"f\":[{}],\"n\":[{},{},{}],\"c\":[{},{},{}],\"valid\":{},\"idx\":{}}}", s.join(","), p.nb[0], p.nb[1], p.nb[2],
            p.cs[0], p.cs[1], p.cs[2], p.valid, p.idx)
}
fn pieces_coq(v: &[Piece]) -> String { format!("[{}]", v.iter().map(piece_coq).collect::<Vec<_>>().join("; ")) }
fn pieces_json(v: &[Piece]) -> String { format!("[{}]", v.iter().map(piece_json).collect::<Vec<_>>().join(",")) }
/// the triangles handed to the user by get_trilist, in full (a, b, c, normal, area: 13 numbers each) -- for the Coq runner,
/// which compares them with the model's [get_trilist]
fn trilist_coq(t: &Triangulation3D) -> String {
    let l = t.get_trilist();
    let f: Vec<Float> = l.iter().flat_map(|t| { let (a, b, c, n) = (t.a(), t.b(), t.c(), t.normal()); vec![a.x, a.y, a.z, b.x, b.y, b.z, c.x, c.y, c.z, n.x, n.y, n.z, t.area()] }).collect();
    if f.is_empty() { "(@nil spec_float)".to_string() } else { sfs(&f) }
}
const NO_TRILIST: &str = "(@nil spec_float)";
/// the triangles handed to the user by get_trilist (vertices only) -- JSON
fn trilist_json(t: &Triangulation3D) -> String {
    let l = t.get_trilist();
    let f: Vec<Float> = l.iter().flat_map(|t| { let (a, b, c) = (t.a(), t.b(), t.c()); vec![a.x, a.y, a.z, b.x, b.y, b.z, c.x, c.y, c.z] }).collect();
    jfs(&f)
}

// ---------------------------------------------------------------------------------------------
// polygons of the C01 space
// ---------------------------------------------------------------------------------------------
pub struct PolyCase { pub outer: Vec<Point3D>, pub holes: Vec<Vec<Point3D>>, pub note: String, pub bridge_ok: bool,
                      pub outer2: Vec<P2>, pub holes2: Vec<Vec<P2>>, pub fr: Frame }

fn seg_dist2(a: P2, b: P2, c: P2, d: P2) -> f64 {
    // distance between two closed segments (f64; generation only)
    fn orient(a: P2, b: P2, c: P2) -> f64 { (b.0 - a.0) * (c.1 - a.1) - (b.1 - a.1) * (c.0 - a.0) }
    let (o1, o2, o3, o4) = (orient(a, b, c), orient(a, b, d), orient(c, d, a), orient(c, d, b));
    if o1 * o2 < 0.0 && o3 * o4 < 0.0 { return 0.0; }
    let ds = [dist_to_outline(&[c, d], a), dist_to_outline(&[c, d], b), dist_to_outline(&[a, b], c), dist_to_outline(&[a, b], d)];
    ds.iter().cloned().fold(f64::MAX, f64::min)
}
/// two candidate bridges whose squared lengths agree within this relative amount make the crate's choice rounding-dependent
/// (the f32 build computes the distances with a relative noise of 1e-7)
const TIE: f64 = if cfg!(feature = "float") { 1e-5 } else { 1e-9 };
/// emulates the nearest-vertex bridge selection of get_closed_loop and tells whether every bridge is unobstructed
fn bridges_ok(outer: &[P2], holes: &[Vec<P2>], tol: f64) -> bool {
    let mut cur: Vec<P2> = outer.to_vec();
    let mut done = vec![false; holes.len()];
    let mut edges: Vec<(P2, P2)> = vec![];
    let n = outer.len();
    for i in 0..n { edges.push((outer[i], outer[(i + 1) % n])); }
    for h in holes { let m = h.len(); for i in 0..m { edges.push((h[i], h[(i + 1) % m])); } }
    for _ in 0..holes.len() {
        let mut best = (f64::MAX, 0usize, 0usize, 0usize);
        for (j, e) in cur.iter().enumerate() { for (k, h) in holes.iter().enumerate() { if done[k] { continue; }
            for (l, v) in h.iter().enumerate() { let d = (e.0 - v.0).powi(2) + (e.1 - v.1).powi(2); if d < best.0 { best = (d, j, k, l); } } } }
        let (_, j, k, l) = best;
        let (p, q) = (cur[j], holes[k][l]);
        for (a, b) in edges.iter() {
            let touches = |x: P2, y: P2| (x.0 - y.0).abs() < 1e-12 && (x.1 - y.1).abs() < 1e-12;
            if touches(*a, p) || touches(*b, p) || touches(*a, q) || touches(*b, q) { continue; }
            if seg_dist2(p, q, *a, *b) < tol { return false; }
        }
        // a second vertex at (nearly) the same distance makes the choice rounding-dependent
        let mut ties = 0;
        for e in cur.iter() { for (k2, h) in holes.iter().enumerate() { if done[k2] { continue; }
            for v in h.iter() { let d = (e.0 - v.0).powi(2) + (e.1 - v.1).powi(2); if (d - best.0).abs() <= TIE * (1.0 + best.0) { ties += 1; } } } }
        if ties > 1 { return false; }
        done[k] = true;
        let mut nxt = cur[..=j].to_vec(); let m = holes[k].len();
        for t in 0..=m { nxt.push(holes[k][(l + t) % m]); }
        nxt.extend_from_slice(&cur[j..]);
        cur = nxt;
    }
    true
}
/// hole-free lattice outlines in which three or four NON-adjacent corners lie on one straight line ("crown" / "W" plans drawn on a
/// grid): during ear clipping the remaining loop can collapse to three aligned vertices (the case the `is_line` guard of from_polygon is for)
fn lattice_outline(r: &mut Rng) -> (Vec<P2>, &'static str) {
    let cat: [&[(i32, i32)]; 5] = [
        &[(-2, 0), (-1, -1), (0, 0), (1, -1), (2, 0), (0, 2)],
        &[(-3, 0), (-2, -2), (-1, 0), (0, -2), (1, 0), (2, -2), (3, 0), (0, 3)],
        &[(-2, 0), (-1, -2), (0, 0), (1, -2), (2, 0), (2, 2), (-2, 2)],
        &[(0, 0), (1, 1), (2, 0), (3, 1), (4, 0), (4, -2), (0, -2)],
        &[(-2, 0), (-1, -1), (0, 0), (1, -1), (2, 0), (1, 1), (0, 3), (-1, 1)],
    ];
    let c = *r.pick(&cat);
    // exact scalings (powers of two, small integers) keep the alignment exact; an occasional shear keeps it up to rounding
    let sx = *r.pick(&[0.5, 1.0, 1.0, 1.5, 2.0]); let sy = *r.pick(&[0.5, 1.0, 1.0, 1.5, 2.0]);
    let sh = if r.chance(0.3) { *r.pick(&[0.25, -0.5, 0.3]) } else { 0.0 };
    (c.iter().map(|p| (p.0 as f64 * sx + sh * p.1 as f64 * sy, p.1 as f64 * sy)).collect(), "lattice")
}
/// hole-free outlines with a reflex vertex O that is the centre of a circle through three other outline vertices (integer
/// points on a circle, exact scalings): ear clipping produces a triangle whose circumcentre IS the mesh vertex O, so the
/// circumcentre insertion of `refine` is a no-op (`add_point` returns Ok(false)) -- the path on which the per-pass "anything
/// changed" flag must not be reset (seeded change C18-m1)
fn cocircular_outline(r: &mut Rng) -> (Vec<P2>, &'static str) {
    let circ: [&[(i32, i32)]; 3] = [
        &[(4, 3), (3, 4), (0, 5), (-3, 4), (-4, 3)],
        &[(12, 5), (5, 12), (0, 13), (-5, 12), (-12, 5)],
        &[(24, 7), (20, 15), (15, 20), (7, 24), (0, 25), (-7, 24), (-15, 20), (-20, 15), (-24, 7)],
    ];
    let c = *r.pick(&circ);
    // three points of the upper half circle, by decreasing index = increasing angle: right, top, left
    let mut idx: Vec<usize> = vec![];
    while idx.len() < 3 { let i = r.below(c.len() as u64) as usize; if !idx.contains(&i) { idx.push(i); } }
    idx.sort();
    let rad = ((c[0].0 * c[0].0 + c[0].1 * c[0].1) as f64).sqrt();
    let s = *r.pick(&[0.125, 0.25, 0.5, 1.0]) * 5.0 / rad;
    let q = (r.range(-0.3, 0.3) * rad, -r.range(0.8, 1.6) * rad);
    let p = |i: usize| (c[idx[i]].0 as f64 * s, c[idx[i]].1 as f64 * s);
    // counter-clockwise: left point, far point below, the centre O (reflex), right point, top point
    (vec![p(2), (q.0 * s, q.1 * s), (0.0, 0.0), p(0), p(1)], "cocircular")
}
pub fn rand_polycase(r: &mut Rng, nmax: usize, max_holes: usize, size_cap: f64, offset: f64) -> PolyCase {
    let fr = frame_for(r, offset);
    let (mut poly, fam) = if r.chance(0.12) { lattice_outline(r) } else if r.chance(0.08) { cocircular_outline(r) } else { simple_polygon(r, nmax) };
    // rescale when a size cap is requested (refinement streams)
    let ext = poly.iter().fold(0.0f64, |m, p| m.max(p.0.abs()).max(p.1.abs()));
    if ext > size_cap { let s = size_cap / ext; poly = poly.iter().map(|p| (p.0 * s, p.1 * s)).collect(); }
    let base = poly.clone();
    if r.chance(0.4) { poly = with_collinear(r, &poly, 0.3); }
    if poly.len() > 40 { poly = base.clone(); }
    if r.chance(0.5) { poly = reversed(&poly); }
    poly = rotate_start(&poly, r.below(poly.len() as u64) as usize);
    // start-vertex boundary case: describe the outline so that its FIRST corner (vertices 0, 1, 2) is a reflex one - the
    // provisional normal of an open loop comes from that corner and points the wrong way until close() corrects it
    if r.chance(0.35) {
        let n = poly.len(); let sg = area2(&poly).signum();
        let reflex: Vec<usize> = (0..n).filter(|&i| { let (a, b, c) = (poly[(i + n - 1) % n], poly[i], poly[(i + 1) % n]);
            ((b.0 - a.0) * (c.1 - b.1) - (b.1 - a.1) * (c.0 - b.0)) * sg < -1e-9 }).collect();
        if !reflex.is_empty() { let i = *r.pick(&reflex); poly = rotate_start(&poly, (i + n - 1) % n); }
    }
    let ext = base.iter().fold(0.0f64, |m, p| m.max(p.0.abs()).max(p.1.abs()));
    let (xmin, xmax) = base.iter().fold((f64::MAX, f64::MIN), |m, p| (m.0.min(p.0), m.1.max(p.0)));
    let (ymin, ymax) = base.iter().fold((f64::MAX, f64::MIN), |m, p| (m.0.min(p.1), m.1.max(p.1)));
    let want = if max_holes == 0 || r.chance(0.45) { 0 } else { 1 + r.below(max_holes as u64) as usize };
    let mut holes2: Vec<Vec<P2>> = vec![]; let mut centres: Vec<(P2, f64)> = vec![];
    let mut tries = 0;
    while holes2.len() < want && tries < 60 {
        tries += 1;
        let c = (r.range(xmin, xmax), r.range(ymin, ymax));
        if !inside2(&base, c) { continue; }
        let rad = ext * r.range(0.03, 0.2);
        if dist_to_outline(&base, c) < rad * r.range(1.3, 2.5) + 0.02 * ext { continue; }
        if centres.iter().any(|(c2, r2)| ((c.0 - c2.0).powi(2) + (c.1 - c2.1).powi(2)).sqrt() < (rad + r2) * 1.3 + 0.02 * ext) { continue; }
        let k = 3 + r.below(6) as usize;
        let ccw = r.chance(0.5); let st = r.below(8) as usize;
        holes2.push(small_hole(r, c, rad, k, ccw, st)); centres.push((c, rad));
    }
    let bridge_ok = bridges_ok(&poly, &holes2, 1e-3 * ext);
    let outer: Vec<Point3D> = poly.iter().map(|p| fr.at(p.0, p.1)).collect();
    let holes: Vec<Vec<Point3D>> = holes2.iter().map(|h| h.iter().map(|p| fr.at(p.0, p.1)).collect()).collect();
    let note = format!("{}:{}:h{}:plane{}", fam, poly.len(), holes2.len(), fr.kind);
    PolyCase { outer, holes, note, bridge_ok, outer2: poly, holes2, fr }
}

/// builds the polygon through the real API: Ok(polygon) or the class of the first refusal (99 = panic)
pub fn build_polygon(outer: &[Point3D], holes: &[Vec<Point3D>]) -> Result<Polygon3D, u32> {
    fn mk(pts: &[Point3D]) -> Result<Loop3D, u32> {
        let mut l = Loop3D::new();
        for p in pts {
            match catch(AssertUnwindSafe(|| l.push(*p))) { Ok(Ok(())) => {}, Ok(Err(m)) => return Err(err_class(&m)), Err(m) => return Err(panic_class(&m)) }
        }
        match catch(AssertUnwindSafe(|| l.close())) { Ok(Ok(())) => Ok(l), Ok(Err(m)) => Err(err_class(&m)), Err(m) => Err(panic_class(&m)) }
    }
    let o = mk(outer)?;
    let mut p = match Polygon3D::new(o) { Ok(p) => p, Err(m) => return Err(err_class(&m)) };
    for h in holes {
        let hl = mk(h)?;
        match catch(AssertUnwindSafe(|| p.cut_hole(hl))) { Ok(Ok(())) => {}, Ok(Err(m)) => return Err(err_class(&m)), Err(m) => return Err(panic_class(&m)) }
    }
    Ok(p)
}
fn holes_coq(h: &[Vec<Point3D>]) -> String { format!("[{}]", h.iter().map(|x| pts_coq(x)).collect::<Vec<_>>().join("; ")) }
fn holes_json(h: &[Vec<Point3D>]) -> String { format!("[{}]", h.iter().map(|x| pts_json(x)).collect::<Vec<_>>().join(",")) }
fn poly_json(pc_outer: &[Point3D], pc_holes: &[Vec<Point3D>], p: Option<&Polygon3D>) -> String {
    let (area, nrm) = match p { Some(p) => (jf(p.area()), { let n = p.normal(); jfs(&[n.x, n.y, n.z]) }), None => ("0".into(), "[]".into()) };
    // the loops as the Polygon3D object holds them (collinear vertices dropped by push/close)
    let (po, ph) = match p {
        Some(p) => (pts_json(p.outer().vertices()), format!("[{}]", (0..p.n_inner_loops()).map(|i| pts_json(p.inner(i).unwrap().vertices())).collect::<Vec<_>>().join(","))),
        None => ("[]".into(), "[]".into()) };
    format!("{}\"outer\":{},\"holes\":{},\"pouter\":{},\"pholes\":{},\"parea\":{},\"pnormal\":{}", f32_json(), pts_json(pc_outer), holes_json(pc_holes), po, ph, area, nrm)
}

/// runs `f` in a thread with a large stack (refine is recursive) and a time limit
fn run_limited<T: Send + 'static>(secs: u64, f: impl FnOnce() -> T + Send + 'static) -> Option<T> {
    let (tx, rx) = std::sync::mpsc::channel();
    let _ = std::thread::Builder::new().stack_size(1 << 30).spawn(move || { let _ = tx.send(f()); });
    rx.recv_timeout(std::time::Duration::from_secs(secs)).ok()
}

// ---------------------------------------------------------------------------------------------
// (i) from_polygon
// ---------------------------------------------------------------------------------------------
fn fp_case(pc: &PolyCase, sink: &mut Sink) {
    let built = build_polygon(&pc.outer, &pc.holes);
    let (bclass, oclass, pieces, nvalid, msg, ms, pj, tl, tlc) = match &built {
        Err(c) => (*c, 0u32, vec![], 0usize, String::new(), 0.0, poly_json(&pc.outer, &pc.holes, None), "[]".to_string(), NO_TRILIST.to_string()),
        Ok(p) => {
            let t0 = Instant::now();
            let r = catch(AssertUnwindSafe(|| Triangulation3D::from_polygon(p)));
            let ms = t0.elapsed().as_secs_f64() * 1e3;
            let pj = poly_json(&pc.outer, &pc.holes, Some(p));
            match r {
                Ok(Ok(t)) => (0, 0, snapshot(&t), t.n_valid_triangles(), String::new(), ms, pj, trilist_json(&t), trilist_coq(&t)),
                Ok(Err(m)) => (0, err_class(&m), vec![], 0, short_msg(&m), ms, pj, "[]".to_string(), NO_TRILIST.to_string()),
                Err(m) => (0, panic_class(&m), vec![], 0, short_msg(&m), ms, pj, "[]".to_string(), NO_TRILIST.to_string()),
            }
        }
    };
    sink.push(
        format!("CFP {} {} {}%N {}%N {} {}%N {}", pts_coq(&pc.outer), holes_coq(&pc.holes), bclass, oclass, pieces_coq(&pieces), nvalid, tlc),
        format!("{{\"kind\":\"fp\",\"note\":\"{}\",\"bridge_ok\":{},{},\"build\":{},\"o\":{},\"msg\":\"{}\",\"ms\":{:.3},\"pieces\":{},\"nvalid\":{},\"trilist\":{}}}",
                pc.note, pc.bridge_ok, pj, bclass, oclass, msg, ms, pieces_json(&pieces), nvalid, tl),
    );
}
/// corpus of the from_polygon streams: hole-free grid outlines in which the closing chord of a convex corner passes EXACTLY
/// through a re-entrant vertex elsewhere on the outline (the diagonal of a 4 x 2 block through the corner (2,1) of a notch):
/// is_diagonal cannot see a chord that only touches the outline at a vertex, so the "no other vertex in the ear" test must
/// reject boundary contacts too (seeded change C09-m3).  Every start vertex and both windings, in a random coordinate plane.
fn aligned_chord_corpus(r: &mut Rng) -> Vec<PolyCase> {
    let cat: [&[(i32, i32)]; 2] = [
        &[(0, 0), (4, 0), (4, 2), (2, 2), (2, 1), (1, 1), (1, 2), (0, 2)],
        &[(0, 0), (4, 0), (4, 2), (3, 2), (3, 3), (2, 3), (2, 1), (1, 1), (1, 2), (0, 2)],
    ];
    let mut out = vec![];
    for (ci, c) in cat.iter().enumerate() {
        let base: Vec<P2> = c.iter().map(|p| (p.0 as f64, p.1 as f64)).collect();
        for rev in [false, true] {
            let b = if rev { reversed(&base) } else { base.clone() };
            for k in 0..b.len() {
                let poly = rotate_start(&b, k);
                let mut fr = Frame::random(r, 0.0);
                while fr.kind != 0 { fr = Frame::random(r, 0.0); }
                let outer: Vec<Point3D> = poly.iter().map(|p| fr.at(p.0, p.1)).collect();
                out.push(PolyCase { outer, holes: vec![], note: format!("alignedchord{}:{}:h0:plane0", ci, poly.len()), bridge_ok: true, outer2: poly, holes2: vec![], fr });
            }
        }
    }
    out
}
pub fn run_fp(seed: u64, n: usize, out: &str, salt: u64) {
    let mut r = Rng::new(seed ^ salt);
    // (cases for the reference binary32 instance take ~25 s of model time each: one per file, so that they run in parallel)
    let mut sink = mesh_sink(out, if REF32.load(std::sync::atomic::Ordering::Relaxed) { 1 } else { 4 });
    if n >= 90 { for pc in aligned_chord_corpus(&mut r) { fp_case(&pc, &mut sink); } }
    while sink.len() < n {
        let big = r.chance(0.25);
        let pc = rand_polycase(&mut r, if big { 40 } else { 12 }, 3, 1e9, 1000.0);
        fp_case(&pc, &mut sink);
    }
    sink.flush();
}

// ---------------------------------------------------------------------------------------------
// (iii) mesh_polygon
// ---------------------------------------------------------------------------------------------
pub const MODEL_FUEL: usize = 4000;
fn rf_case(pc: &PolyCase, max_area: Float, max_ar: Float, model_limit: usize, secs: u64, sink: &mut Sink) {
    let built = build_polygon(&pc.outer, &pc.holes);
    let head = format!("{} {} ", pts_coq(&pc.outer), holes_coq(&pc.holes));
    let pars = format!("\"max_area\":{},\"max_ar\":{}", jf(max_area), jf(max_ar));
    match built {
        Err(c) => sink.push(
            format!("CRF {}{}%N {} {} {}%nat 0%N [] 0%N {}", head, c, sf(max_area), sf(max_ar), MODEL_FUEL, NO_TRILIST),
            format!("{{\"kind\":\"rf\",\"note\":\"{}\",\"bridge_ok\":{},{},{},\"build\":{},\"o\":0,\"msg\":\"\",\"ms\":0,\"nvalid\":0,\"npieces\":0,\"valid\":[],\"trilist\":[],\"skipped\":false}}",
                    pc.note, pc.bridge_ok, poly_json(&pc.outer, &pc.holes, None), pars, c)),
        Ok(p) => {
            let pj = poly_json(&pc.outer, &pc.holes, Some(&p));
            let t0 = Instant::now();
            let res = run_limited(secs, move || catch(AssertUnwindSafe(|| Triangulation3D::mesh_polygon(&p, max_area, max_ar))));
            let ms = t0.elapsed().as_secs_f64() * 1e3;
            let (oclass, msg, t) = match res {
                None => (3000u32, "timeout".to_string(), None),
                Some(Ok(Ok(t))) => (0, String::new(), Some(t)),
                Some(Ok(Err(m))) => (err_class(&m), short_msg(&m), None),
                Some(Err(m)) => (panic_class(&m), short_msg(&m), None),
            };
            let (pieces, nvalid, tl) = match &t { Some(t) => (snapshot(t), t.n_valid_triangles(), trilist_json(t)), None => (vec![], 0, "[]".to_string()) };
            let tlc = match &t { Some(t) => trilist_coq(t), None => NO_TRILIST.to_string() };
            // the model is ~2000x slower than the crate: results that are large -- or runs that were long, whatever their outcome
            // (an Err or a panic can come after a long refinement) -- are not replayed by the model (oracles only)
            let skipped = oclass == 3000 || model_limit == 0 || pieces.len() > model_limit || ms > 0.02 * model_limit as f64;
            let valid: Vec<String> = pieces.iter().map(|p| (p.valid as u8).to_string()).collect();
            let coq = if skipped { format!("CSkip {}%N", if oclass == 3000 { 2 } else { 1 }) }
                      else { format!("CRF {}0%N {} {} {}%nat {}%N {} {}%N {}", head, sf(max_area), sf(max_ar), MODEL_FUEL, oclass, pieces_coq(&pieces), nvalid, tlc) };
            sink.push(coq,
                format!("{{\"kind\":\"rf\",\"note\":\"{}\",\"bridge_ok\":{},{},{},\"build\":0,\"o\":{},\"msg\":\"{}\",\"ms\":{:.3},\"nvalid\":{},\"npieces\":{},\"valid\":[{}],\"trilist\":{},\"skipped\":{}}}",
                        pc.note, pc.bridge_ok, pj, pars, oclass, msg, ms, nvalid, pieces.len(), valid.join(","), tl, skipped));
        }
    }
}
/// circular sectors with the centre O as a corner (a pie slice with 1..3 arc points between its ends), any start vertex and
/// winding: when the outline starts on the arc, ear clipping cuts an obtuse "cap" triangle T of arc points whose circumcentre
/// is the mesh vertex O.  The bounds are aimed so that T alone is both oversized and too thin while every other triangle is
/// within both bounds: the circumcentre insertion is a no-op, only the bisection of the ratio test cures T (seeded change
/// C18-m5: area test moved before the ratio test)
fn sector_case(y: &mut Rng, size_cap: f64) -> Option<(PolyCase, Float, Float)> {
    let rad = (*y.pick(&[0.5f64, 1.0, 1.5, 2.0])).min(size_cap);
    // 70 %: the pie slice P0 P1 P2 O with a wide span s in [128, 165] degrees and P1 closer than 180 - s degrees to one end: then
    // the cap P0 P1 P2 is larger AND thinner than the only other triangle P0 P2 O (area: sin(ts) + sin((1-t)s) > 2 sin s; ratio:
    // 1 / (2 sin(min arc / 2)) > 1 / (2 cos(s / 2))), so bounds between the two exist
    let pie = y.chance(0.7);
    let m = if pie { 3 } else { 3 + y.below(3) as usize };
    let span_deg = if pie { y.range(128.0, 165.0f64) } else { y.range(70.0, 170.0f64) };
    let span = span_deg.to_radians();
    let a0 = y.range(0.0, std::f64::consts::TAU);
    let mut cuts: Vec<f64> = if pie { let mn = y.range(0.3, 0.9) * (180.0 - span_deg) / span_deg; vec![if y.chance(0.5) { mn } else { 1.0 - mn }] }
                             else { (0..m - 2).map(|_| y.range(0.15, 0.85)).collect() };
    cuts.sort_by(|a, b| a.partial_cmp(b).unwrap());
    let mut fr_: Vec<f64> = vec![0.0]; fr_.extend(cuts); fr_.push(1.0);
    let mut poly: Vec<P2> = fr_.iter().map(|t| { let a = a0 + t * span; (rad * a.cos(), rad * a.sin()) }).collect();
    poly.push((0.0, 0.0));
    if y.chance(0.3) { poly = reversed(&poly); }
    poly = rotate_start(&poly, y.below(poly.len() as u64) as usize);
    let fr = frame_for(y, 100.0);
    let outer: Vec<Point3D> = poly.iter().map(|p| fr.at(p.0, p.1)).collect();
    let note = format!("sector:{}:h0:plane{}", poly.len(), fr.kind);
    let pc = PolyCase { outer, holes: vec![], note, bridge_ok: true, outer2: poly, holes2: vec![], fr };
    let p = build_polygon(&pc.outer, &pc.holes).ok()?;
    let t = match catch(AssertUnwindSafe(|| Triangulation3D::from_polygon(&p))) { Ok(Ok(t)) => t, _ => return None };
    let tl = t.get_trilist();
    let k = tl.iter().position(|tr| { let c = tr.circumcenter(); pc.outer.iter().any(|v| v.compare(c)) })?;
    let (rt, at) = (tl[k].aspect_ratio() as f64, tl[k].area() as f64);
    let ro = tl.iter().enumerate().filter(|(i, _)| *i != k).map(|(_, x)| x.aspect_ratio() as f64).fold(0.0f64, f64::max);
    let ao = tl.iter().enumerate().filter(|(i, _)| *i != k).map(|(_, x)| x.area() as f64).fold(0.0f64, f64::max);
    if !(rt.is_finite() && ro.is_finite() && rt >= 0.9 && rt < 9.0 && at > 2e-3) { return None; }
    let (max_area, max_ar) = if ao < at * 0.97 && ro < rt * 0.97 {
        (y.range((ao * 1.01).max(at * 0.5), at * 0.99), y.range((ro * 1.01).max(rt * 0.6).max(0.85), rt * 0.99))
    } else {
        (at * y.range(0.3, 0.9), y.range((rt * 0.7).max(0.9), rt * 0.97))
    };
    Some((pc, max_area as Float, max_ar as Float))
}
pub fn run_rf(seed: u64, n: usize, out: &str, salt: u64, extra: &[String]) {
    let mut r = Rng::new(seed ^ salt);
    let mut y = Rng::new(seed ^ salt ^ 0x5EC7_0B);
    let mut sink = mesh_sink(out, 1);
    // extra: [model_limit, kmax, size_cap]
    let model_limit: usize = extra.get(0).and_then(|s| s.parse().ok()).unwrap_or(150);
    let kmax: f64 = extra.get(1).and_then(|s| s.parse().ok()).unwrap_or(60.0);
    let size_cap: f64 = extra.get(2).and_then(|s| s.parse().ok()).unwrap_or(2.0);
    // corpus first: refinement requests that need MANY passes before they converge (tight aspect-ratio bounds; 65..90 passes
    // against the usual 10..25): a bounded or early-exit refinement loop returns Ok before its fixed point (seeded change C18-m4).
    // The meshes are larger than the model limit, so these cases are judged by the exact-rational oracle on the crate's output.
    if n >= 30 {
        let deep: [(&[(f64, f64)], f64, f64); 3] = [
            (&[(1.745, 0.676), (-3.717, 2.139), (-0.827, -1.754), (2.937, -3.256)], 0.921, 1.351),
            (&[(1.905, 3.416), (-2.268, 1.225), (-2.414, -1.665), (2.535, -2.343)], 1.084, 1.181),
            (&[(3.228, 1.69), (-1.883, 2.626), (-3.457, 0.331), (-1.162, -2.468), (1.554, -2.159)], 0.364, 1.292),
        ];
        for (pts, a, m) in deep.iter() {
            let fr = Frame::xy();
            let outer: Vec<Point3D> = pts.iter().map(|p| fr.at(p.0, p.1)).collect();
            let pc = PolyCase { outer, holes: vec![], note: format!("deeprefine:{}:h0:plane0", pts.len()), bridge_ok: true, outer2: pts.to_vec(), holes2: vec![], fr };
            rf_case(&pc, *a as Float, *m as Float, model_limit, 60, &mut sink);
        }
    }
    while sink.len() < n {
        // sector family, drawn from its own generator state (inserted between the cases of the old sequence, which is only cut at n)
        if n >= 30 && y.chance(0.13) {
            if let Some((pc, a, m)) = sector_case(&mut y, size_cap) { rf_case(&pc, a, m, model_limit, 60, &mut sink); continue; }
        }
        // outlines in an EXACTLY diagonal vertical plane (|n.x| = |n.y|, n.z = 0: frame kind 3) refined with a tight ratio bound, so
        // that restore_delaunay attempts flips there: the dominant-axis / tie decisions of is_convex and of the segment projections
        // are exercised with refinement (seeded change C01-m5: is_convex by the sign of the dominant component, ties fall through).
        // Own generator state, inserted between the cases of the old sequence
        if n >= 30 && y.chance(0.10) {
            let mut pc = rand_polycase(&mut y, 9, 1, size_cap, 100.0);
            let fr3 = loop { let f = Frame::random(&mut y, 100.0); if f.kind == 3 { break f; } };
            pc.outer = pc.outer2.iter().map(|p| fr3.at(p.0, p.1)).collect();
            pc.holes = pc.holes2.iter().map(|h| h.iter().map(|p| fr3.at(p.0, p.1)).collect()).collect();
            let parts: Vec<&str> = pc.note.split(':').collect();
            pc.note = format!("{}:{}:{}:plane3", parts[0], parts[1], parts[2]);
            pc.fr = fr3;
            let area = { let a = area2(&pc.outer2).abs(); let h: f64 = pc.holes2.iter().map(|h| area2(h).abs()).sum(); a - h };
            let k = (2.0f64).powf(y.range(1.0, 4.5));
            rf_case(&pc, (area / k) as Float, y.range(0.9, 1.8) as Float, model_limit, 60, &mut sink);
            continue;
        }
        let nm = if r.chance(0.2) { 24 } else { 9 };
        let pc = rand_polycase(&mut r, nm, 2, size_cap, 100.0);
        let area = { let a = area2(&pc.outer2).abs(); let h: f64 = pc.holes2.iter().map(|h| area2(h).abs()).sum(); a - h };
        let k = (2.0f64).powf(r.range(0.0, kmax.log2()));
        let mut max_area = (area / k) as Float;
        let mut max_ar = if r.chance(0.15) { *r.pick(&[0.8, 1.0, 10.0]) } else { r.range(0.8, 10.0) } as Float;
        // decision-boundary band: a bound within a relative 1e-3 .. 1e-9 of the aspect ratio (or the area) of one of the
        // triangles of the unrefined mesh, on either side, so that a tolerance slipped into `ratio > max` / `area > max`
        // decides differently (seeded change C18-m2); the coarse max_area keeps that triangle from being split for its area
        if r.chance(0.3) {
            if let Ok(p) = build_polygon(&pc.outer, &pc.holes) {
                if let Ok(Ok(t)) = catch(AssertUnwindSafe(|| Triangulation3D::from_polygon(&p))) {
                    let tl = t.get_trilist();
                    if !tl.is_empty() {
                        let tr = tl[r.below(tl.len() as u64) as usize];
                        let d = *r.pick(&[1e-3, 3e-4, 1e-5, 1e-7, 1e-9]) * if r.chance(0.6) { -1.0 } else { 1.0 };
                        if r.chance(0.75) {
                            let ar = tr.aspect_ratio() as f64;
                            if ar.is_finite() && ar >= 0.8 && ar <= 10.0 { max_ar = (ar * (1.0 + d)) as Float; max_area = (area * 4.0) as Float; }
                        } else {
                            let a = tr.area() as f64;
                            if a.is_finite() && a > 0.0 { max_area = (a * (1.0 + d)) as Float; }
                        }
                    }
                }
            }
        }
        // aimed parameters for outlines in which an unrefined triangle T has its circumcentre ON a polygon vertex (the
        // "cocircular" family): T oversized (so refine tries the circumcentre, a no-op) but within the ratio bound, while
        // another triangle violates the bound -- the pass must still report "changed" (seeded change C18-m1)
        if r.chance(0.8) {
            if let Ok(p) = build_polygon(&pc.outer, &pc.holes) {
                if let Ok(Ok(t)) = catch(AssertUnwindSafe(|| Triangulation3D::from_polygon(&p))) {
                    let tl = t.get_trilist();
                    if let Some(k) = tl.iter().position(|tr| { let c = tr.circumcenter(); pc.outer.iter().any(|v| v.compare(c)) }) {
                        let rt = tl[k].aspect_ratio() as f64;
                        let rs = tl.iter().enumerate().filter(|(i, _)| *i != k).map(|(_, x)| x.aspect_ratio() as f64).fold(0.0f64, f64::max);
                        if rt.is_finite() && rs.is_finite() && rs > rt * 1.1 && rt < 9.0 {
                            max_ar = r.range(rt * 1.02, (rs * 0.97).min(10.0).max(rt * 1.05)) as Float;
                            max_area = (tl[k].area() as f64 * r.range(0.3, 0.9)) as Float;
                        }
                        // the other combination (seeded change C18-m5: area test before the ratio test): T is oversized AND above
                        // the ratio bound; its circumcentre insertion is a no-op, so only the bisection of the ratio arm can cure it.
                        // Decided from a derived generator state: the cases that do not take this branch are unchanged
                        let mut r2 = Rng(r.0 ^ 0xC18_0005);
                        if rt.is_finite() && rt >= 1.0 && rt < 9.0 && r2.chance(0.4) {
                            max_ar = r2.range((rt * 0.7).max(0.9), rt * 0.97) as Float;
                            max_area = (tl[k].area() as f64 * r2.range(0.3, 0.9)) as Float;
                        }
                    }
                }
            }
        }
        rf_case(&pc, max_area, max_ar, model_limit, 60, &mut sink);
    }
    sink.flush();
}

// ---------------------------------------------------------------------------------------------
// (ii) histories of hook-driven steps
// ---------------------------------------------------------------------------------------------
#[derive(Clone, Debug)]
pub enum Op {
    SplitEdge(usize, usize, Point3D), SplitTriangle(usize, Point3D), Flip(usize, usize), Restore(Float),
    AddPoint(Point3D), Refine(usize, Float, Float), Gfar(usize, usize), Convex([Point3D; 4]),
}
fn op_fields(op: &Op) -> (u32, usize, usize, Vec<Float>) {
    fn p3(p: &Point3D) -> Vec<Float> { vec![p.x, p.y, p.z] }
    match op {
        Op::SplitEdge(i, e, p) => (0, *i, *e, p3(p)),
        Op::SplitTriangle(i, p) => (1, *i, 0, p3(p)),
        Op::Flip(i, e) => (2, *i, *e, vec![]),
        Op::Restore(m) => (3, 0, 0, vec![*m]),
        Op::AddPoint(p) => (4, 0, 0, p3(p)),
        Op::Refine(f, a, m) => (5, *f, 0, vec![*a, *m]),
        Op::Gfar(i, e) => (6, *i, *e, vec![]),
        Op::Convex(q) => (7, 0, 0, q.iter().flat_map(p3).collect()),
    }
}
/// outcome of one step on the real object: (class, return value: 0 none / 1 false / 2 true, value floats)
fn apply(t: &mut Triangulation3D, op: &Op) -> (u32, u32, Vec<Float>, String) {
    let mut tmp = t.clone();
    let r: Result<Result<(u32, Vec<Float>), String>, String> = catch(AssertUnwindSafe(|| match op {
        Op::SplitEdge(i, e, p) => tmp.verif_split_edge(*i, *e, *p).map(|_| (0, vec![])),
        Op::SplitTriangle(i, p) => tmp.verif_split_triangle(*i, *p).map(|_| (0, vec![])),
        Op::Flip(i, e) => tmp.verif_flip_diagonal(*i, *e).map(|_| (0, vec![])),
        Op::Restore(m) => tmp.verif_restore_delaunay(*m).map(|_| (0, vec![])),
        Op::AddPoint(p) => tmp.verif_add_point(*p).map(|b| (1 + b as u32, vec![])),
        Op::Refine(_, a, m) => tmp.verif_refine(*a, *m).map(|_| (0, vec![])),
        Op::Gfar(i, e) => tmp.verif_get_flipped_aspect_ratio(*i, *e).map(|o| (0, o.map_or(vec![], |x| vec![x]))),
        Op::Convex(q) => Ok((1 + verif_is_convex(q[0], q[1], q[2], q[3]) as u32, vec![])),
    }));
    match r {
        Ok(Ok((ret, val))) => { *t = tmp; (0, ret, val, String::new()) }
        Ok(Err(m)) => { *t = tmp; (err_class(&m), 0, vec![], short_msg(&m)) }
        Err(m) => (panic_class(&m), 0, vec![], short_msg(&m)),
    }
}
pub struct Hist { pub pc: PolyCase, pub ops: Vec<(Op, String)> }

fn lerp(a: Point3D, b: Point3D, t: f64) -> Point3D {
    Point3D::new(a.x + ((b.x - a.x) as f64 * t) as Float, a.y + ((b.y - a.y) as f64 * t) as Float, a.z + ((b.z - a.z) as f64 * t) as Float)
}
fn bary(a: Point3D, b: Point3D, c: Point3D, u: f64, v: f64) -> Point3D {
    let w = 1.0 - u - v;
    Point3D::new((a.x as f64 * w + b.x as f64 * u + c.x as f64 * v) as Float, (a.y as f64 * w + b.y as f64 * u + c.y as f64 * v) as Float,
                 (a.z as f64 * w + b.z as f64 * u + c.z as f64 * v) as Float)
}
fn verts(t: &VerifTriPiece) -> [Point3D; 3] { [t.triangle.a(), t.triangle.b(), t.triangle.c()] }

/// runs a history on the real crate and emits the case
fn emit_hist(pc: &PolyCase, ops: &[(Op, String)], note: &str, sink: &mut Sink) {
    let built = build_polygon(&pc.outer, &pc.holes);
    let head = format!("{} {} ", pts_coq(&pc.outer), holes_coq(&pc.holes));
    let p = match built {
        Err(c) => { sink.push(format!("CHI {}{}%N 0%N [] 0%N []", head, c),
                     format!("{{\"kind\":\"hi\",\"note\":\"{}\",{},\"build\":{},\"o\":0,\"init\":[],\"nvalid\":0,\"steps\":[]}}", note, poly_json(&pc.outer, &pc.holes, None), c)); return; }
        Ok(p) => p,
    };
    let pj = poly_json(&pc.outer, &pc.holes, Some(&p));
    let r = catch(AssertUnwindSafe(|| Triangulation3D::from_polygon(&p)));
    let mut t = match r {
        Ok(Ok(t)) => t,
        Ok(Err(m)) => { sink.push(format!("CHI {}0%N {}%N [] 0%N []", head, err_class(&m)),
                     format!("{{\"kind\":\"hi\",\"note\":\"{}\",{},\"build\":0,\"o\":{},\"init\":[],\"nvalid\":0,\"steps\":[]}}", note, pj, err_class(&m))); return; }
        Err(m) => { sink.push(format!("CHI {}0%N {}%N [] 0%N []", head, panic_class(&m)),
                     format!("{{\"kind\":\"hi\",\"note\":\"{}\",{},\"build\":0,\"o\":{},\"init\":[],\"nvalid\":0,\"steps\":[]}}", note, pj, panic_class(&m))); return; }
    };
    let init = snapshot(&t);
    let nv0 = t.n_valid_triangles();
    let mut prev = init.clone();
    let mut csteps = vec![]; let mut jsteps = vec![];
    for (op, lab) in ops {
        let t0 = Instant::now();
        let (o, ret, val, msg) = apply(&mut t, op);
        let ms = t0.elapsed().as_secs_f64() * 1e3;
        let cur = if o >= 1000 { prev.clone() } else { snapshot(&t) };
        let delta: Vec<(usize, Piece)> = cur.iter().enumerate().filter(|(i, p)| *i >= prev.len() || prev[*i] != **p).map(|(i, p)| (i, p.clone())).collect();
        let (k, i, e, fl) = op_fields(op);
        let dc: Vec<String> = delta.iter().map(|(i, p)| format!("({}%N, {})", i, piece_coq(p))).collect();
        let dj: Vec<String> = delta.iter().map(|(i, p)| format!("[{},{}]", i, piece_json(p))).collect();
        let ntl = t.get_trilist().len();
        csteps.push(format!("(({}%N, {}%N, {}%N, {}), ({}%N, {}%N, {}, {}%N, {}%N, [{}]))", k, i, e, sfs(&fl), o, ret, sfs(&val), cur.len(), t.n_valid_triangles(), dc.join("; ")));
        jsteps.push(format!("{{\"k\":{},\"i\":{},\"e\":{},\"fl\":{},\"lab\":\"{}\",\"o\":{},\"ret\":{},\"val\":{},\"msg\":\"{}\",\"ms\":{:.3},\"len\":{},\"nvalid\":{},\"ntrilist\":{},\"delta\":[{}]}}",
                           k, i, e, jfs(&fl), lab, o, ret, jfs(&val), msg, ms, cur.len(), t.n_valid_triangles(), ntl, dj.join(",")));
        prev = cur;
        if o >= 1000 { break; }
    }
    sink.push(format!("CHI {}0%N 0%N {} {}%N [{}]", head, pieces_coq(&init), nv0, csteps.join("; ")),
              format!("{{\"kind\":\"hi\",\"note\":\"{}\",{},\"build\":0,\"o\":0,\"init\":{},\"nvalid\":{},\"steps\":[{}]}}", note, pj, pieces_json(&init), nv0, jsteps.join(",")));
}

/// the small shapes of the C08 space (2-D), by index
fn shape(k: usize, r: &mut Rng) -> (Vec<P2>, Vec<Vec<P2>>, &'static str) {
    let s = (10.0f64).powf(r.range(-0.4, 0.4));
    let sc = |v: Vec<P2>| -> Vec<P2> { v.iter().map(|p| (p.0 * s, p.1 * s)).collect() };
    match k % 7 {
        0 => (sc(vec![(0.0, 0.0), (1.0, 0.0), (0.3, 0.8)]), vec![], "triangle"),
        1 => (sc(vec![(0.0, 0.0), (1.0, 0.0), (1.0, 1.0), (0.0, 1.0)]), vec![], "square"),
        2 => (sc(vec![(0.0, 0.0), (1.2, 0.1), (1.5, 0.9), (0.2, 0.7)]), vec![], "quad"),
        3 => (sc(vec![(0.0, 0.0), (1.0, 0.0), (1.0, 0.4), (0.4, 0.4), (0.4, 1.0), (0.0, 1.0)]), vec![], "L"),
        4 => (sc((0..6).map(|i| { let a = i as f64 * std::f64::consts::PI / 3.0 + 0.1; (a.cos(), 0.8 * a.sin()) }).collect()), vec![], "hexagon"),
        5 => (sc(vec![(0.0, 0.0), (1.0, 0.0), (1.0, 1.0), (0.0, 1.0)]), vec![sc(vec![(0.35, 0.3), (0.7, 0.35), (0.65, 0.7), (0.3, 0.65)])], "square+hole4"),
        _ => (sc(vec![(0.0, 0.0), (1.0, 0.0), (1.0, 1.0), (0.0, 1.0)]), vec![sc(vec![(0.3, 0.3), (0.45, 0.6), (0.6, 0.3)])], "square+hole3"),
    }
}
fn shape_case(k: usize, r: &mut Rng) -> PolyCase {
    // (f64 build: Frame::random as before; f32 build: mostly coordinate planes, see frame_for)
    let fr = frame_for(r, 100.0);
    let (mut o, hs, name) = shape(k, r);
    if r.chance(0.5) { o = reversed(&o); }
    o = rotate_start(&o, r.below(o.len() as u64) as usize);
    let outer = o.iter().map(|p| fr.at(p.0, p.1)).collect();
    let holes = hs.iter().map(|h| h.iter().map(|p| fr.at(p.0, p.1)).collect()).collect();
    PolyCase { outer, holes, note: format!("{}:plane{}", name, fr.kind), bridge_ok: true, outer2: o, holes2: hs, fr }
}
/// the menu of operations offered at a state (every triangle, every edge, a few point classes)
fn menu(t: &Triangulation3D, total_area: f64, full: bool) -> Vec<(Op, String)> {
    let ps = t.verif_pieces();
    let mut m: Vec<(Op, String)> = vec![];
    for (i, p) in ps.iter().enumerate() {
        let v = verts(p);
        for e in 0..3 {
            let (a, b) = (v[e], v[(e + 1) % 3]);
            m.push((Op::SplitEdge(i, e, (a + b) * 0.5), "edge:mid".into()));
            m.push((Op::SplitEdge(i, e, lerp(a, b, 0.27)), "edge:t.27".into()));
            if full { m.push((Op::SplitEdge(i, e, lerp(a, b, 1e-7)), "edge:t1e-7".into())); }
            m.push((Op::Flip(i, e), "flip".into()));
            if full { m.push((Op::Gfar(i, e), "gfar".into())); }
        }
        m.push((Op::SplitTriangle(i, p.centroid), "tri:centroid".into()));
        m.push((Op::SplitTriangle(i, bary(v[0], v[1], v[2], 0.6, 0.1)), "tri:interior".into()));
        if full { m.push((Op::SplitTriangle(i, bary(v[0], v[1], v[2], 0.5, 1e-7)), "tri:near-edge".into())); }
        if full { m.push((Op::AddPoint(p.circumcenter), "add:circumcenter".into())); }
    }
    m.push((Op::Restore(1.0), "restore:1.0".into()));
    if full { m.push((Op::Restore(0.7), "restore:0.7".into())); }
    if let Some(p) = ps.iter().find(|p| p.valid) {
        m.push((Op::AddPoint(p.centroid), "add:centroid".into()));
        let v = verts(p);
        m.push((Op::AddPoint((v[0] + v[1]) * 0.5), "add:edge-mid".into()));
        if full { m.push((Op::AddPoint(v[2]), "add:vertex".into())); }
    }
    m.push((Op::Refine(MODEL_FUEL, (total_area / 6.0) as Float, 1.3), "refine".into()));
    m
}
fn total_area(pc: &PolyCase) -> f64 { area2(&pc.outer2).abs() - pc.holes2.iter().map(|h| area2(h).abs()).sum::<f64>() }

/// exhaustive histories up to `depth` over the menu; each path is one case
pub fn run_hist(seed: u64, n: usize, out: &str, extra: &[String]) {
    let mut r = Rng::new(seed ^ 0xC08);
    let depth: usize = extra.get(0).and_then(|s| s.parse().ok()).unwrap_or(2);
    let mut sink = mesh_sink(out, 25);
    // enumerate paths per shape; a path that is extended is subsumed by its extensions: only maximal paths are emitted
    let mut leaves: Vec<(usize, u64, Vec<(Op, String)>)> = vec![];   // (shape index, rng state to rebuild the shape, path)
    for k in 0..7 {
        let st = r.next();
        let pc = shape_case(k, &mut Rng(st));
        let p = match build_polygon(&pc.outer, &pc.holes) { Ok(p) => p, Err(_) => continue };
        let t0 = match catch(AssertUnwindSafe(|| Triangulation3D::from_polygon(&p))) { Ok(Ok(t)) => t, _ => { leaves.push((k, st, vec![])); continue } };
        let ta = total_area(&pc);
        // deeper levels only on the small shapes unless the budget is large
        let kdepth = if k < 3 || n >= 20000 { depth } else { depth.min(2) };
        let mut frontier: Vec<(Triangulation3D, Vec<(Op, String)>)> = vec![(t0, vec![])];
        for d in 0..kdepth {
            let mut next = vec![];
            for (t, path) in frontier.iter() {
                for (op, lab) in menu(t, ta, d == 0 || k < 3) {
                    let mut t2 = t.clone();
                    let (o, _, _, _) = apply(&mut t2, &op);
                    let pure = matches!(op, Op::Gfar(..) | Op::Convex(..));
                    let mut p2 = path.clone(); p2.push((op, lab));
                    if o < 1000 && d + 1 < kdepth && !pure { next.push((t2, p2)); } else { leaves.push((k, st, p2)); }
                }
            }
            frontier = next;
        }
    }
    let mut order: Vec<usize> = (0..leaves.len()).collect();
    if leaves.len() > n { for i in 0..order.len() { let j = i + r.below((order.len() - i) as u64) as usize; order.swap(i, j); } order.truncate(n); order.sort(); }
    for i in order {
        let (k, st, path) = &leaves[i];
        let pc = shape_case(*k, &mut Rng(*st));
        emit_hist(&pc, path, &format!("{}:depth{}", pc.note, path.len()), &mut sink);
    }
    sink.flush();
}

/// long random histories
pub fn run_rand(seed: u64, n: usize, out: &str, extra: &[String]) {
    let mut r = Rng::new(seed ^ 0xC08A);
    let maxlen: usize = extra.get(0).and_then(|s| s.parse().ok()).unwrap_or(120);
    let mut sink = mesh_sink(out, 1);
    while sink.len() < n {
        let pc = if r.chance(0.8) { let k = r.below(7) as usize; shape_case(k, &mut r) } else { rand_polycase(&mut r, 8, 1, 3.0, 100.0) };
        let p = match build_polygon(&pc.outer, &pc.holes) { Ok(p) => p, Err(_) => { emit_hist(&pc, &[], &pc.note, &mut sink); continue } };
        let mut t = match catch(AssertUnwindSafe(|| Triangulation3D::from_polygon(&p))) { Ok(Ok(t)) => t, _ => { emit_hist(&pc, &[], &pc.note, &mut sink); continue } };
        let ta = total_area(&pc);
        let len = 5 + r.below(maxlen as u64) as usize;
        let risky = r.chance(0.25);   // histories that also insert nearly degenerate points / inadmissible picks
        let mut ops: Vec<(Op, String)> = vec![];
        for _ in 0..len {
            let ps = t.verif_pieces();
            if ps.is_empty() || ps.len() > 400 { break; }
            let vi: Vec<usize> = ps.iter().enumerate().filter(|(_, p)| p.valid).map(|(i, _)| i).collect();
            let i = if vi.is_empty() || (risky && r.chance(0.03)) { r.below(ps.len() as u64 + 1) as usize } else { *r.pick(&vi) };
            let pv = if i < ps.len() { verts(&ps[i]) } else { [Point3D::new(0.0, 0.0, 0.0); 3] };
            let e = r.below(3) as usize;
            let (a, b) = (pv[e], pv[(e + 1) % 3]);
            let (op, lab): (Op, String) = match r.below(20) {
                0..=4 => { let (tt, l) = match r.below(if risky { 6 } else { 4 }) { 0 | 1 => (0.5, "edge:mid"), 2 | 3 => (r.range(0.1, 0.9), "edge:rand"), 4 => (1e-4, "edge:t1e-4"), _ => (3e-8, "edge:t3e-8") };
                           (Op::SplitEdge(i, e, if tt == 0.5 { (a + b) * 0.5 } else { lerp(a, b, tt) }), l.into()) }
                5..=8 => { let (u, v, l) = match r.below(if risky { 5 } else { 3 }) { 0 => (1.0 / 3.0, 1.0 / 3.0, "tri:centroid"), 1 | 2 => { let u = r.range(0.05, 0.9); (u, r.range(0.04, 0.95 - u), "tri:rand") }, 3 => (0.4, 1e-4, "tri:near-edge"), _ => (0.5, 2e-8, "tri:on-edge") };
                           (Op::SplitTriangle(i, bary(pv[0], pv[1], pv[2], u, v)), l.into()) }
                9..=12 => {
                    // prefer an edge that has a neighbour
                    let cand: Vec<(usize, usize)> = vi.iter().flat_map(|&j| (0..3).map(move |k| (j, k))).filter(|(j, k)| ps[*j].neighbours[*k].is_some()).collect();
                    // outside the risky histories: only flips that the crate itself would consider (convex quadrilateral, both new triangles constructible)
                    let cand: Vec<(usize, usize)> = if risky { cand } else { cand.into_iter().filter(|(j, k)| matches!(catch(AssertUnwindSafe(|| t.verif_get_flipped_aspect_ratio(*j, *k))), Ok(Ok(Some(_))))).collect() };
                    if !cand.is_empty() && !(risky && r.chance(0.1)) { let (j, k) = *r.pick(&cand); (Op::Flip(j, k), "flip".into()) } else if risky { (Op::Flip(i, e), "flip:any".into()) } else { (Op::Restore(1.0), "restore".into()) } }
                13 | 14 => (Op::Restore(*r.pick(&[0.7, 1.0, 1.3, 2.0]) as Float), "restore".into()),
                15 | 16 => { let q = match r.below(4) { 0 => bary(pv[0], pv[1], pv[2], 0.3, 0.3), 1 => (a + b) * 0.5, 2 => if i < ps.len() { ps[i].circumcenter } else { a }, _ => bary(pv[0], pv[1], pv[2], r.range(-0.5, 1.5), r.range(-0.5, 1.5)) };
                             (Op::AddPoint(q), "add".into()) }
                17 => (Op::Gfar(i, e), "gfar".into()),
                18 => { let q = if i < ps.len() && ps[i].neighbours[e].is_some() && ps[i].neighbours[e].unwrap() < ps.len() {
                            let o = verts(&ps[ps[i].neighbours[e].unwrap()]); [a, o[r.below(3) as usize], b, pv[(e + 2) % 3]] } else { [pv[0], pv[1], pv[2], lerp(a, b, 0.5)] };
                        (Op::Convex(q), "convex".into()) }
                _ => { if ps.len() < 80 && ta < 3.0 { (Op::Refine(MODEL_FUEL, (ta / r.range(3.0, 25.0)) as Float, r.range(1.0, 3.0) as Float), "refine".into()) } else { (Op::Restore(1.0), "restore".into()) } }
            };
            let (o, _, _, _) = apply(&mut t, &op);
            ops.push((op, lab));
            if o >= 1000 { break; }
        }
        emit_hist(&pc, &ops, &format!("{}:rand{}{}", pc.note, ops.len(), if risky { ":risky" } else { "" }), &mut sink);
    }
    sink.flush();
}

// ---------------------------------------------------------------------------------------------
// dispatch + replay
// ---------------------------------------------------------------------------------------------
pub fn run(name: &str, seed: u64, n: usize, out: &str, extra: &[String]) {
    if extra.iter().any(|s| s.as_str() == "--ref32") { REF32.store(true, std::sync::atomic::Ordering::Relaxed); }
    let extra: Vec<String> = extra.iter().filter(|s| s.as_str() != "--nocoq" && s.as_str() != "--ref32").cloned().collect();
    match name {
        "C01mesh" => run_fp(seed, n, out, 0xC01),
        "C09mesh" => run_fp(seed, n, out, 0xC09),
        "C08hist" => run_hist(seed, n, out, &extra),
        "C08rand" => run_rand(seed, n, out, &extra),
        "C01refine" => run_rf(seed, n, out, 0xC01F, &extra),
        "C09refine" => run_rf(seed, n, out, 0xC09F, &extra),
        "C18refine" => run_rf(seed, n, out, 0xC18F, &extra),
        _ => { eprintln!("unknown mesh stream {}", name); std::process::exit(2) }
    }
}

fn pts_from_bits(s: &str) -> Vec<Point3D> {
    let v: Vec<Float> = s.split(',').filter(|x| !x.is_empty()).map(|x| Float::from_bits(x.parse().unwrap())).collect();
    v.chunks(3).map(|c| Point3D::new(c[0], c[1], c[2])).collect()
}
/// replay: kind outer holes(';'-separated) [params...]; prints the JSON case again
pub fn replay(args: &[String]) {
    let kind = args[0].as_str();
    let outer = pts_from_bits(&args[1]);
    let holes: Vec<Vec<Point3D>> = args[2].split(';').filter(|x| !x.is_empty()).map(pts_from_bits).collect();
    let pc = PolyCase { outer, holes, note: "replay".into(), bridge_ok: true, outer2: vec![], holes2: vec![], fr: Frame::xy() };
    let mut sink = mesh_sink("/dev/null", 1);
    match kind {
        "fp" => fp_case(&pc, &mut sink),
        "rf" => { let a = Float::from_bits(args[3].parse().unwrap()); let m = Float::from_bits(args[4].parse().unwrap()); rf_case(&pc, a, m, 0, 120, &mut sink) }
        _ => {
            // hi: ops as k,i,e,bits.. separated by ';'
            let mut ops = vec![];
            for o in args[3].split(';').filter(|x| !x.is_empty()) {
                let f: Vec<&str> = o.split(',').collect();
                let k: u32 = f[0].parse().unwrap(); let i: usize = f[1].parse().unwrap(); let e: usize = f[2].parse().unwrap();
                let fl: Vec<Float> = f[3..].iter().map(|x| Float::from_bits(x.parse().unwrap())).collect();
                let p = |o: usize| Point3D::new(fl[o], fl[o + 1], fl[o + 2]);
                let op = match k { 0 => Op::SplitEdge(i, e, p(0)), 1 => Op::SplitTriangle(i, p(0)), 2 => Op::Flip(i, e), 3 => Op::Restore(fl[0]), 4 => Op::AddPoint(p(0)),
                                   5 => Op::Refine(i, fl[0], fl[1]), 6 => Op::Gfar(i, e), _ => Op::Convex([p(0), p(3), p(6), p(9)]) };
                ops.push((op, "replay".to_string()));
            }
            emit_hist(&pc, &ops, "replay", &mut sink)
        }
    }
    for j in &sink.json { println!("{}", j); }
}
