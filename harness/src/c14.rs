//! C14: BBox3D::new + BBox3D::intersect (ray/box slab test) with the caller-supplied reciprocal
//! direction `inv_dir = 1/d` (so +-inf for zero components).
//!
//! Generator: boxes from two corners in any order, zero extent in 0..2 axes, coordinates up to 1e3;
//! rays with every sign pattern of the direction including exact +0/-0, unit and non-unit, origins
//! inside / outside / on faces, edges and corners, aimed / pointing away / axis parallel / grazing
//! within 1e-7 (relative).  Corpus (the recorded findings) first.
use crate::util::*;
use geometry3d::{BBox3D, Point3D, Ray3D, Vector3D};

pub const KINDS: [&str; 9] = ["corpus", "random", "aimed", "axis-parallel", "on-boundary", "grazing", "inside", "away", "flat-transversal"];

pub struct Case {
    pub a: [Float; 3],
    pub b: [Float; 3],
    pub o: [Float; 3],
    pub d: [Float; 3],
    pub kind: usize,
}

fn p3(v: &[Float; 3]) -> Point3D { Point3D::new(v[0], v[1], v[2]) }
fn v3(v: &[Float; 3]) -> Vector3D { Vector3D::new(v[0], v[1], v[2]) }

/// what a caller supplies: component-wise 1/d
pub fn inv_of(d: &[Float; 3]) -> [Float; 3] { [1.0 / d[0], 1.0 / d[1], 1.0 / d[2]] }

pub fn eval(c: &Case) -> (bool, [Float; 6], [Float; 3]) {
    let bb = BBox3D::new(p3(&c.a), p3(&c.b));
    let inv = inv_of(&c.d);
    let ray = Ray3D { origin: p3(&c.o), direction: v3(&c.d) };
    let ans = bb.intersect(&ray, &v3(&inv));
    (ans, [bb.min.x, bb.min.y, bb.min.z, bb.max.x, bb.max.y, bb.max.z], inv)
}

fn coord(r: &mut Rng) -> Float {
    match r.below(8) {
        0 => *r.pick(&[0.0, 1.0, -1.0, 2.0, 0.5, -0.5, 10.0, 3.0]) as Float,
        1 => (r.below(21) as i64 - 10) as Float,
        2 | 3 => r.range(-1e3, 1e3) as Float,
        4 => r.range(-1.0, 1.0) as Float,
        _ => r.range(-10.0, 10.0) as Float,
    }
}

/// (lo, hi) per axis; `flat` axes have lo == hi
fn rand_box(r: &mut Rng) -> ([Float; 3], [Float; 3]) {
    let mut lo = [0.0 as Float; 3];
    let mut hi = [0.0 as Float; 3];
    // number of flat axes: 0 (60%), 1 (30%), 2 (10%)
    let nflat = match r.below(10) { 0 => 2, 1 | 2 | 3 => 1, _ => 0 };
    let mut flat = [false; 3];
    let mut k = 0;
    while k < nflat { let ax = r.below(3) as usize; if !flat[ax] { flat[ax] = true; k += 1; } }
    if r.chance(0.15) {
        // the unit cube and friends
        for i in 0..3 { lo[i] = 0.0; hi[i] = if flat[i] { 0.0 } else { 1.0 }; }
        return (lo, hi);
    }
    for i in 0..3 {
        let a = coord(r);
        let b = if flat[i] { a } else {
            let mut b = coord(r);
            if r.chance(0.3) { b = a + (r.range(1e-3, 5.0) as Float); }
            if b == a { b = a + 1.0; }
            b
        };
        lo[i] = a.min(b); hi[i] = a.max(b);
    }
    (lo, hi)
}

fn scale_of(lo: &[Float; 3], hi: &[Float; 3]) -> Float {
    let mut s: Float = 1e-3;
    for i in 0..3 { s = s.max(lo[i].abs()).max(hi[i].abs()).max(hi[i] - lo[i]); }
    s
}

/// a coordinate relative to the slab [lo,hi]: inside, on either face, just outside, far outside
fn slab_coord(r: &mut Rng, lo: Float, hi: Float, ext: Float) -> Float {
    match r.below(9) {
        0 => lo,
        1 => hi,
        2 => lo + (hi - lo) * (r.f01() as Float),
        3 => (lo + hi) / 2.0,
        4 => lo - ext * (r.range(0.01, 2.0) as Float),
        5 => hi + ext * (r.range(0.01, 2.0) as Float),
        6 => { let x = lo; Float::from_bits(if x > 0.0 { x.to_bits() - 1 } else if x < 0.0 { x.to_bits() + 1 } else { (-Float::MIN_POSITIVE).to_bits() }) } // one ulp below lo
        7 => { let x = hi; Float::from_bits(if x > 0.0 { x.to_bits() + 1 } else if x < 0.0 { x.to_bits() - 1 } else { Float::MIN_POSITIVE.to_bits() }) } // one ulp above hi
        _ => lo + (hi - lo) * (r.f01() as Float),
    }
}

fn point_in(r: &mut Rng, lo: &[Float; 3], hi: &[Float; 3], boundary: bool) -> [Float; 3] {
    let mut p = [0.0 as Float; 3];
    for i in 0..3 {
        p[i] = if boundary && r.chance(0.5) { if r.chance(0.5) { lo[i] } else { hi[i] } } else { lo[i] + (hi[i] - lo[i]) * (r.f01() as Float) };
    }
    if boundary {
        let i = r.below(3) as usize; p[i] = if r.chance(0.5) { lo[i] } else { hi[i] };
    }
    p
}

fn dir_comp(r: &mut Rng) -> Float {
    match r.below(10) {
        0 => 0.0,
        1 => -0.0,
        2 => 1.0,
        3 => -1.0,
        4 => r.logmag(-8.0, -2.0) as Float,
        5 => r.logmag(0.0, 3.0) as Float,
        _ => r.range(-1.0, 1.0) as Float,
    }
}
fn rand_dir(r: &mut Rng) -> [Float; 3] {
    loop {
        let d = [dir_comp(r), dir_comp(r), dir_comp(r)];
        if d[0] != 0.0 || d[1] != 0.0 || d[2] != 0.0 { return d; }
    }
}
fn normalise(d: [Float; 3]) -> [Float; 3] {
    let l = (d[0] * d[0] + d[1] * d[1] + d[2] * d[2]).sqrt();
    if l > 0.0 && l.is_finite() { [d[0] / l, d[1] / l, d[2] / l] } else { d }
}
/// unit / non-unit / rescaled
fn relen(r: &mut Rng, d: [Float; 3]) -> [Float; 3] {
    match r.below(4) {
        0 => normalise(d),
        1 => { let s = (10.0f64).powf(r.range(-3.0, 3.0)) as Float; [d[0] * s, d[1] * s, d[2] * s] }
        _ => d,
    }
}
fn rdir(r: &mut Rng) -> [Float; 3] { let d = rand_dir(r); relen(r, d) }
fn far_origin(r: &mut Rng, lo: &[Float; 3], hi: &[Float; 3], s: Float) -> [Float; 3] {
    let mut o = [0.0 as Float; 3];
    for i in 0..3 { o[i] = slab_coord(r, lo[i], hi[i], s); }
    o
}

pub fn rand_case(r: &mut Rng) -> Case {
    let (lo, hi) = rand_box(r);
    let s = scale_of(&lo, &hi);
    // corners in any order
    let mut a = lo; let mut b = hi;
    for i in 0..3 { if r.chance(0.5) { std::mem::swap(&mut a[i], &mut b[i]); } }
    let kind = 1 + r.below(8) as usize;
    let (o, d) = match kind {
        1 => (far_origin(r, &lo, &hi, s), rdir(r)),
        2 | 7 => {
            // aimed at a point of the box (7: the reversed ray, pointing away)
            let onb = r.chance(0.3);
            let t = point_in(r, &lo, &hi, onb);
            let mut o = far_origin(r, &lo, &hi, s);
            if o == t { o[0] -= s; }
            let mut d = [t[0] - o[0], t[1] - o[1], t[2] - o[2]];
            if kind == 7 { d = [-d[0], -d[1], -d[2]]; }
            (o, relen(r, d))
        }
        3 => {
            // axis parallel: one non-zero component, the others +0 or -0
            let ax = r.below(3) as usize;
            let mut d = [0.0 as Float; 3];
            for i in 0..3 { d[i] = if r.chance(0.5) { 0.0 } else { -0.0 }; }
            d[ax] = if r.chance(0.5) { 1.0 } else { -1.0 } * if r.chance(0.3) { r.range(0.001, 100.0) as Float } else { 1.0 };
            // sometimes a second non-zero component (ray parallel to a coordinate plane)
            if r.chance(0.25) { let j = (ax + 1 + r.below(2) as usize) % 3; d[j] = r.range(-1.0, 1.0) as Float; }
            let mut o = [0.0 as Float; 3];
            for i in 0..3 { o[i] = slab_coord(r, lo[i], hi[i], s); }
            (o, d)
        }
        4 => (point_in(r, &lo, &hi, true), rdir(r)),
        5 => {
            // grazing: aim at a boundary point displaced along one axis by +-rel*scale
            let mut t = point_in(r, &lo, &hi, true);
            let i = r.below(3) as usize;
            t[i] = if r.chance(0.5) { lo[i] } else { hi[i] };
            // (f32 build: the same ladder moved up to what binary32 resolves: 1e-7 is one ulp32)
            #[cfg(not(feature = "float"))]
            let rel = *r.pick(&[1e-7, -1e-7, 3e-8, -3e-8, 1e-9, -1e-9, 1e-12, -1e-12, 0.0, 1e-5, -1e-5, 2e-6, -2e-6]) as Float;
            #[cfg(feature = "float")]
            let rel = *r.pick(&[1e-4, -1e-4, 3e-5, -3e-5, 1e-6, -1e-6, 1.2e-7, -1.2e-7, 0.0, 1e-3, -1e-3, 2e-4, -2e-4]) as Float;
            t[i] += rel * s;
            let j = (i + 1 + r.below(2) as usize) % 3;
            if r.chance(0.5) { t[j] = if r.chance(0.5) { lo[j] } else { hi[j] }; if r.chance(0.5) { t[j] += rel * s; } }
            let mut o = far_origin(r, &lo, &hi, s);
            // keep the ray (nearly) parallel to the grazed face half of the time
            if r.chance(0.5) { o[i] = t[i]; }
            if o == t { o[(i + 1) % 3] -= s; }
            (o, relen(r, [t[0] - o[0], t[1] - o[1], t[2] - o[2]]))
        }
        6 => (point_in(r, &lo, &hi, false), rdir(r)),
        _ => {
            // transversal hit of a (possibly) flat box, also from a point of the box itself
            let t = point_in(r, &lo, &hi, false);
            let o = if r.chance(0.2) { point_in(r, &lo, &hi, false) } else { far_origin(r, &lo, &hi, s) };
            let mut d = [t[0] - o[0], t[1] - o[1], t[2] - o[2]];
            if d == [0.0, 0.0, 0.0] { d = rand_dir(r); }
            (o, relen(r, d))
        }
    };
    let mut d = d;
    if d[0] == 0.0 && d[1] == 0.0 && d[2] == 0.0 { d[r.below(3) as usize] = 1.0; }
    Case { a, b, o, d, kind }
}

/// recorded findings and their mirror cases (see known_findings.json, DESIGN.md F10)
pub fn corpus() -> Vec<Case> {
    let c = |a: [Float; 3], b: [Float; 3], o: [Float; 3], d: [Float; 3]| Case { a, b, o, d, kind: 0 };
    vec![
        // F10: NaN in the x slab
        c([0., 0., 0.], [0., 1., 1.], [0., 0.5, -1.], [0., 0., 1.]),
        c([0., 0., 0.], [1., 1., 1.], [0., 0.5, -1.], [0., 0., 1.]),
        c([0., 0., 0.], [1., 1., 1.], [1., 0.5, -1.], [0., 0., 1.]),
        c([0., 0., 0.], [1., 1., 1.], [0., 0.5, -1.], [-0., 0., 1.]),
        c([0., 0., 0.], [1., 1., 1.], [1., 0.5, -1.], [-0., 0., 1.]),
        // mirror cases in y and z with +0: accepted
        c([0., 0., 0.], [1., 0., 1.], [0.5, 0., -1.], [0., 0., 1.]),
        c([0., 0., 0.], [1., 1., 1.], [0.5, 0., -1.], [0., 0., 1.]),
        c([0., 0., 0.], [1., 1., 1.], [0.5, 1., -1.], [0., 0., 1.]),
        c([0., 0., 0.], [1., 1., 0.], [-1., 0.5, 0.], [1., 0., 0.]),
        c([0., 0., 0.], [1., 1., 1.], [-1., 0.5, 1.], [1., 0., 0.]),
        // -0 in y or z with the origin in a face plane: the swap is skipped
        c([0., 0., 0.], [1., 1., 1.], [0.5, 0., -1.], [0., -0., 1.]),
        c([0., 0., 0.], [1., 1., 1.], [0.5, 1., -1.], [0., -0., 1.]),
        c([0., 0., 0.], [1., 1., 1.], [-1., 0.5, 0.], [1., 0., -0.]),
        c([0., 0., 0.], [1., 1., 1.], [-1., 0.5, 1.], [1., 0., -0.]),
        // flat box, origin on it (t = 0 only), transversal
        c([0., 0., 0.], [0., 1., 1.], [0., 0.5, 0.5], [1., 0., 0.]),
        // flat box hit transversally ahead of the origin
        c([0., 0., 0.], [0., 1., 1.], [-1., 0.5, 0.5], [1., 0., 0.]),
        c([0., 0., 0.], [1., 0., 1.], [0.5, 2., 0.5], [0., -1., 0.]),
        c([0., 0., 5.], [1., 1., 5.], [0.25, 0.25, 7.], [0.1, 0.1, -1.]),
        // origin on a face pointing away / inwards
        c([0., 0., 0.], [1., 1., 1.], [1., 0.5, 0.5], [1., 0., 0.]),
        c([0., 0., 0.], [1., 1., 1.], [1., 0.5, 0.5], [-1., 0., 0.]),
        // the doc example
        c([0., 0., 0.], [1., 1., 1.], [0.5, 0.5, 0.5], [0., 0., 1.]),
    ]
}

fn emit(sink: &mut Sink, c: &Case) {
    let (ans, bb, inv) = eval(c);
    let mut all: Vec<Float> = vec![];
    all.extend_from_slice(&c.a); all.extend_from_slice(&c.b); all.extend_from_slice(&c.o);
    all.extend_from_slice(&c.d); all.extend_from_slice(&inv); all.extend_from_slice(&bb);
    sink.push(
        format!("({}, {})", sfs(&all), if ans { "true" } else { "false" }),
        format!("{{{}\"kind\":\"{}\",\"a\":{},\"b\":{},\"o\":{},\"d\":{},\"inv\":{},\"bb\":{},\"out\":{}}}",
                f32_mark(), KINDS[c.kind], jfs(&c.a), jfs(&c.b), jfs(&c.o), jfs(&c.d), jfs(&inv), jfs(&bb), ans),
    );
}

pub fn run(seed: u64, n: usize, out: &str) {
    // util::Rng::new(s) and Rng::new(s+1) are the same SplitMix64 stream one draw apart: take the state from a first
    // draw so that neighbouring seeds give unrelated case sequences
    let mut r = Rng(Rng::new(seed ^ 0xC14).next());
    // f32 build: runner module C14f32 of Run/C14.v (the same text on the binary32 instance)
    let mut sink = Sink::new32(out, "C14", 400);
    for c in corpus() { emit(&mut sink, &c); }
    while sink.len() < n {
        let c = rand_case(&mut r);
        emit(&mut sink, &c);
    }
    sink.flush();
}

pub fn replay(args: &[String]) {
    // args: 12 bit patterns: corner a, corner b, origin, direction
    let v: Vec<Float> = args.iter().map(|s| Float::from_bits(s.parse().unwrap())).collect();
    let c = Case { a: [v[0], v[1], v[2]], b: [v[3], v[4], v[5]], o: [v[6], v[7], v[8]], d: [v[9], v[10], v[11]], kind: 0 };
    let (ans, bb, inv) = eval(&c);
    println!("{{{}\"kind\":\"corpus\",\"a\":{},\"b\":{},\"o\":{},\"d\":{},\"inv\":{},\"bb\":{},\"out\":{}}}",
             f32_mark(), jfs(&c.a), jfs(&c.b), jfs(&c.o), jfs(&c.d), jfs(&inv), jfs(&bb), ans);
}
